#[cfg(all(test, feature = "transparent", feature = "spend-finalizer"))]
mod verif_c13_demo {
    use zcash_script::script::Evaluable;
    use alloc::collections::BTreeMap;
    use alloc::vec::Vec;

    use zcash_protocol::consensus::BranchId;

    use super::{Input, Output};
    use crate::{
        Pczt,
        roles::{combiner::Combiner, creator::Creator, spend_finalizer::SpendFinalizer},
    };

    const LOCK_HEIGHT: u32 = 2_500_000;

    fn base() -> Pczt {
        Creator::new(BranchId::Nu6.into(), 10_000_000, 133, Some([0; 32]), Some([0; 32]))
            .unwrap()
            .build()
            .unwrap()
    }

    #[test]
    fn spend_finalizer_keeps_the_lock_time() {
        let mut pczt = base();
        // a P2PKH coin for a fixed compressed public key
        let sk = secp256k1::SecretKey::from_slice(&[0x11; 32]).unwrap();
        let pk = secp256k1::PublicKey::from_secret_key(&secp256k1::Secp256k1::new(), &sk);
        let addr = transparent::address::TransparentAddress::from_pubkey(&pk);
        let script_pubkey: Vec<u8> = addr.script().to_bytes();
        let mut partial_signatures = BTreeMap::new();
        partial_signatures.insert(pk.serialize(), vec![0x30; 71]);
        pczt.transparent.inputs.push(Input {
            prevout_txid: [7; 32],
            prevout_index: 1,
            sequence: Some(0xffff_fffe),
            required_time_lock_time: None,
            required_height_lock_time: Some(LOCK_HEIGHT),
            script_sig: None,
            value: 100_000,
            script_pubkey,
            redeem_script: None,
            partial_signatures,
            sighash_type: 0x01,
            bip32_derivation: BTreeMap::new(),
            ripemd160_preimages: BTreeMap::new(),
            sha256_preimages: BTreeMap::new(),
            hash160_preimages: BTreeMap::new(),
            hash256_preimages: BTreeMap::new(),
            proprietary: BTreeMap::new(),
        });
        pczt.transparent.outputs.push(Output {
            value: 90_000,
            script_pubkey: vec![0x76, 0xa9, 0x14, 4, 4, 4, 4, 4, 4, 4, 4, 4, 4, 4, 4, 4, 4, 4, 4, 4, 4, 4, 4, 0x88, 0xac],
            redeem_script: None,
            bip32_derivation: BTreeMap::new(),
            user_address: None,
            proprietary: BTreeMap::new(),
        });
        let before = pczt.clone().into_effects().expect("effects").lock_time();
        assert_eq!(before, LOCK_HEIGHT);
        let after_pczt = SpendFinalizer::new(pczt).finalize_spends().expect("finalizes");
        let after = after_pczt.into_effects().expect("effects").lock_time();
        assert_eq!(after, before, "the Spend Finalizer changed the transaction's lock time");
    }

    #[test]
    fn combining_keeps_bsk_whichever_copy_comes_first() {
        let a = base();
        let mut b = a.clone();
        b.sapling.bsk = Some([3; 32]);
        let ba = Combiner::new(vec![b.clone(), a.clone()]).combine().unwrap();
        let ab = Combiner::new(vec![a, b]).combine().unwrap();
        assert_eq!(ba.sapling.bsk, Some([3; 32]));
        assert_eq!(ab.sapling.bsk, Some([3; 32]), "bsk carried by the second copy was dropped");
    }
}
