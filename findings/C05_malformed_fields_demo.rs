use std::panic::{catch_unwind, AssertUnwindSafe};
use zcash_client_backend::{
    data_api::BlockMetadata,
    proto::compact_formats::{ChainMetadata, CompactBlock, CompactSaplingOutput, CompactTx},
    scanning::{scan_block, Nullifiers, ScanningKeys},
};
use zcash_protocol::consensus::{BlockHeight, Network};

fn base_block() -> CompactBlock {
    let mut cb = CompactBlock::default();
    cb.height = 500_000;
    cb.hash = vec![1; 32];
    cb.prev_hash = vec![0; 32];
    cb
}

fn run(name: &str, mut cb: CompactBlock, prior: Option<&BlockMetadata>) {
    let n: usize = cb.vtx.iter().map(|t| t.outputs.len()).sum();
    cb.chain_metadata = Some(ChainMetadata { sapling_commitment_tree_size: n as u32, orchard_commitment_tree_size: 0, ironwood_commitment_tree_size: 0 });
    let keys: ScanningKeys<u32, (u32, zip32::Scope)> = ScanningKeys::empty();
    let nfs: Nullifiers<u32> = Nullifiers::empty();
    let r = catch_unwind(AssertUnwindSafe(|| {
        scan_block(&Network::TestNetwork, cb, &keys, &nfs, prior).map(|_| ()).map_err(|e| format!("{e:?}"))
    }));
    match r {
        Ok(Ok(())) => println!("CASE {name}: accepted"),
        Ok(Err(e)) => println!("CASE {name}: error {}", &e[..e.len().min(60)]),
        Err(_) => println!("CASE {name}: PANIC"),
    }
}

#[test]
fn malformed_fields() {
    std::panic::set_hook(Box::new(|_| {}));
    run("well-formed", base_block(), None);
    let mut cb = base_block(); cb.hash = vec![1; 31];
    run("hash-31-bytes", cb, None);
    let mut cb = base_block(); cb.height = u64::from(u32::MAX) + 1;
    run("height-over-u32", cb, None);
    let mut cb = base_block();
    let mut tx = CompactTx::default(); tx.txid = vec![7; 31];
    cb.vtx.push(tx);
    run("txid-31-bytes", cb, None);
    let mut cb = base_block();
    let mut tx = CompactTx::default(); tx.txid = vec![7; 32]; tx.index = 70_000;
    cb.vtx.push(tx);
    run("tx-index-70000", cb, None);
    let mut cb = base_block();
    let mut tx = CompactTx::default(); tx.txid = vec![7; 32];
    let mut out = CompactSaplingOutput::default(); out.cmu = vec![0; 31]; out.ephemeral_key = vec![0; 32]; out.ciphertext = vec![0; 52];
    tx.outputs.push(out);
    cb.vtx.push(tx);
    run("sapling-cmu-31-bytes", cb, None);
    let mut cb = base_block();
    let mut tx = CompactTx::default(); tx.txid = vec![7; 32];
    let mut out = CompactSaplingOutput::default(); out.cmu = vec![0; 32]; out.ephemeral_key = vec![0; 31]; out.ciphertext = vec![0; 52];
    tx.outputs.push(out);
    cb.vtx.push(tx);
    run("sapling-epk-31-bytes", cb, None);
    let prior = BlockMetadata::from_parts(BlockHeight::from_u32(499_999), zcash_primitives::block::BlockHash([0; 32]), Some(0), Some(0), Some(0));
    let mut cb = base_block(); cb.prev_hash = vec![0; 5];
    run("prev-hash-5-bytes", cb, Some(&prior));
}
