// Demonstration of the C12 defect repaired by the /repo commit "fix: zip321 TransactionRequest::new
// rejects requests that do not round-trip".  Appended to components/zip321/src/lib.rs and run with
//   cargo test -p zip321 --offline c12_finding_demo
// BEFORE the fix it fails (TransactionRequest::new accepts the request, to_uri/from_uri yields a
// different one: the free-form parameter "label" comes back as the typed label);
// AFTER the fix TransactionRequest::new returns Err(ParseError(..)) for this request.
#[cfg(test)]
mod c12_finding_demo {
    use super::*;
    use zcash_address::ZcashAddress;
    use zcash_protocol::value::Zatoshis;

    #[test]
    fn reserved_name_in_other_params_does_not_round_trip() {
        let addr = ZcashAddress::try_from_encoded(
            "ztestsapling1n65uaftvs2g7075q2x2a04shfk066u3lldzxsrprfrqtzxnhc9ps73v4lhx4l9yfxj46sl0q90k",
        )
        .unwrap();
        let p = Payment::new(
            addr,
            Some(Zatoshis::const_from_u64(100)),
            None,
            None,
            None,
            vec![("label".to_string(), "x".to_string())],
        )
        .unwrap();
        match TransactionRequest::new(vec![p]) {
            // after the fix: refused
            Err(_) => (),
            // before the fix: accepted, and it does not survive its own URI encoding
            Ok(req) => {
                let uri = req.to_uri();
                let back = TransactionRequest::from_uri(&uri).unwrap();
                assert_eq!(req, back, "uri = {uri}");
            }
        }
    }
}
