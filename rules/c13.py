"""C13 — PCZT combination and roles preserve the transaction (structural clauses).

  MERGE  in the four `merge` functions (Global, transparent/sapling/orchard Bundle) every field of
         every PCZT struct takes part in the merge with its same-named counterpart: an equality
         test whose inequality edge returns None, or merge_optional/merge_map on the same field
         whose `false` edge returns None, or a listed special rule; a comparison or merge that
         pairs two DIFFERENT fields (cross-wiring type-checks!) is a violation
  ROLES  no role other than Creator / Constructor / IoFinalizer / Combiner writes a field that
         carries the transaction's effects (ZIP 244 effecting data), except: the Redactor storing
         `None` (or the memo-plaintext form) into a field that Bundle::resolve_fields can
         recompute, or clearing the anchor; the Updater setting an anchor through set_anchor behind
         ensure_anchor_update_supported
Not decided: commutativity/associativity/idempotence of merge as algebraic laws, txid equality,
extraction correctness, role logic living in the external orchard / sapling-crypto crates.
"""
import re

import assume as S
import defuse
import extract
import zf
from common import Check

MERGE_FNS = ["pczt::common::Global::merge", "pczt::transparent::Bundle::merge",
             "pczt::sapling::Bundle::merge", "pczt::orchard::Bundle::merge"]

# (ADT, field) pairs that carry the transaction's effects (ZIP 244 T.1-T.4 data as named in pczt)
EFFECTING = {
    "pczt::common::Global": {"tx_version", "version_group_id", "consensus_branch_id",
                             "fallback_lock_time", "expiry_height"},
    "pczt::transparent::Input": {"prevout_txid", "prevout_index", "sequence",
                                 "required_time_lock_time", "required_height_lock_time",
                                 "value", "script_pubkey"},
    "pczt::transparent::Output": {"value", "script_pubkey"},
    "pczt::sapling::Spend": {"cv", "nullifier", "rk"},
    "pczt::sapling::Output": {"cv", "cmu", "ephemeral_key", "enc_ciphertext", "out_ciphertext"},
    "pczt::sapling::Bundle": {"value_sum", "anchor"},
    "pczt::orchard::Action": {"cv_net"},
    "pczt::orchard::Spend": {"nullifier", "rk"},
    "pczt::orchard::Output": {"cmx", "ephemeral_key", "enc_ciphertext", "out_ciphertext"},
    "pczt::orchard::Bundle": {"flags", "value_sum", "anchor", "note_version"},
    "zcash_transparent::pczt::Input": {"prevout_txid", "prevout_index", "sequence",
                                       "required_time_lock_time", "required_height_lock_time",
                                       "value", "script_pubkey"},
    "zcash_transparent::pczt::Output": {"value", "script_pubkey"},
}
# effecting fields that are functions of other PCZT fields (documented on resolve_fields)
RESOLVABLE_SPEC = {("pczt::orchard::Action", "cv_net"), ("pczt::orchard::Output", "cmx"),
                   ("pczt::orchard::Output", "enc_ciphertext")}
EXEMPT_ROLES = {"creator", "constructor", "io_finalizer", "combiner", "tx_extractor", "verifier"}


def named_path(o):
    """trailing named fields of an origin tree (tuple indices dropped) and the remaining base"""
    names = []
    while o and o[0] in ("field", "ref", "deref", "variant", "proj", "cast"):
        if o[0] == "field":
            n = o[2][1:]
            if not n.isdigit():
                names.append(n)
            elif names:
                pass
            o = o[1]
        elif o[0] == "cast":
            o = o[2]
        else:
            o = o[1]
        if o and o[0] == "call" and re.search(r"::(as_mut|as_ref|as_deref|as_deref_mut|clone|"
                                              r"deref|deref_mut|borrow|borrow_mut)$", o[1]) and o[2]:
            o = o[2][0]
    return tuple(reversed(names)), o


def struct_fields(w, adt):
    a = w.adts.get(adt)
    if not a or a["kind"] != "Struct":
        return []
    return [(f["name"], f["ty"]) for f in a["variants"][0]["fields"]]


def leaf_paths(w, adt, prefix=()):
    """[(path tuple, owner adt, kind)] kind: 'leaf' | 'items:<adt>'"""
    out = []
    for name, ty in struct_fields(w, adt):
        m = re.match(r"core::vec::Vec<(pczt::[\w:]+)>$", ty)
        if m and m.group(1) in w.adts:
            out.append((prefix + (name,), adt, "items:" + m.group(1)))
        elif ty in w.adts and ty.startswith("pczt::") and w.adts[ty]["kind"] == "Struct" and \
                ty.rsplit("::", 1)[0] == adt.rsplit("::", 1)[0] and \
                ty.rsplit("::", 1)[1] in ("Spend", "Output"):
            out.extend(leaf_paths(w, ty, prefix + (name,)))
        else:
            out.append((prefix + (name,), adt, "leaf"))
    return out


def main(tier):
    chk = Check("C13", "other", tier)
    chk.explanation = (
        "MERGE: def-use origins on the MIR of the four PCZT merge functions pair every comparison "
        "and merge_optional/merge_map call by the field path of its operands; every field of every "
        "PCZT struct must be paired with its own counterpart on an edge that fails the merge on "
        "conflict. ROLES: every direct store or &mut borrow of an effecting field in code reachable "
        "from a role (within the pczt crate) is classified; only the Redactor's clearing of "
        "resolvable fields and the Updater's guarded anchor update are admitted. Not decided: the "
        "algebraic laws of merge, txid equality across roles, code in the external orchard / "
        "sapling-crypto crates.")
    chk.trusted = ["rustc MIR", "ZIP 244 effecting-field table transcribed in rules/c13.py",
                   "role logic inside external crates (orchard, sapling-crypto) is out of scope"]
    chk.rule("MERGE-cover", "every field takes part in merge with a conflict edge", floor=75)
    chk.rule("MERGE-pair", "comparisons / merges pair a field with its own counterpart", floor=75)
    chk.rule("ROLES", "roles do not write effecting fields (two admitted shapes)", floor=8)
    chk.rule("MERGE-carry", "optional data and the value sum are carried over from the other copy",
             floor=4)
    chk.rule("XWIRE", "struct fields are initialised from the same-named source field", floor=150)
    chk.rule("OMIT", "bundle-omission predicates of the v2 encoding consider every field", floor=2)
    chk.rule("MODIF", "combining adds elements only to a copy whose Modifiable flag is set", floor=5)
    chk.rule("VERSION", "the v1 encoding is attempted unless the v1 conversion itself would refuse", floor=3)
    chk.rule("MEMOLEN", "the stripped memo plaintext decoder accepts every length the encoder emits", floor=1)
    chk.rule("SIGFLAGS", "a transparent signature updates the Modifiable flags as its sighash type prescribes", floor=1)
    chk.rule("control", "positive controls", floor=2)
    w = zf.World(extract.facts_dir("all"), ["pczt", "zcash_transparent"])
    merge_rules(chk, w)
    merge_carry_rules(chk, w)
    modif_rules(chk, w)
    version_rules(chk, w)
    sigflags_rules(chk, w)
    memo_len_rules(chk, w)
    role_rules(chk, w)
    xwire_rules(chk, w)
    omit_rules(chk, w)
    chk.finish()


# ---------------------------------------------------------------------- VERSION
def _atom(o, truth):
    """normalised atomic test: (frozenset of operand texts, 'eq'|'ne') or ('raw', text, truth)"""
    txt = defuse.show(o) if not (isinstance(o, tuple) and o and o[0] == "disc") else "disc(%s)" % defuse.show(o[1])
    txt = txt.replace("*", "").replace("&", "")      # by value or behind a reference: the same operand
    m = re.match(r"^\((.+) (Eq|Ne) (.+)\)$", txt)
    if m:
        pol = (m.group(2) == "Eq") == truth
        return (frozenset({m.group(1), m.group(3)}), "eq" if pol else "ne")
    m = re.match(r"^(eq|ne)\((.+), (.+)\)$", txt)
    if m:
        pol = (m.group(1) == "eq") == truth
        return (frozenset({m.group(2), m.group(3)}), "eq" if pol else "ne")
    return ("raw", txt, truth)


def _neg(a):
    if a[0] == "raw":
        return ("raw", a[1], not a[2])
    return (a[0], "ne" if a[1] == "eq" else "eq")


def version_rules(chk, w):
    """`serialize` must use the v1 encoding whenever the content is representable in it: the v1
    conversion is the source of truth, so a pre-check that skips the attempt is only admissible when
    it is the complement of a rejection the v1 conversion itself performs (otherwise representable
    content is pushed to v2); and a successful conversion's serialisation is what is returned."""
    import guards as G
    ser = w.by_p.get("pczt::Pczt::serialize", [])
    tf = [f for f in w.fns.values() if f.p == "<pczt::v1::Pczt as core::convert::TryFrom<pczt::Pczt>>::try_from"]
    if len(ser) != 1 or len(tf) != 1:
        chk.fail("VERSION", "missing", "Pczt::serialize / v1::Pczt::try_from not found")
        return
    rej = []
    for f, prefix in [(tf[0], "arg0")] + [
            (g, "arg0." + m.group(1)) for g in w.fns.values()
            for m in [re.match(r"<pczt::(sapling|orchard)::v1::Bundle as core::convert::TryFrom<pczt::\1::Bundle>>::try_from$", g.p)]
            if m]:
        b, du = f.body, defuse.DefUse(f.body)
        for bi, blk in enumerate(b.blocks):
            if blk.cleanup:
                continue
            for st in blk.stmts:
                if st.kind == "=" and st.place.local == 0 and st.rv.kind == "agg" and st.rv.agg[2] == "Err":
                    conj = set()
                    for sw, v, _tb in G.edge_conditions(b, bi):
                        tr = G.truth(b.blocks[sw].term, v)
                        o = du.origin(b.blocks[sw].term.discr)
                        if "branch(" in defuse.show(o) or tr is None and o[0] != "disc":
                            continue
                        a = _atom(o, bool(tr) if tr is not None else v)
                        if a[0] != "raw":
                            a = (frozenset(x.replace("arg0", prefix, 1) for x in a[0]), a[1])
                        conj.add(a)
                    # drop the complements of earlier rejections (they only say "not rejected before")
                    rej.append(conj)
    singles = {next(iter(c)) for c in rej if len(c) == 1}
    for c in rej:
        rest = {a for a in c if _neg(a) not in singles}
        if len(rest) == 1:
            singles |= rest
    b, du = ser[0].body, defuse.DefUse(ser[0].body)
    calls = [(bb, t) for bb, t in b.calls() if not b.blocks[bb].cleanup and t.callee.indirect is None and
             t.callee.target_p() == tf[0].p]
    if len(calls) != 1:
        chk.fail("VERSION", "attempt/missing", "serialize does not attempt the v1 conversion exactly once", ser[0].span.loc())
        return
    bb = calls[0][0]
    n = 0
    conds = []
    for sw, v, _tb in G.edge_conditions(b, bb):
        tr = G.truth(b.blocks[sw].term, v)
        o = du.origin(b.blocks[sw].term.discr)
        # a pre-check moved into a private `fn(&self) -> bool`: the tests under which it answers true
        hs = [g for g in w.fns.values() if o[0] == "call" and g.p == o[1] and g.crate.name == "pczt" and
              not g.is_closure() and g.body is not None and g.body.local_ty(0) == "bool"]
        if tr is True and len(hs) == 1 and len(o[2]) == 1 and defuse.strip_refs(o[2][0]) == ("arg", 0):
            hb, hdu = hs[0].body, defuse.DefUse(hs[0].body)
            trues = [bi for bi, blk in enumerate(hb.blocks) if not blk.cleanup for st in blk.stmts
                     if st.kind == "=" and st.place.local == 0 and not st.place.proj and st.rv.kind == "use" and
                     st.rv.ops[0].kind == "const" and st.rv.ops[0].info.get("v") == 1]
            others = [bi for bi, blk in enumerate(hb.blocks) if not blk.cleanup for st in blk.stmts
                      if st.kind == "=" and st.place.local == 0 and not st.place.proj and
                      not (st.rv.kind == "use" and st.rv.ops[0].kind == "const")]
            others += [bi for bi, blk in enumerate(hb.blocks) if not blk.cleanup and blk.term.kind == "call" and
                       blk.term.dest is not None and blk.term.dest.local == 0 and not blk.term.dest.proj]
            if len(trues) + len(others) == 1:
                for sw2, v2, _t2 in G.edge_conditions(hb, (trues + others)[0]):
                    conds.append((hb.blocks[sw2].term, hdu.origin(hb.blocks[sw2].term.discr),
                                  G.truth(hb.blocks[sw2].term, v2)))
                if others:
                    blk = hb.blocks[others[0]]
                    lastc = blk.term if blk.term.kind == "call" and blk.term.dest is not None and \
                        blk.term.dest.local == 0 else None
                    if lastc is not None:
                        conds.append((lastc, ("call", lastc.callee.target_p(), [hdu.origin(a_) for a_ in lastc.args]), True))
                    else:
                        st = [x for x in blk.stmts if x.kind == "=" and x.place.local == 0][-1]
                        conds.append((blk.term, hdu.origin(st.rv.ops[0]) if st.rv.kind == "use" else ("unknown",), True))
                continue
        conds.append((b.blocks[sw].term, o, tr))
    for tm, o, tr in conds:
        a = _atom(o, bool(tr))
        n += 1
        if tr is not None and _neg(a) in singles:
            chk.ok("VERSION", "serialize skips the v1 attempt only if %s — a condition v1::Pczt::try_from rejects"
                   % (defuse.show(o)[:80] + (" is false" if tr else " holds")), sample=(n == 1))
        else:
            chk.fail("VERSION", "precheck/%s" % re.sub(r"[^A-Za-z0-9_.]+", "_", defuse.show(o))[:60],
                     "serialize attempts the v1 encoding only when `%s` is %s, but the v1 conversion does not reject "
                     "the opposite case: content representable in v1 is encoded as v2" % (defuse.show(o)[:120], tr),
                     tm.span.loc())
    # Ok(v1) => return Ok(v1.serialize())
    import assume as S
    res = S.after_call(b, bb, S.E("Result", "Ok"))
    v1ser = [x for x, t in b.calls() if t.callee.indirect is None and t.callee.target_p() == "pczt::v1::Pczt::serialize"]
    # ... or inside a closure handed to a combinator (`.ok().map(|v1| v1.serialize())`): the block that builds it
    for g in w.fns.values():
        if g.is_closure() and g.root == ser[0].id and any(
                t.callee.indirect is None and t.callee.target_p() == "pczt::v1::Pczt::serialize" for _x, t in g.body.calls()):
            v1ser += [bi for bi, blk in enumerate(b.blocks) if not blk.cleanup for st in blk.stmts
                      if st.kind == "=" and st.rv.kind == "agg" and st.rv.agg[0] == "closure" and
                      (st.rv.agg[1] == g.id or st.rv.agg[1] == g.p)]
    v2 = [x for x, t in b.calls() if t.callee.indirect is None and "v2::Pczt" in t.callee.target_p()]
    if res is not None and v1ser and set(v1ser) <= res.blocks and not (set(v2) & res.blocks):
        chk.ok("VERSION", "a successful v1 conversion is what serialize returns; v2 is used only after it failed or "
               "was ruled out")
    else:
        chk.fail("VERSION", "result", "after a successful v1 conversion serialize does not return its serialisation",
                 ser[0].span.loc())


# ---------------------------------------------------------------------- MODIF
FLAG_FOR = {"inputs": ("inputs_modifiable", "shielded_modifiable"),
            "outputs": ("outputs_modifiable", "shielded_modifiable"),
            "spends": ("shielded_modifiable",), "actions": ("shielded_modifiable",)}


def modif_rules(chk, w):
    """Combining may only add elements to a copy whose Modifiable flag for that list is set: in every
    bundle merge, for each match on (flag(self_global), flag(other_global), <length ordering>) that
    guards a call growing self.F: (a) self.F is grown only on the edge where self's flag holds and
    self is the shorter copy, (b) with that flag clear and self shorter the merge fails, (c) with the
    OTHER copy's flag clear and the other copy shorter the merge fails; the flag is F's flag."""
    import assume as S
    import guards as G
    n = 0
    for f in sorted(w.fns.values(), key=lambda f: f.p):
        if f.crate.name != "pczt" or f.is_closure() or not re.search(r"::Bundle::merge$", f.p):
            continue
        names = list(f.argnames or [])
        if "self_global" not in names or "other_global" not in names:
            continue
        sg, og = ("arg", names.index("self_global")), ("arg", names.index("other_global"))
        b = f.body
        du = defuse.DefUse(b)
        grow_all = [(bb, re.match(r"&(?:\*deref_mut\(&)?(?:arg0|_1)\.(\w+)\)?$", defuse.show(du.origin(t.args[0]))))
                    for bb, t in b.calls() if not b.blocks[bb].cleanup and t.callee.indirect is None and t.args and
                    re.search(r"::(extend|push|append|insert|extend_from_slice)$", t.callee.target_p())]
        grow_all = [(bb, m.group(1)) for bb, m in grow_all if m]
        tuples = {}
        for bi, blk in enumerate(b.blocks):
            if blk.cleanup:
                continue
            for si, s_ in enumerate(blk.stmts):
                if s_.kind == "=" and s_.rv.kind == "agg" and s_.rv.agg[0] == "tuple" and len(s_.rv.ops) == 3 and \
                        not s_.place.proj:
                    o = [du.origin(x) for x in s_.rv.ops[:2]]
                    if all(x[0] == "call" and x[1].endswith("_modifiable") for x in o):
                        tuples[s_.place.local] = (bi, si, s_, o)
        # which tuple guards which growing call
        guarded = {}
        for gb, fld in grow_all:
            for sw, v, tb in G.edge_conditions(b, gb):
                d = b.blocks[sw].term.discr
                if d.kind in ("copy", "move") and not d.place.proj:
                    dd = du.single(d.place.local)
                    pl = None
                    if dd and dd[0] == "stmt" and dd[2].rv.kind == "disc":
                        pl = dd[2].rv.place
                    elif dd and dd[0] == "stmt" and dd[2].rv.kind == "use" and dd[2].rv.ops[0].kind in ("copy", "move"):
                        pl = dd[2].rv.ops[0].place
                    if pl is not None and pl.local in tuples and len(pl.proj) == 1:
                        guarded.setdefault(pl.local, set()).add((gb, fld))
                elif d.kind in ("copy", "move") and d.place.local in tuples and len(d.place.proj) == 1:
                    guarded.setdefault(d.place.local, set()).add((gb, fld))
        for gb, fld in grow_all:
            if not any((gb, fld) in v for v in guarded.values()):
                n += 1
                chk.fail("MODIF", "%s/%s/unguarded" % (f.p.replace("pczt::", ""), fld), "self.%s is grown without a "
                         "match on the Modifiable flags" % fld, b.blocks[gb].term.span.loc())
        for tl, (bi, si, s_, o) in sorted(tuples.items()):
            gs = sorted(guarded.get(tl, ()))
            if not gs:
                continue
            flds = sorted({fld for _gb, fld in gs})
            fld = flds[0]
            key = "%s/%s" % (f.p.replace("pczt::", ""), "+".join(flds))
            n += 1
            flags = [x[1].rsplit("::", 1)[-1] for x in o]
            recv = [defuse.strip_refs(x[2][0]) if x[2] else None for x in o]
            o3 = defuse.show(du.origin(s_.rv.ops[2]))
            m3 = re.match(r"cmp\(&len\(&(?:arg0|_1)\.(\w+)\), &len\(&arg1\.(\w+)\)\)$", o3)
            if not m3 or m3.group(1) != fld or m3.group(2) != fld:
                chk.fail("MODIF", key + "/ordering", "growing self.%s is decided by the ordering %s, expected "
                         "self.%s.len().cmp(&other.%s.len())" % (fld, o3[:120], fld, fld), s_.span.loc())
                continue
            if len(flds) != 1 or flags[0] != flags[1] or flags[0] not in FLAG_FOR.get(fld, ()) or recv != [sg, og]:
                chk.fail("MODIF", key + "/scrutinee", "growing self.%s is decided by %s(%s) / %s(%s); expected this "
                         "list's flag of self_global / other_global"
                         % (flds, flags[0], defuse.show(recv[0]), flags[1], defuse.show(recv[1])), s_.span.loc())
                continue

            grow = [gb for gb, _f in gs]
            if any(x.kind not in ("copy", "move") or x.place.proj for x in s_.rv.ops):
                chk.fail("MODIF", key + "/anchors", "the matched tuple is not built from plain locals", s_.span.loc())
                continue

            def explore(self_flag, other_flag, order):
                # from the block that builds the matched tuple, with its operands assumed (an operand
                # copied inside that block is assumed at the copy)
                car, inj = {}, {}
                for op, val in ((s_.rv.ops[0], None if self_flag is None else S.B(self_flag)),
                                (s_.rv.ops[1], None if other_flag is None else S.B(other_flag)),
                                (s_.rv.ops[2], S.E("Ordering", order))):
                    if val is None:
                        continue
                    ks = [k for k, st in enumerate(b.blocks[bi].stmts[:si]) if st.kind == "=" and
                          not st.place.proj and st.place.local == op.place.local]
                    if ks:
                        inj[(bi, ks[-1])] = val
                    else:
                        car[op.place.local] = val
                return S.explore(b, bi, car, inject=inj, limit=60000)
            r1 = explore(False, None, "Less")
            r2 = explore(None, False, "Greater")
            r3 = explore(True, None, "Less")
            r4 = explore(None, None, "Greater")
            r5 = explore(None, None, "Equal")

            def fails(r):
                rets = {rv for _rb, rv in r.returns}
                return not r.too_big and bool(rets) and rets <= {"variant:None"}
            a_ok = fails(r1) and not (set(grow) & r1.blocks)
            c_ok = fails(r2)
            live = not r3.too_big and bool(set(grow) & r3.blocks)
            only_less = not (set(grow) & r4.blocks) and not (set(grow) & r5.blocks)
            if a_ok and c_ok and live and only_less:
                chk.ok("MODIF", "%s: self.%s grows only when %s(self_global) holds and self is the shorter copy; a "
                       "clear flag on the copy that would be extended fails the merge (both directions)"
                       % (f.p.replace("pczt::", ""), fld, flags[0]), sample=(fld == "inputs"))
            else:
                chk.fail("MODIF", key, "self.%s: with self's %s clear and self shorter the merge %s; with the other "
                         "copy's flag clear and the other copy shorter it %s; growing is %s with the flag set; "
                         "growing happens only when self is shorter: %s"
                         % (fld, flags[0], "fails" if a_ok else "can succeed or extend self",
                            "fails" if c_ok else "can succeed", "reachable" if live else "unreachable", only_less),
                         s_.span.loc())
    if n == 0:
        chk.fail("MODIF", "missing", "no Modifiable-flag match found in the bundle merges")


# ---------------------------------------------------------------------- MERGE
SPECIAL = {
    ("pczt::common::Global", ("tx_modifiable",)):
        "bitmap merged bit by bit (bits 0,1,7 towards false, bit 2 towards true, bits 3-6 must be 0)",
}


def sigflags_rules(chk, w):
    """SIGFLAGS: what a transparent signature does to the Modifiable flags is a function of its sighash type
    (PCZT spec, Signer): without ANYONECANPAY the inputs can no longer change; unless the base type is NONE
    the outputs can no longer change (SINGLE included - removing the paired output would not remove the
    signature); a SINGLE signature sets Has-SIGHASH_SINGLE; the shielded parts are always frozen. The stores
    to `global.tx_modifiable` in the signing function and the tests that guard them are evaluated for every
    sighash byte 0..255 and compared with that table."""
    import guards as G
    fs = [f for f in w.fns.values() if f.p.endswith("roles::signer::Signer::generate_or_append_transparent_signature")]
    if len(fs) != 1:
        chk.fail("SIGFLAGS", "missing", "Signer::generate_or_append_transparent_signature not found")
        return
    f = fs[0]
    b, du = f.body, defuse.DefUse(f.body)
    C = {k: (w.consts.get("pczt::common::" + k) or {}).get("v") for k in
         ("FLAG_TRANSPARENT_INPUTS_MODIFIABLE", "FLAG_TRANSPARENT_OUTPUTS_MODIFIABLE", "FLAG_HAS_SIGHASH_SINGLE",
          "FLAG_SHIELDED_MODIFIABLE")}
    if None in C.values():
        chk.fail("SIGFLAGS", "consts", "flag constants not found: %s" % C)
        return

    class Unknown(Exception):
        pass

    def ev(o, h):
        if o[0] == "const" and isinstance(o[1], int):
            return o[1]
        if o[0] == "cast":
            return ev(o[2], h)
        if o[0] == "un" and o[1] == "Not":
            return (~ev(o[2], h)) & 0xff
        if o[0] == "call" and o[1].endswith("::encode") and "sighash_type" in defuse.show(o):
            return h
        if o[0] == "bin":
            a, c = ev(o[2], h), ev(o[3], h)
            fn = {"BitAnd": lambda: a & c, "BitOr": lambda: a | c, "BitXor": lambda: a ^ c,
                  "Eq": lambda: int(a == c), "Ne": lambda: int(a != c), "Lt": lambda: int(a < c),
                  "Le": lambda: int(a <= c), "Gt": lambda: int(a > c), "Ge": lambda: int(a >= c)}.get(o[1])
            if fn is None:
                raise Unknown(o[1])
            return fn()
        raise Unknown(defuse.show(o)[:60])
    stores = []
    for bi, blk in enumerate(b.blocks):
        if blk.cleanup:
            continue
        for st in blk.stmts:
            if st.kind == "=" and st.place.proj and st.place.proj[-1] == ".tx_modifiable" and st.rv.kind == "bin":
                cur, m = du.origin(st.rv.ops[0]), du.origin(st.rv.ops[1])
                if not defuse.show(cur).endswith("tx_modifiable"):
                    cur, m = m, cur
                try:
                    mv = ev(m, 0)
                except Unknown:
                    mv = None
                if st.rv.op == "BitAnd" and mv is not None:
                    eff = ("clear", (~mv) & 0xff)
                elif st.rv.op == "BitOr" and mv is not None:
                    eff = ("set", mv)
                else:
                    chk.fail("SIGFLAGS", "store", "tx_modifiable is updated by `%s %s`: not a flag set / clear this rule can read"
                             % (st.rv.op, defuse.show(m)[:40]), st.span.loc())
                    return
                conds = []
                for sw, v, _tb in G.edge_conditions(b, bi):
                    tm = b.blocks[sw].term
                    if tm.span.macros or tm.discr is None or tm.discr.kind not in ("copy", "move"):
                        continue
                    o = du.origin(tm.discr)
                    if "sighash_type" in defuse.show(o):
                        conds.append((o, v, [a for a, _t in tm.arms]))
                stores.append((eff, conds, st))
    if len(stores) < 4:
        chk.fail("SIGFLAGS", "stores", "expected the four flag updates of the Signer, found %d" % len(stores), f.span.loc())
        return
    acp, none_, single = 0x80, 2, 3
    bad = None
    try:
        for h in range(256):
            got = set()
            for eff, conds, _st in stores:
                run = True
                for o, v, arms in conds:
                    x = ev(o, h)
                    if (v == "else" and x in arms) or (v != "else" and x != v):
                        run = False
                        break
                if run:
                    got.add(eff)
            base = h & ~acp & 0xff
            want = {("clear", C["FLAG_SHIELDED_MODIFIABLE"])}
            if h & acp == 0:
                want.add(("clear", C["FLAG_TRANSPARENT_INPUTS_MODIFIABLE"]))
            if base != none_:
                want.add(("clear", C["FLAG_TRANSPARENT_OUTPUTS_MODIFIABLE"]))
            if base == single:
                want.add(("set", C["FLAG_HAS_SIGHASH_SINGLE"]))
            if got != want and bad is None:
                bad = "for sighash byte 0x%02x the Signer performs %s, the specification prescribes %s" % (
                    h, sorted(got), sorted(want))
    except Unknown as e:
        chk.fail("SIGFLAGS", "tests", "a flag update is guarded by a test this rule cannot evaluate: %s" % e, f.span.loc())
        return
    if bad is None:
        chk.ok("SIGFLAGS", "for every sighash byte: inputs frozen unless ANYONECANPAY, outputs frozen unless base NONE, "
               "Has-SIGHASH_SINGLE set iff base SINGLE, shielded always frozen (256 values evaluated)", sample=True)
    else:
        chk.fail("SIGFLAGS", "table", bad, f.span.loc())


def memo_len_rules(chk, w):
    """MEMOLEN: the v2 encoding stores an Orchard-protocol memo plaintext with its trailing zeros stripped,
    so the encoder emits every length 0..=MEMO_SIZE (a memo whose last byte is non-zero has nothing to
    strip) and the decoder must accept exactly those: from_stripped_bytes answers TooLong for a length
    above MEMO_SIZE and for no other. The guard of the TooLong error is evaluated at the boundary."""
    import guards as G
    fs = [f for f in w.fns.values() if f.p.endswith("orchard::MemoPlaintext::from_stripped_bytes")]
    ms = (w.consts.get("pczt::orchard::MEMO_SIZE") or {}).get("v")
    if len(fs) != 1 or not isinstance(ms, int):
        chk.fail("MEMOLEN", "missing", "MemoPlaintext::from_stripped_bytes / MEMO_SIZE not found")
        return
    f = fs[0]
    b, du = f.body, defuse.DefUse(f.body)
    errs = [bi for bi, blk in enumerate(b.blocks) if not blk.cleanup for st in blk.stmts
            if st.kind == "=" and st.rv.kind == "agg" and st.rv.agg[0] == "adt" and st.rv.agg[2] == "TooLong"]
    if len(errs) != 1:
        chk.fail("MEMOLEN", "shape", "expected one TooLong error site, found %d" % len(errs), f.span.loc())
        return
    tests = []
    for sw, v, _tb in G.edge_conditions(b, errs[0]):
        tm = b.blocks[sw].term
        o = du.origin(tm.discr) if tm.discr is not None and tm.discr.kind in ("copy", "move") else None
        tr = G.truth(tm, v)
        if o is not None and o[0] == "bin" and tr is not None and "len(" in defuse.show(o):
            tests.append((o, tr))
    if len(tests) != 1:
        chk.fail("MEMOLEN", "guard", "the TooLong error is not guarded by one length comparison (%d found)" % len(tests),
                 f.span.loc())
        return
    o, tr = tests[0]

    def val(x, n):
        if x[0] == "const":
            return x[1]
        if x[0] == "constdef" and x[1].endswith("MEMO_SIZE"):
            return ms
        if x[0] == "call" and x[1].endswith("::len"):
            return n
        return None

    def holds(n):
        a, c = val(o[2], n), val(o[3], n)
        if a is None or c is None:
            return None
        r = {"Gt": a > c, "Ge": a >= c, "Lt": a < c, "Le": a <= c, "Eq": a == c, "Ne": a != c}.get(o[1])
        return None if r is None else (r == tr)
    got = [holds(n) for n in (0, ms - 1, ms, ms + 1)]
    if got == [False, False, False, True]:
        chk.ok("MEMOLEN", "from_stripped_bytes: TooLong exactly for lengths above MEMO_SIZE = %d (the encoder emits 0..=%d)"
               % (ms, ms), sample=True)
    else:
        chk.fail("MEMOLEN", "boundary", "TooLong is answered for lengths (0, %d, %d, %d) as %s; the encoder emits every length up "
                 "to %d, so a full-length memo no longer parses" % (ms - 1, ms, ms + 1, got, ms), f.span.loc())


def merge_rules(chk, w):
    for name in MERGE_FNS:
        try:
            f = w.fn(name)
        except KeyError:
            chk.fail("MERGE-cover", name + "/missing", "merge function %s not found" % name)
            continue
        body = f.body
        du = defuse.DefUse(body)
        self_adt = f.self_ty
        # struct contexts: Self, and item structs of its Vec fields
        contexts = [(self_adt, leaf_paths(w, self_adt))]
        for path, owner, kind in contexts[0][1]:
            if kind.startswith("items:"):
                contexts.append((kind[6:], leaf_paths(w, kind[6:])))
        # collect pairing sites
        sites = []     # (kind, pathA, pathB, bb, term_or_stmt, fail_carrier)
        for bb, t in body.calls():
            if t.callee.indirect is not None:
                continue
            n = t.callee.target_p()
            if re.search(r"::(merge_optional|merge_map)$", n) and len(t.args) >= 2:
                pa, _ba = named_path(du.origin(t.args[0]))
                pb, _bb = named_path(du.origin(t.args[1]))
                sites.append(("merge", pa, pb, bb, t, S.B(False)))
            elif re.search(r"core::cmp::PartialEq::(eq|ne)$", t.callee.p or "") and len(t.args) == 2:
                pa, _ba = named_path(du.origin(t.args[0]))
                pb, _bb = named_path(du.origin(t.args[1]))
                isne = n.endswith("::ne")
                sites.append(("cmp", pa, pb, bb, t, S.B(True if isne else False)))
        for bi, blk in enumerate(body.blocks):
            for si, s in enumerate(blk.stmts):
                if s.kind == "=" and s.rv.kind == "bin" and s.rv.op in ("Eq", "Ne"):
                    pa, _ba = named_path(du.origin(s.rv.ops[0]))
                    pb, _bb = named_path(du.origin(s.rv.ops[1]))
                    if pa and pb:
                        sites.append(("cmpbin", pa, pb, bi, (si, s), S.B(s.rv.op == "Ne")))
        covered = {}
        ordn = {}
        for kind, pa, pb, bb, x, failc in sites:
            if not pa or not pb:
                continue
            # length comparisons etc. are not field pairings
            la, lb = pa[-1], pb[-1]
            loc = (x.span if kind != "cmpbin" else x[1].span).loc()
            k0 = "%s/%s" % (name, ".".join(pa))
            ordn[k0] = ordn.get(k0, 0) + 1
            key = "%s#%d" % (k0, ordn[k0])
            if pa != pb:
                # suffix-compatible (one side addressed through a longer access path)?
                short, long_ = (pa, pb) if len(pa) <= len(pb) else (pb, pa)
                if long_[-len(short):] != short:
                    chk.fail("MERGE-pair", key, "%s pairs field `%s` with a different field `%s`: a "
                             "conflict in either goes unnoticed / data is merged into the wrong "
                             "slot" % ("merge call" if kind == "merge" else "comparison",
                                       ".".join(pa), ".".join(pb)), loc)
                    continue
            # conflict edge returns None
            if kind == "cmpbin":
                si, s = x
                res = S.explore(body, bb, {}, inject={(bb, si): failc})
            else:
                res = S.after_call(body, bb, failc)
            rets = {rv for _b, rv in res.returns} if res is not None else {"?"}
            if res is None or res.too_big or not rets <= {"variant:None"}:
                chk.fail("MERGE-pair", key, "on a conflict in `%s` the merge does not fail: returns %s"
                         % (".".join(pa), sorted(rets)), loc)
                continue
            chk.ok("MERGE-pair", "%s: `%s` %s its counterpart; conflict => None [%s]"
                   % (name.split("::")[1] + "::merge", ".".join(pa),
                      "merged with" if kind == "merge" else "compared with", loc))
            covered[pa] = True
            covered[pb] = True
        # the global fields that define the transaction are compared, never filled in: every one of them is
        # always present in a well-formed PCZT and an omitted fallback_lock_time MEANS lock time 0, so "one side
        # lacks it" is a conflict, not missing knowledge
        if name == "pczt::common::Global::merge":
            for fld in sorted(EFFECTING["pczt::common::Global"]):
                kinds = sorted({kind for kind, pa, pb, _bb, _x, _fc in sites if pa and pa[-1] == fld})
                if kinds and all(k in ("cmp", "cmpbin") for k in kinds):
                    chk.ok("MERGE-pair", "Global::merge: `%s` is compared strictly (a difference, including present / absent, "
                           "fails the merge)" % fld)
                else:
                    chk.fail("MERGE-pair", "%s/%s/strict" % (name, fld), "the transaction-defining field `%s` is %s: two PCZTs "
                             "that disagree on it (one side omitting it counts) describe different transactions and must "
                             "not combine" % (fld, "merged with merge_optional" if "merge" in kinds else "not compared"),
                             f.span.loc())
        # coverage
        for adt, paths in contexts:
            for path, owner, kind in paths:
                label = "%s.%s" % (adt.split("::", 1)[1], ".".join(path))
                if (adt, path) in SPECIAL:
                    # the special rule must at least read both sides of the field
                    reads = 0
                    for blk in body.blocks:
                        for s in blk.stmts:
                            if s.kind == "=" and any(o.kind in ("copy", "move") and
                                                     o.place.proj and o.place.proj[-1] == "." + path[-1]
                                                     for o in s.rv.ops):
                                reads += 1
                    if reads >= 2:
                        chk.ok("MERGE-cover", "%s: special rule (%s), both sides read"
                               % (label, SPECIAL[(adt, path)]))
                        chk.exception("MERGE-cover", label, SPECIAL[(adt, path)])
                    else:
                        chk.fail("MERGE-cover", name + "/" + label, "special-rule field no longer read "
                                 "on both sides", f.span.loc())
                    continue
                if kind.startswith("items:"):
                    # zipped element-wise: a zip call over self.<f> and other.<f>
                    z = [t for _b, t in body.calls() if t.callee.indirect is None and
                         re.search(r"Iterator::zip$|::zip$", t.callee.target_p())]
                    okz = False
                    for t in z:
                        o = [defuse.show(du.origin(a)) for a in t.args]
                        if all(("." + path[-1]) in x for x in o) and len(o) == 2:
                            okz = True
                    if okz:
                        chk.ok("MERGE-cover", "%s: overlapping items are zipped and merged field by "
                               "field" % label)
                    else:
                        chk.fail("MERGE-cover", name + "/" + label, "item list is not zipped with its "
                                 "counterpart: overlapping items are never compared", f.span.loc())
                    continue
                if covered.get(path):
                    chk.ok("MERGE-cover", "%s takes part in the merge" % label)
                else:
                    chk.fail("MERGE-cover", name + "/" + label, "field `%s` of %s does not take part "
                             "in the merge: data carried by the other PCZT is dropped and conflicts "
                             "pass unnoticed" % (".".join(path), adt), f.span.loc())
    # control: a cross-wired pairing is detected by the path comparison
    pa, pb = ("spend", "value"), ("output", "value")
    short, long_ = pa, pb
    if long_[-len(short):] != short:
        chk.ok("control", "cross-wired spend.value / output.value is classified as a mismatch")
    else:
        chk.fail("control", "crosswire", "control not flagged")


# ---------------------------------------------------------------------- ROLES
def place_owner(w, body, place):
    """(owner adt, field) of the last named field of a place, walking types through the ADT table"""
    ty = body.local_ty(place.local)
    owner = fld = None

    def strip(t):
        t = t.strip()
        while True:
            m = re.match(r"^&('\w+ )?(mut )?", t)
            if m and m.group(0):
                t = t[m.end():]
                continue
            break
        return t
    cur = strip(ty)
    for p in place.proj:
        if p == "*":
            cur = strip(cur)
        elif p.startswith("."):
            n = p[1:]
            base = cur.split("<")[0]
            a = w.adts.get(base)
            nxt = None
            if a and a["kind"] == "Struct":
                for fdef in a["variants"][0]["fields"]:
                    if fdef["name"] == n:
                        nxt = fdef["ty"]
                owner, fld = base, n
            if nxt is None:
                # tuple struct wrappers like OrchardRedactor(&mut Bundle)
                if a and a["kind"] == "Struct" and n.isdigit():
                    fs = a["variants"][0]["fields"]
                    if int(n) < len(fs):
                        nxt = fs[int(n)]["ty"]
                if nxt is None:
                    return owner, fld
            cur = strip(nxt)
        elif p.startswith("as "):
            base = cur.split("<")[0]
            a = w.adts.get(base)
            if a and a["kind"] == "Enum":
                v = [x for x in a["variants"] if x["name"] == p[3:]]
                if v and len(v[0]["fields"]) == 1:
                    cur = strip(v[0]["fields"][0]["ty"])   # single payload variants
                    continue
            m = re.match(r"core::option::Option<(.*)>$", cur)
            if m and p[3:] == "Some":
                cur = m.group(1)
                continue
            return owner, fld
        elif p.startswith("["):
            m = re.match(r"(?:\[(.*)\]|core::vec::Vec<(.*)>)$", cur)
            if m:
                cur = strip(m.group(1) or m.group(2))
            else:
                return owner, fld
    return owner, fld


def role_rules(chk, w):
    pczt_fns = {f.id: f for f in w.fns.values()
                if (f.crate.name == "pczt" or "zcash_transparent::pczt" in f.p)
                and "::tests::" not in f.p and "::testing" not in f.p}
    role_of = {}
    TROLE = {"spend_finalizer": "spend_finalizer", "signer": "signer", "updater": "updater",
             "verify": "verifier", "tx_extractor": "tx_extractor"}
    for f in pczt_fns.values():
        m = re.search(r"pczt::roles::(\w+)", f.p)
        if m:
            role_of[f.id] = m.group(1)
            continue
        m = re.search(r"zcash_transparent::pczt::(\w+)", f.p)
        if m and m.group(1) in TROLE:
            role_of[f.id] = TROLE[m.group(1)]
    # reachability per role inside the pczt crate (closures included)
    reach = {}
    for fid, role in role_of.items():
        seen, _p = w.reach([fid], stop=lambda x: x not in pczt_fns)
        for x in seen:
            if x in pczt_fns:
                reach.setdefault(x, set()).add(role)
    # resolvable set: fields assigned in the closure of Bundle::resolve_fields
    resolvable = set()
    rf = [f for f in pczt_fns.values() if re.search(r"pczt::orchard::(Bundle|Action|Output)::resolve", f.p)]
    rseen, _ = w.reach([f.id for f in rf], stop=lambda x: x not in pczt_fns)
    for x in rseen:
        f = pczt_fns.get(x)
        if not f:
            continue
        for blk in f.body.blocks:
            for s in blk.stmts:
                if s.kind == "=" and s.place.proj:
                    o, fld = place_owner(w, f.body, s.place)
                    if o and fld:
                        resolvable.add((o, fld))
    chk.analysed["resolvable_fields_derived_from_resolve_fields"] = sorted("%s.%s" % x for x in resolvable)
    eff_resolvable = {x for x in resolvable if x[1] in EFFECTING.get(x[0], ())}
    extra = eff_resolvable - RESOLVABLE_SPEC
    if extra:
        chk.fail("ROLES", "resolve_fields/extra", "resolve_fields writes effecting field(s) %s that "
                 "are not recomputable from the remaining data" % sorted(extra))
    else:
        chk.ok("ROLES", "resolve_fields writes only the recomputable effecting fields %s"
               % sorted("%s.%s" % x for x in eff_resolvable))
    resolver_fns = set(rseen)
    chk.analysed["role_functions"] = len(role_of)
    nwrites = 0
    ordn = {}
    for fid in sorted(reach):
        f = pczt_fns[fid]
        roles = reach[fid] - EXEMPT_ROLES
        if not roles:
            continue
        if re.search(r"::merge$|::merge_optional$|::merge_map$", f.p):
            continue
        body = f.body
        du = None
        for bi, blk in enumerate(body.blocks):
            if blk.cleanup:
                continue      # unwinding paths re-assign while dropping; not the normal flow
            for s in blk.stmts:
                if s.kind != "=":
                    continue
                write_place = None
                how = None
                if s.place.proj and any(p.startswith(".") for p in s.place.proj):
                    write_place, how = s.place, "store"
                elif s.rv.kind == "ref" and s.rv.bk == "mut" and s.rv.place.proj and \
                        s.rv.place.proj[-1].startswith("."):
                    write_place, how = s.rv.place, "borrow"
                if write_place is None:
                    continue
                owner, fld = place_owner(w, body, write_place)
                if not owner or fld not in EFFECTING.get(owner, ()):
                    continue
                # a local clone used to test a hypothesis is not the PCZT
                du = du or defuse.DefUse(body)
                base = defuse.strip_refs(du.origin_local(write_place.local))
                if _is_clone(base) or _local_is_clone(du, write_place.local):
                    continue
                nwrites += 1
                label = "%s.%s" % (owner, fld)
                k0 = "%s/%s" % (f.p, label)
                ordn[k0] = ordn.get(k0, 0) + 1
                key = "%s#%d" % (k0, ordn[k0])
                loc = s.span.loc()
                rl = sorted(roles)
                if how == "store":
                    val = du.origin(s.rv.ops[0]) if s.rv.kind == "use" else \
                        (("agg", "%s::%s" % (s.rv.agg[1], s.rv.agg[2]), []) if s.rv.kind == "agg"
                         and s.rv.agg[0] == "adt" else ("unknown",))
                    vtxt = defuse.show(val)
                    is_none = val[0] == "agg" and val[1] == "core::option::Option::None"
                    is_memo = val[0] == "agg" and val[1].endswith("EncCiphertext::MemoPlaintext")
                    restores = val[0] in ("local", "call", "field", "variant") and \
                        re.search(r"original|clone", vtxt) is not None
                    if fid in resolver_fns and (owner, fld) in RESOLVABLE_SPEC:
                        # recomputation of a cleared field: must be unreachable when the field
                        # already holds a (non-compact) value
                        guarded = False
                        for b2, t2 in body.calls():
                            if t2.callee.indirect is None and t2.callee.target_p().endswith("::is_some") \
                                    and body.dominates(b2, bi):
                                pth, _b = named_path(du.origin(t2.args[0]))
                                if pth and pth[-1] == fld:
                                    res = S.after_call(body, b2, S.B(True))
                                    if res is not None and bi not in res.blocks:
                                        guarded = True
                        for b2, blk2 in enumerate(body.blocks):
                            if blk2.term.kind == "switch" and body.dominates(b2, bi) and b2 != bi:
                                for s2 in blk2.stmts:
                                    if s2.kind == "=" and s2.rv.kind == "disc":
                                        pth, _b = named_path(du.origin_place(s2.rv.place))
                                        if pth and pth[-1] == fld:
                                            guarded = True
                        if guarded:
                            chk.ok("ROLES", "%s recomputes %s only when it is absent/compact [%s]"
                                   % (f.p.rsplit("::", 1)[-1], label, loc), sample=True)
                            chk.exception("ROLES", key, "recomputation of a cleared resolvable field")
                            continue
                    if set(rl) <= {"redactor"} or (rl == ["redactor"]):
                        if (is_none or is_memo) and ((owner, fld) in resolvable or fld == "anchor"):
                            chk.ok("ROLES", "redactor clears %s (recomputable by resolve_fields%s) [%s]"
                                   % (label, "" if fld != "anchor" else "; anchor restored by the Updater",
                                      loc), sample=True)
                            chk.exception("ROLES", key, "Redactor clearing a resolvable field")
                            continue
                    if "redactor" in rl and f.p.endswith("compact_resolvable_fields"):
                        # restores the original value when re-resolution does not reproduce it
                        if is_none or is_memo or val[0] != "unknown":
                            if (owner, fld) in resolvable:
                                chk.ok("ROLES", "compact_resolvable_fields rewrites %s only with None/"
                                       "memo form or its own original value [%s]" % (label, loc))
                                continue
                    chk.fail("ROLES", key, "role(s) %s store %s into the effecting field %s: the "
                             "transaction's effects (and txid) can change" % (rl, vtxt, label), loc)
                else:
                    # &mut borrow of an effecting field: only set_anchor behind the version guard
                    uses = [(b2, t) for b2, t in body.calls()
                            if any(a.kind in ("copy", "move") and not a.place.proj and
                                   a.place.local == s.place.local for a in t.args)]
                    okb = False
                    if fld == "anchor" and "updater" in rl and uses and all(
                            t.callee.indirect is None and t.callee.target_p().endswith("::set_anchor")
                            for _b, t in uses):
                        g = S.find_calls(body, r"::ensure_anchor_update_supported$")
                        for gb, gt in g:
                            if body.dominates(gb, bi):
                                res = S.after_call(body, gb, S.E("Result", "Err"))
                                if res is not None and bi not in res.blocks:
                                    okb = True
                    if okb:
                        chk.ok("ROLES", "updater sets %s only through set_anchor after "
                               "ensure_anchor_update_supported succeeded [%s]" % (label, loc), sample=True)
                        chk.exception("ROLES", key, "Updater anchor update behind its version guard")
                    else:
                        # read-only uses of a &mut (e.g. as_mut for comparison) are not writes;
                        # only flag when the borrow is passed to a call or stored
                        if uses:
                            chk.fail("ROLES", key, "role(s) %s take a mutable borrow of the effecting "
                                     "field %s and pass it to %s" % (rl, label,
                                                                     [t.callee.target_p() for _b, t in uses][:2]),
                                     loc)
    chk.analysed["effecting_field_writes_classified"] = nwrites
    # set_anchor: conflicting value => Err
    sa = [f for f in pczt_fns.values() if f.p.endswith("roles::updater::set_anchor")]
    if sa:
        f = sa[0]
        okc = False
        for bb, t in f.body.calls():
            if t.callee.indirect is None and re.search(r"PartialEq.*::(ne|eq)$", t.callee.target_p()):
                res = S.after_call(f.body, bb, S.B(t.callee.target_p().endswith("::ne")))
                if res and {rv for _b, rv in res.returns} <= {"variant:Err"}:
                    okc = True
        for bi, blk in enumerate(f.body.blocks):
            for si, s in enumerate(blk.stmts):
                if s.kind == "=" and s.rv.kind == "bin" and s.rv.op in ("Ne", "Eq"):
                    res = S.explore(f.body, bi, {}, inject={(bi, si): S.B(s.rv.op == "Ne")})
                    if {rv for _b, rv in res.returns} <= {"variant:Err"}:
                        okc = True
        if okc:
            chk.ok("ROLES", "set_anchor: a conflicting existing anchor yields an error")
        else:
            chk.fail("ROLES", "set_anchor/conflict", "set_anchor overwrites a different existing anchor "
                     "without error", f.span.loc())
    else:
        chk.fail("ROLES", "set_anchor/missing", "updater::set_anchor not found")
    # control: the classifier knows nullifier is effecting and not resolvable
    if ("pczt::orchard::Spend", "nullifier") not in resolvable and \
            "nullifier" in EFFECTING["pczt::orchard::Spend"]:
        chk.ok("control", "clearing spend.nullifier would not be admitted (effecting, not resolvable)")
    else:
        chk.fail("control", "nullifier", "control not flagged")


def _is_clone(o):
    while o and o[0] in ("field", "variant", "proj", "ref", "deref"):
        o = o[1]
    return bool(o and o[0] == "call" and o[1].endswith("::clone"))


def _local_is_clone(du, local):
    """a local struct value whose only whole definition is a `.clone()` call (a scratch copy)"""
    whole = [d for d in du.defs.get(local, []) if d[0] in ("stmt", "call")]
    return len(whole) == 1 and whole[0][0] == "call" and whole[0][2].callee.indirect is None and \
        whole[0][2].callee.target_p().endswith("::clone")


# ---------------------------------------------------------------------- MERGE-carry
def merge_carry_rules(chk, w):
    for name in MERGE_FNS:
        try:
            f = w.fn(name)
        except KeyError:
            continue
        body = f.body
        du = defuse.DefUse(body)
        self_adt = f.self_ty
        merged = set()
        compared = set()
        for bb, t in body.calls():
            if t.callee.indirect is not None:
                continue
            n = t.callee.target_p()
            if re.search(r"::(merge_optional|merge_map)$", n) and len(t.args) >= 2:
                pa, _ = named_path(du.origin(t.args[0]))
                merged.add(pa)
            elif re.search(r"core::cmp::PartialEq::(eq|ne)$", t.callee.p or "") and len(t.args) == 2:
                oa, ob = du.origin(t.args[0]), du.origin(t.args[1])
                pa, _ = named_path(oa)
                pb, _ = named_path(ob)
                # only comparisons of the PAYLOADS (made when both copies carry the field) leave
                # the None/Some case open; `self.f != f` on the Options themselves is a conflict
                if pa == pb and pa and ("'variant'" in repr(oa) or "'variant'" in repr(ob)):
                    compared.add(pa)
        # stores into self.<field> whose value comes from the other copy's same field
        carried = set()
        for blk in body.blocks:
            for s in blk.stmts:
                if s.kind == "=" and s.place.proj and s.rv.kind == "use":
                    pd, _ = named_path(du.origin_place(s.place))
                    osrc = du.origin(s.rv.ops[0])
                    if osrc[0] == "agg" and osrc[1] == "core::option::Option::Some" and osrc[2]:
                        osrc = osrc[2][0]
                    ps, _ = named_path(osrc)
                    if pd and pd == ps:
                        carried.add(pd)
                elif s.kind == "=" and s.place.proj and s.rv.kind == "agg" and \
                        s.rv.agg[0] == "adt" and s.rv.agg[1] == "core::option::Option" and s.rv.ops:
                    pd, _ = named_path(du.origin_place(s.place))
                    ps, _ = named_path(du.origin(s.rv.ops[0]))
                    if pd and pd == ps:
                        carried.add(pd)
        for path, owner, kind in leaf_paths(w, self_adt):
            if kind != "leaf":
                continue
            ty = dict(struct_fields(w, owner)).get(path[-1], "")
            optional = ty.startswith("core::option::Option<")
            if not optional or path in merged:
                continue
            label = "%s.%s" % (self_adt.split("::", 1)[1], ".".join(path))
            if path in compared and path not in carried:
                chk.fail("MERGE-carry", name + "/" + label, "optional field `%s` is only compared when "
                         "both copies carry it and is never taken over from the other copy: combining "
                         "a copy that lacks it (left) with one that carries it (right) drops it, so the "
                         "result depends on the order of combination" % ".".join(path), f.span.loc())
            elif path in compared:
                chk.ok("MERGE-carry", "%s is compared and carried over from the other copy" % label,
                       sample=True)
        # value_sum follows adopted items: after extending spends/outputs/actions from the other
        # copy every successful return passes a store to value_sum
        has_vs = any(p == ("value_sum",) for p, _o, _k in leaf_paths(w, self_adt))
        if not has_vs:
            continue
        vs_blocks = set()
        for bi, blk in enumerate(body.blocks):
            for s in blk.stmts:
                if s.kind == "=" and s.place.proj and s.place.proj[-1] == ".value_sum":
                    src, _ = named_path(du.origin(s.rv.ops[0])) if s.rv.kind == "use" else ((), None)
                    if src == ("value_sum",):
                        vs_blocks.add(bi)
        ext = [(bb, t) for bb, t in body.calls() if t.callee.indirect is None and
               re.search(r"::extend$", t.callee.target_p())]
        n = 0
        for bb, t in ext:
            o = defuse.show(du.origin(t.args[0]))
            which = [x for x in ("spends", "outputs", "actions") if "." + x in o]
            if not which or t.target is None:
                continue
            n += 1
            res = S.explore(body, t.target, {}, avoid=tuple(vs_blocks), du=du,
                            facts=S.dominating_facts(body, du, bb))
            bad = [rv for _b, rv in res.returns if rv != "variant:None"]
            if bad or res.too_big:
                chk.fail("MERGE-carry", "%s/value_sum-after-%s#%d" % (name, which[0], n),
                         "after taking over the other copy's extra %s the merge can succeed without "
                         "taking over its value_sum: the combined bundle's value balance no longer "
                         "matches its contents" % which[0], t.span.loc())
            else:
                chk.ok("MERGE-carry", "%s: adopting extra %s is always followed by adopting value_sum"
                       % (name.split("::")[1], which[0]), sample=True)


# ---------------------------------------------------------------------- XWIRE
WRAPPERS = re.compile(r"::(clone|cloned|copied|as_ref|as_deref|as_mut|deref|to_vec|to_owned|into|"
                      r"borrow|map|as_slice|to_bytes|into_iter|iter|collect|unwrap_or_default|"
                      r"from|try_from|try_into|ok_or|ok_or_else|transpose|map_err|and_then|branch|"
                      r"to_string|as_bytes|into_inner|to_le_bytes|from_bits_truncate|bits)$")


def terminal_name(o, depth=0):
    """name of the field or getter an origin ends in (through value-preserving wrappers)"""
    while o and depth < 24:
        depth += 1
        k = o[0]
        if k == "field":
            n = o[2][1:]
            if n.isdigit():
                o = o[1]
                continue
            return n
        if k in ("ref", "deref", "variant", "proj"):
            o = o[1]
            continue
        if k == "cast":
            o = o[2]
            continue
        if k == "call":
            last = o[1].rsplit("::", 1)[-1]
            if WRAPPERS.search(o[1]) and o[2]:
                o = o[2][0]
                continue
            if len(o[2]) == 1:
                return last      # getter-like: one receiver argument
            return None
        return None
    return None


def xwire_rules(chk, w):
    n = 0
    for f in sorted(w.fns.values(), key=lambda f: f.p):
        if not (f.crate.name == "pczt" or "zcash_transparent::pczt" in f.p):
            continue
        if "::tests::" in f.p or "::testing" in f.p or f.derived:
            continue
        du = None
        ordn = {}
        for blk in f.body.blocks:
            if blk.cleanup:
                continue
            for s in blk.stmts:
                if s.kind != "=" or s.rv.kind != "agg" or s.rv.agg[0] != "adt":
                    continue
                adt, _variant, fnames = s.rv.agg[1], s.rv.agg[2], s.rv.agg[3]
                if len(fnames) < 2 or any(x.isdigit() for x in fnames):
                    continue
                if not (adt.startswith("pczt::") or adt.startswith("zcash_transparent::pczt")
                        or adt.startswith("orchard::pczt") or adt.startswith("sapling_crypto::pczt")):
                    continue
                du = du or defuse.DefUse(f.body)
                fset = set(fnames)
                for fname, op in zip(fnames, s.rv.ops):
                    g = terminal_name(du.origin(op))
                    if g is None:
                        continue
                    n += 1
                    if g != fname and g in fset:
                        k0 = "%s/%s.%s" % (f.p, adt.rsplit("::", 1)[-1], fname)
                        ordn[k0] = ordn.get(k0, 0) + 1
                        chk.fail("XWIRE", "%s#%d" % (k0, ordn[k0]),
                                 "field `%s` of %s is initialised from `%s`, which is the name of "
                                 "another field of the same struct (cross-wired; it type-checks because "
                                 "both have the same type)" % (fname, adt, g), s.span.loc())
                    else:
                        chk.ok("XWIRE", "%s: %s.%s <- %s" % (f.p.rsplit("::", 1)[-1],
                                                            adt.rsplit("::", 1)[-1], fname, g))
    chk.analysed["xwire_field_initialisers"] = n


# ---------------------------------------------------------------------- OMIT
def omit_rules(chk, w):
    """a predicate that decides whether a whole bundle may be left out of the v2 encoding must
    take every field of the bundle into account"""
    n = 0
    for f in sorted(w.fns.values(), key=lambda f: f.p):
        if f.crate.name != "pczt" or "::tests::" in f.p or f.is_closure():
            continue
        if f.output != "bool" or not re.search(r"::v2::", f.p):
            continue
        for i in range(f.body.argc):
            ty = re.sub(r"^&('\w+ )?(mut )?", "", f.body.local_ty(i + 1))
            fields = [x for x, _t in struct_fields(w, ty)]
            if not ty.startswith("pczt::") or len(fields) < 4:
                continue
            # whole-struct comparison?
            du = defuse.DefUse(f.body)
            whole = False
            for bb, t in f.body.calls():
                if t.callee.indirect is None and re.search(r"core::cmp::PartialEq::(eq|ne)$", t.callee.p or ""):
                    if (t.callee.self_ty or "").replace("&", "") == ty:
                        whole = True
            read = set()
            for blk in f.body.blocks:
                for s in blk.stmts:
                    if s.kind != "=":
                        continue
                    places = [o.place for o in s.rv.ops if o.kind in ("copy", "move")]
                    if s.rv.kind in ("ref", "disc"):
                        places.append(s.rv.place)
                    for pl in places:
                        pth, base = named_path(du.origin_place(pl))
                        if pth and pth[0] in fields:
                            read.add(pth[0])
            n += 1
            missing = [x for x in fields if x not in read]
            if whole or not missing:
                chk.ok("OMIT", "%s considers %s" % (f.p, "the whole struct (derived equality)" if whole
                                                     else "all %d fields" % len(fields)), sample=True)
            else:
                chk.fail("OMIT", f.p, "omission predicate ignores field(s) %s of %s: a bundle that "
                         "differs from the default only there is dropped by the v2 encoding and "
                         "parses back with default values" % (missing, ty), f.span.loc())
            break
    chk.analysed["omission_predicates"] = n
