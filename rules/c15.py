"""C15 — scan-queue priorities: the dominance rule and its plumbing (the clauses visible in the code).

Decided (structural, on MIR):
  DOM   the decision table of spanning_tree::dominance — every loop-free path with the tests it takes
        (ordering of the two priorities, the inserted / current variant, the force flag) and the
        outcome it reaches — equals the documented rule for all 7 x 7 x 2 inputs: equal priorities
        are Equal; an inserted Verify or Scanned wins; a current Scanned stays unless a rescan is
        forced; otherwise the higher priority wins. ScanPriority's ordering is the derived one over
        the documented variant order.
  INS   Dominance::from(Insert) maps Left->Left, Right->Right; !Insert flips the side and keeps the
        force flag; Insert::left / right carry the caller's flag
  CALL  every caller passes as `inserted` the priority of the range on the side its Insert names
        (join_overlapping per `insert.on` arm; insert() hands to_insert with Insert::left when it is
        the left range, Insert::right otherwise, and maps the Equal-range result consistently);
        the gap between disjoint ranges is filled with Historic
  PRIO  priority_code / parse_priority_code are inverse tables and the codes increase with the
        priority order (the queue is ORDERed BY the code)
  SCAN  scan_complete replaces the queue with (range, Scanned) for exactly the scanned range plus
        FoundNote extensions that end / start at the range's bounds, without forcing rescans
  SUGGEST the public suggest_scan_ranges asks for every priority from the least one above Scanned;
        the query keeps `priority >= :min_priority` with that priority's code, highest first
  FORCE rewind_to_chain_state and queue_rescans re-queue with force_rescans = true (Scanned is
        sticky otherwise, rule DOM)
Not decided: that the queue stays a sorted gap-free partition (SpanningTree::insert / into_vec over
all insertion sequences), pointwise correctness of insert over range relations, termination of
syncing, update_chain_tip / truncation arithmetic.
"""
import re

import defuse
import extract
import zf
from common import Check

ST = "zcash_client_backend::data_api::scanning::spanning_tree::"
SP = "zcash_client_backend::data_api::scanning::ScanPriority"
DOC_ORDER = ["Ignored", "Scanned", "Historic", "OpenAdjacent", "FoundNote", "ChainTip", "Verify"]
SQ = "zcash_client_sqlite::wallet::scanning::"


def _calls(body, rx):
    return [(bb, t) for bb, t in body.calls() if not body.blocks[bb].cleanup and
            t.callee.indirect is None and re.search(rx, t.callee.target_p())]


def _paths(b, limit=400):
    """loop-free paths entry -> return as [(switch block, value taken)], with the blocks visited"""
    out = []

    def go(bi, taken, seen):
        if len(out) > limit or bi in seen:
            raise ValueError("loop or too many paths")
        blk = b.blocks[bi]
        t = blk.term
        seen = seen | {bi}
        if t.kind == "return":
            out.append((taken, seen))
            return
        if t.kind == "switch":
            for v, tb in list(t.arms) + [("else", t.otherwise)]:
                if tb is None or b.blocks[tb].term.kind == "unreachable":
                    continue
                go(tb, taken + [(bi, v)], seen)
            return
        nxt = t.target if t.kind in ("goto", "call", "drop", "assert") else None
        if nxt is None:
            return
        go(nxt, taken, seen)
    go(0, [], frozenset())
    return out


def rule_dom(chk, w):
    fs = w.by_p.get(ST + "dominance", [])
    adt = w.adts.get(SP)
    if len(fs) != 1 or not adt:
        chk.fail("DOM", "missing", "spanning_tree::dominance / ScanPriority not found")
        return
    f = fs[0]
    b, du = f.body, defuse.DefUse(f.body)
    names = [v["name"] for v in adt["variants"]]
    if names == DOC_ORDER:
        chk.ok("DOM", "ScanPriority variants are declared in the documented order %s" % " < ".join(names))
    else:
        chk.fail("DOM", "order", "ScanPriority is declared as %s, documented %s" % (names, DOC_ORDER), adt["span"].loc())
    ordf = [g for g in w.fns.values() if g.p == "<%s as core::cmp::Ord>::cmp" % SP]
    pordf = [g for g in w.fns.values() if g.p == "<%s as core::cmp::PartialOrd>::partial_cmp" % SP]
    if len(ordf) == 1 and ordf[0].derived and len(pordf) == 1 and pordf[0].derived:
        chk.ok("DOM", "ScanPriority's Ord / PartialOrd are derived: the order of priorities is the declaration order")
    else:
        chk.fail("DOM", "ord-derived", "ScanPriority's ordering is not the derived one", adt["span"].loc())
    names_a = list(f.argnames or [])
    try:
        ic, ii, ix = names_a.index("current"), names_a.index("inserted"), names_a.index("insert")
    except ValueError:
        chk.fail("DOM", "params", "dominance(current, inserted, insert) expected, found %s" % names_a, f.span.loc())
        return

    def classify(sw):
        """what a switch tests: ORD | CUR | INS | FORCE"""
        o = du.origin(b.blocks[sw].term.discr)
        t = defuse.show(o) if o[0] != "disc" else "disc(%s)" % defuse.show(o[1])
        if re.match(r"^disc\(cmp\(&\*arg%d, &\*arg%d\)\)$" % (ic, ii), t):
            return "ORD"
        if t == "disc(*arg%d)" % ic:
            return "CUR"
        if t == "disc(*arg%d)" % ii:
            return "INS"
        if t == "arg%d.force_rescan" % ix:
            return "FORCE"
        return None

    def outcome(blocks):
        res = set()
        for bi in blocks:
            blk = b.blocks[bi]
            for s in blk.stmts:
                if s.kind == "=" and s.place.local == 0 and not s.place.proj and s.rv.kind == "agg":
                    res.add("equal" if s.rv.agg[2] == "Equal" else "const:" + s.rv.agg[2])
            t = blk.term
            if t.kind == "call" and t.dest is not None and t.dest.local == 0 and not t.dest.proj:
                o = defuse.show(du.origin(t.args[0])) if t.args else "?"
                if t.callee.target_p().endswith("Dominance as core::convert::From<%sInsert>>::from" % ST):
                    res.add("inserted" if o == "arg%d" % ix else ("current" if o == "not(arg%d)" % ix else "other:" + o))
                else:
                    res.add("other-call")
        return res
    try:
        paths = _paths(b)
    except ValueError as e:
        chk.fail("DOM", "paths", "dominance is not loop-free (%s)" % e, f.span.loc())
        return
    table = []
    for taken, blocks in paths:
        conds = []
        for sw, v in taken:
            k = classify(sw)
            if k is None:
                chk.fail("DOM", "test", "dominance branches on something else than the two priorities and the force "
                         "flag: %s" % defuse.show(du.origin(b.blocks[sw].term.discr))[:100], b.blocks[sw].term.span.loc())
                return
            conds.append((k, v, [a for a, _t in b.blocks[sw].term.arms]))
        oc = outcome(blocks)
        if len(oc) != 1:
            chk.fail("DOM", "outcome", "a path of dominance has the outcomes %s" % sorted(oc), f.span.loc())
            return
        table.append((conds, next(iter(oc))))
    chk.analysed["dominance_paths"] = len(table)

    def spec(c, i, force):
        if c == i:
            return "equal"
        if names[i] in ("Verify", "Scanned"):
            return "inserted"
        if names[c] == "Scanned" and not force:
            return "current"
        return "inserted" if i > c else "current"
    bad = []
    n = 0
    for c in range(len(names)):
        for i in range(len(names)):
            for force in (False, True):
                val = {"ORD": (c > i) - (c < i), "CUR": c, "INS": i, "FORCE": int(force)}
                hits = []
                for conds, oc in table:
                    ok = True
                    for k, v, arms in conds:
                        x = val[k]
                        if (v == "else" and x in arms) or (v != "else" and x != v):
                            ok = False
                            break
                    if ok:
                        hits.append(oc)
                n += 1
                if hits != [spec(c, i, force)]:
                    bad.append("(current %s, inserted %s, force %s): code %s, rule %s"
                               % (names[c], names[i], force, hits, spec(c, i, force)))
    if not bad:
        chk.ok("DOM", "dominance's decision table (%d paths) equals the documented rule on all %d inputs: equal -> Equal; "
               "inserted Verify/Scanned wins; current Scanned is sticky unless forced; otherwise the higher wins"
               % (len(table), n), sample=True)
    else:
        chk.fail("DOM", "table", "dominance departs from the documented rule for %d input(s), e.g. %s"
                 % (len(bad), "; ".join(bad[:3])), f.span.loc())


def rule_ins(chk, w):
    fr = [g for g in w.fns.values() if g.p.endswith("Dominance as core::convert::From<%sInsert>>::from" % ST)]
    nt = [g for g in w.fns.values() if g.p == "<%sInsert as core::ops::Not>::not" % ST]
    if len(fr) != 1 or len(nt) != 1:
        chk.fail("INS", "missing", "From<Insert> for Dominance / Not for Insert not found")
        return
    b, du = fr[0].body, defuse.DefUse(fr[0].body)
    m = {}
    for blk in b.blocks:
        t = blk.term
        if t.kind == "switch" and defuse.show(du.origin(t.discr) if du.origin(t.discr)[0] != "disc" else du.origin(t.discr)[1]) == "arg0.on":
            for v, tb in list(t.arms) + [("else", t.otherwise)]:
                if tb is None:
                    continue
                for s in b.blocks[tb].stmts:
                    if s.kind == "=" and s.place.local == 0 and s.rv.kind == "agg":
                        m[v] = s.rv.agg[2]
    on = [v["name"] for v in w.adts[ST + "InsertOn"]["variants"]]
    got = {}
    for v, r in m.items():
        idx = v if isinstance(v, int) else [i for i in range(len(on)) if i not in m][0] if len(m) == len(on) else None
        if idx is not None and idx < len(on):
            got[on[idx]] = r
    if got == {"Left": "Left", "Right": "Right"}:
        chk.ok("INS", "Dominance::from(Insert): on Left -> Left, on Right -> Right", sample=True)
    else:
        chk.fail("INS", "from", "Dominance::from(Insert) maps %s" % got, fr[0].span.loc())
    b, du = nt[0].body, defuse.DefUse(nt[0].body)
    agg = [s for blk in b.blocks if not blk.cleanup for s in blk.stmts if s.kind == "=" and s.rv.kind == "agg" and
           s.rv.agg[0] == "adt" and s.rv.agg[1] == ST + "Insert"]
    flip = {}
    for blk in b.blocks:
        t = blk.term
        if t.kind == "switch":
            for v, tb in list(t.arms) + [("else", t.otherwise)]:
                if tb is None:
                    continue
                for s in b.blocks[tb].stmts:
                    if s.kind == "=" and s.rv.kind == "agg" and s.rv.agg[1] == ST + "InsertOn":
                        flip[v] = s.rv.agg[2]
    fl = {}
    for v, r in flip.items():
        idx = v if isinstance(v, int) else ([i for i in range(len(on)) if i not in flip] or [None])[0]
        if idx is not None and idx < len(on):
            fl[on[idx]] = r
    d = dict(zip(agg[0].rv.agg[3], [defuse.show(du.origin(o)) for o in agg[0].rv.ops])) if len(agg) == 1 else {}
    if fl == {"Left": "Right", "Right": "Left"} and d.get("force_rescan") == "arg0.force_rescan":
        chk.ok("INS", "!Insert flips the side and keeps the force flag")
    else:
        chk.fail("INS", "not", "!Insert maps sides %s and sets force_rescan = %s" % (fl, d.get("force_rescan")), nt[0].span.loc())
    for side in ("left", "right"):
        g = w.by_p.get(ST + "Insert::" + side, [])
        ok = False
        if len(g) == 1:
            dg = defuse.DefUse(g[0].body)
            a = [s for blk in g[0].body.blocks for s in blk.stmts if s.kind == "=" and s.rv.kind == "agg" and
                 s.rv.agg[0] == "adt" and s.rv.agg[1] == ST + "Insert"]
            if len(a) == 1:
                dd = dict(zip(a[0].rv.agg[3], [defuse.show(dg.origin(o)) for o in a[0].rv.ops]))
                ok = dd.get("force_rescan") == "arg0" and dd.get("on", "").endswith("InsertOn::%s{}" % side.capitalize())
        if ok:
            chk.ok("INS", "Insert::%s(force) = Insert{on: %s, force_rescan: force}" % (side, side.capitalize()))
        else:
            chk.fail("INS", side, "Insert::%s is not the plain constructor" % side)


def rule_call(chk, w):
    # a nested fn of insert, or a module-level fn
    jo = [g for g in w.fns.values() if g.p in (ST + "insert::join_overlapping", ST + "join_overlapping")]
    ins = w.by_p.get(ST + "insert", [])
    jn = w.by_p.get(ST + "join_nonoverlapping", [])
    if len(jo) != 1 or len(ins) != 1 or len(jn) != 1:
        chk.fail("CALL", "missing", "insert / join_overlapping / join_nonoverlapping not found")
        return
    # join_overlapping(left, right, insert): per arm of insert.on
    f = jo[0]
    b, du = f.body, defuse.DefUse(f.body)
    on = [v["name"] for v in w.adts[ST + "InsertOn"]["variants"]]
    import guards as G
    n_ok = 0
    for bb, t in _calls(b, r"spanning_tree::dominance$"):
        cur, insd, ins_ = [defuse.show(du.origin(a)) for a in t.args]
        side = None
        for sw, v, _tb in G.edge_conditions(b, bb):
            o = du.origin(b.blocks[sw].term.discr)
            if o[0] == "disc" and defuse.show(o[1]) == "arg2.on":
                arms = [a for a, _x in b.blocks[sw].term.arms]
                idx = v if isinstance(v, int) else ([i for i in range(len(on)) if i not in arms] or [None])[0]
                side = on[idx] if idx is not None and idx < len(on) else None
        want = {"Left": ("&priority(&arg1)", "&priority(&arg0)"), "Right": ("&priority(&arg0)", "&priority(&arg1)")}.get(side)
        if want and (cur, insd) == want and ins_ == "arg2":
            n_ok += 1
            chk.ok("CALL", "join_overlapping, insert.on == %s: inserted = the %s range's priority, current = the other's"
                   % (side, side.lower()), sample=(n_ok == 1))
        else:
            chk.fail("CALL", "join_overlapping/%s" % side, "with insert.on == %s dominance is called with current %s, "
                     "inserted %s, insert %s" % (side, cur, insd, ins_), t.span.loc())
    if n_ok < 2:
        chk.fail("CALL", "join_overlapping/arms", "expected the two dominance calls of join_overlapping, %d matched" % n_ok,
                 f.span.loc())
    # the result of dominance decides which range is truncated: Left => left kept whole ... (value level, not decided)
    # insert(current, to_insert, force)
    f = ins[0]
    b, du = f.body, defuse.DefUse(f.body)
    nm = list(f.argnames or [])
    ci, ti, fi = nm.index("current"), nm.index("to_insert"), nm.index("force_rescans")
    seen = []
    for bb, t in _calls(b, r"::join_overlapping$"):
        l, r, i_ = [defuse.show(du.origin(a)) for a in t.args]
        seen.append((l, r, i_))
    want = sorted([("arg%d" % ti, "arg%d" % ci, "left(arg%d)" % fi), ("arg%d" % ci, "arg%d" % ti, "right(arg%d)" % fi)])
    if sorted(seen) == want:
        chk.ok("CALL", "insert: to_insert is handed to join_overlapping with Insert::left when it is the left range and "
               "Insert::right when it is the right one; the caller's force flag is passed on", sample=True)
    else:
        chk.fail("CALL", "insert/join_overlapping", "insert calls join_overlapping with %s" % seen, f.span.loc())
    dm = _calls(b, r"spanning_tree::dominance$")
    ok = False
    if len(dm) == 1:
        a = [defuse.show(du.origin(x)) for x in dm[0][1].args]
        if a == ["&priority(&arg%d)" % ci, "&priority(&arg%d)" % ti, "right(arg%d)" % fi]:
            # Left | Equal => current.priority(), Right => to_insert.priority()
            dest = dm[0][1].dest.local
            pr = {}
            for bb2, t2 in _calls(b, r"ScanRange::priority$"):
                for sw, v, _tb in G.edge_conditions(b, bb2):
                    o = du.origin(b.blocks[sw].term.discr)
                    if o[0] == "disc" and o[1] == ("call", dm[0][1].callee.target_p(), [du.origin(x) for x in dm[0][1].args]) or \
                            (o[0] == "disc" and defuse.show(o[1]).startswith("dominance(")):
                        pr.setdefault(defuse.show(du.origin(t2.args[0])), set()).add(v)
            dn = [v["name"] for v in w.adts[ST + "Dominance"]["variants"]]
            m = {}
            for who, vals in pr.items():
                for v in vals:
                    m.setdefault(who, set()).add(dn[v] if isinstance(v, int) and v < len(dn) else str(v))
            ins_set = m.get("&arg%d" % ti, set())
            # the current range's priority is what the other outcomes (Left, Equal) select
            sws = [sw for sw, blk in enumerate(b.blocks) if blk.term.kind == "switch" and
                   du.origin(blk.term.discr)[0] == "disc" and
                   defuse.show(du.origin(blk.term.discr)[1]).startswith("dominance(")]
            cur_ok = False
            if len(sws) == 1:
                t_sw = b.blocks[sws[0]].term
                right_idx = dn.index("Right")
                others = [tb for v, tb in list(t_sw.arms) + [("else", t_sw.otherwise)] if tb is not None and v != right_idx]
                right_tb = dict(t_sw.arms).get(right_idx)
                for bb2, t2 in _calls(b, r"ScanRange::priority$"):
                    if defuse.show(du.origin(t2.args[0])) == "&arg%d" % ci and b.dominates(sws[0], bb2) and \
                            any(bb2 == o_ or bb2 in b.reachable(o_) for o_ in others) and \
                            not (right_tb is not None and (bb2 == right_tb or b.dominates(right_tb, bb2))):
                        cur_ok = True
            ok = ins_set == {"Right"} and cur_ok
    if ok:
        chk.ok("CALL", "insert, equal ranges: dominance(current, to_insert, Insert::right); Right selects to_insert's "
               "priority, Left / Equal the current one")
    else:
        chk.fail("CALL", "insert/equal", "the equal-range case of insert calls dominance with %s (expected current, "
                 "to_insert, Insert::right(force_rescans)) or does not map the result onto the matching range's priority"
                 % ([defuse.show(du.origin(x)) for x in dm[0][1].args] if len(dm) == 1 else "no single call"), f.span.loc())
    # gaps become Historic
    f = jn[0]
    b, du = f.body, defuse.DefUse(f.body)
    fp = [[defuse.show(du.origin(a)) for a in t.args] for _bb, t in _calls(b, r"ScanRange::from_parts$")]
    gap = [x for x in fp if x[1].endswith("ScanPriority::Historic{}")]
    if len(gap) == 1 and re.match(r"core::ops::Range::Range\{\*?end\(block_range\(&arg0\)\), \*?start\(block_range\(&arg1\)\)\}$|"
                                  r"core::ops::Range::Range\{.*arg0.*end.*, .*arg1.*start.*\}$", gap[0][0]):
        chk.ok("CALL", "join_nonoverlapping fills the gap left.end..right.start with Historic", sample=True)
    else:
        chk.fail("CALL", "gap", "the gap between disjoint ranges is built as %s" % fp, f.span.loc())


def rule_prio(chk, w):
    pc = w.by_p.get(SQ + "priority_code", [])
    pp = w.by_p.get(SQ + "parse_priority_code", [])
    adt = w.adts.get(SP)
    if len(pc) != 1 or len(pp) != 1 or not adt:
        chk.fail("PRIO", "missing", "priority_code / parse_priority_code not found")
        return
    names = [v["name"] for v in adt["variants"]]
    b, du = pc[0].body, defuse.DefUse(pc[0].body)
    enc = {}
    for blk in b.blocks:
        t = blk.term
        if t.kind == "switch":
            arms = list(t.arms) + [("else", t.otherwise)]
            for v, tb in arms:
                if tb is None:
                    continue
                for s in b.blocks[tb].stmts:
                    if s.kind == "=" and s.place.local == 0 and s.rv.kind == "use" and s.rv.ops[0].kind == "const":
                        idx = v if isinstance(v, int) else ([i for i in range(len(names)) if i not in [a for a, _x in t.arms]] or [None])[0]
                        if idx is not None and idx < len(names):
                            enc[names[idx]] = s.rv.ops[0].info.get("v")
    b, du = pp[0].body, defuse.DefUse(pp[0].body)
    dec = {}
    for blk in b.blocks:
        t = blk.term
        if t.kind == "switch":
            for v, tb in t.arms:
                cur, hops = tb, 0
                while cur is not None and hops < 4:
                    hops += 1
                    for s in b.blocks[cur].stmts:
                        if s.kind == "=" and s.rv.kind == "agg" and s.rv.agg[1] == SP:
                            dec[v] = s.rv.agg[2]
                    tt = b.blocks[cur].term
                    cur = tt.target if tt.kind == "goto" else None
    inv = {v: k for k, v in enc.items()}
    if set(enc) == set(names) and None not in enc.values() and dec == inv:
        chk.ok("PRIO", "priority_code and parse_priority_code are inverse tables %s" % enc, sample=True)
    else:
        chk.fail("PRIO", "inverse", "priority_code %s, parse_priority_code %s" % (enc, dec), pc[0].span.loc())
    codes = [enc.get(n) for n in names]
    if None not in codes and all(a < b_ for a, b_ in zip(codes, codes[1:])):
        chk.ok("PRIO", "the codes increase with the priority order: ORDER BY priority in SQL is the priority order")
    else:
        chk.fail("PRIO", "monotone", "the priority codes %s do not increase with the priority order" % codes, pc[0].span.loc())


def rule_scan(chk, w):
    fs = w.by_p.get(SQ + "scan_complete", [])
    if len(fs) != 1:
        chk.fail("SCAN", "missing", "scan_complete not found")
        return
    f = fs[0]
    b, du = f.body, defuse.DefUse(f.body)
    nm = list(f.argnames or [])
    ri = nm.index("range") if "range" in nm else None
    fp = [(t, [defuse.show(du.origin(a)) for a in t.args]) for _bb, t in _calls(b, r"ScanRange::from_parts$")]
    sc = [a for _t, a in fp if a[1].endswith("ScanPriority::Scanned{}")]
    if ri is not None and len(sc) == 1 and sc[0][0] == "clone(&arg%d)" % ri:
        chk.ok("SCAN", "scan_complete marks exactly its `range` parameter as Scanned", sample=True)
    else:
        chk.fail("SCAN", "scanned", "scan_complete builds the Scanned entry from %s" % sc, f.span.loc())
    # the FoundNote extensions (closures) end / start at the range's bounds
    ext = []
    for g in w.fns.values():
        if g.is_closure() and g.root == f.id:
            dg = defuse.DefUse(g.body)
            caps = []
            for blk in b.blocks:
                for s_ in blk.stmts:
                    if s_.kind == "=" and s_.rv.kind == "agg" and s_.rv.agg[0] == "closure" and s_.rv.agg[1] == g.id:
                        caps = [defuse.show(du.origin(o)) for o in s_.rv.ops]
            for _bb, t in _calls(g.body, r"ScanRange::from_parts$"):
                a = [defuse.show(dg.origin(x)) for x in t.args]
                # a captured place `arg0.k` stands for the parent's operand
                a[0] = re.sub(r"arg0\.(\d+)", lambda m: caps[int(m.group(1))] if int(m.group(1)) < len(caps) else m.group(0), a[0])
                ext.append(a)
    fn_ = [a for a in ext if a[1].endswith("ScanPriority::FoundNote{}")]
    shapes = sorted(re.sub(r"[*&]+", "", a[0]) for a in fn_)
    ok = len(fn_) == 2 and any(re.search(r"Range\{arg1\.start, arg%d\.start\}" % ri, x) for x in shapes) and \
        any(re.search(r"Range\{arg%d\.end, arg1\.end\}" % ri, x) for x in shapes)
    if ok:
        chk.ok("SCAN", "the FoundNote extensions are extended.start..range.start and range.end..extended.end: they "
               "do not overlap the scanned range")
    else:
        chk.fail("SCAN", "extensions", "the FoundNote extensions are built as %s" % shapes, f.span.loc())
    rq = _calls(b, r"scanning::replace_queue_entries$")
    ok = False
    if len(rq) == 1:
        a = [defuse.show(du.origin(x)) for x in rq[0][1].args]
        ok = a[-1] == "False" or a[-1] == "0" or a[-1] == "false"
        rep = a[2]
        ok = ok and "from_parts(clone(&arg%d)" % ri in rep
    if ok:
        chk.ok("SCAN", "the replacement handed to replace_queue_entries starts with the Scanned entry and does not "
               "force rescans")
    else:
        chk.fail("SCAN", "replace", "replace_queue_entries is called with %s" % (
            [defuse.show(du.origin(x))[:80] for x in rq[0][1].args] if rq else None), f.span.loc())


def rule_suggest(chk, w):
    """Everything above Scanned must be suggested, or a client that scans what is suggested stops with
    unscanned blocks: the public suggest_scan_ranges asks for every priority from the least one above
    Scanned; the query keeps `priority >= :min_priority` with the code of that priority and orders by
    the code."""
    adt = w.adts.get(SP)
    names = [v["name"] for v in adt["variants"]] if adt else []
    if "Scanned" not in names or names.index("Scanned") + 1 >= len(names):
        chk.fail("SUGGEST", "order", "ScanPriority has no priority above Scanned")
        return
    least = names[names.index("Scanned") + 1]
    pub = [f for f in w.fns.values() if f.crate.name == "zcash_client_sqlite" and
           re.search(r"as zcash_client_backend::data_api::WalletRead>::suggest_scan_ranges$", f.p) and
           "/testing/" not in f.span.file and "::testing::" not in f.p]
    inner = w.by_p.get(SQ + "suggest_scan_ranges", [])
    if not pub or len(inner) != 1:
        chk.fail("SUGGEST", "missing", "suggest_scan_ranges (WalletRead impl / wallet::scanning) not found")
        return
    for f in pub:
        du = defuse.DefUse(f.body)
        cs = _calls(f.body, r"wallet::scanning::suggest_scan_ranges$")
        got = [defuse.show(du.origin(t.args[1])) for _bb, t in cs]
        if got == ["%s::%s{}" % (SP, least)]:
            chk.ok("SUGGEST", "WalletRead::suggest_scan_ranges asks for every priority from %s, the least one above "
                   "Scanned" % least, sample=True)
        else:
            chk.fail("SUGGEST", "threshold", "WalletRead::suggest_scan_ranges asks for priorities from %s; ranges of "
                     "priority %s are never suggested" % (got, least), f.span.loc())
    f = inner[0]
    src = " ".join(sqlfx_literals(f))
    du = defuse.DefUse(f.body)
    pc = [defuse.show(du.origin(t.args[0])) for _bb, t in _calls(f.body, r"scanning::priority_code$")]
    if re.search(r"WHERE\s+priority\s*>=\s*:min_priority", src) and re.search(r"ORDER BY\s+priority\s+DESC", src) and \
            pc == ["&arg1"]:
        chk.ok("SUGGEST", "the query keeps `priority >= :min_priority` (the code of the requested priority), highest "
               "priority first")
    else:
        chk.fail("SUGGEST", "query", "suggest_scan_ranges filters / orders differently (%s; code of %s)" % (src[:120], pc),
                 f.span.loc())


def sqlfx_literals(f):
    import sqlfx
    return [l for l in sqlfx.string_literals(zf.fn_source(extract.REPO, f)) if re.search(r"[A-Z]{4,}", l)]


def rule_force(chk, w):
    """Scanned is sticky unless a rescan is forced (rule DOM), so the operations that exist to have
    already-scanned heights scanned again must force: the rewind's Historic range above the target
    and queue_rescans."""
    n = 0
    for f in sorted(w.fns.values(), key=lambda f: f.p):
        root = w.fns.get(f.root) if f.is_closure() else f
        if root is None or root.crate.name != "zcash_client_sqlite" or "::tests::" in root.p:
            continue
        which = None
        if root.p.endswith("wallet::rewind_to_chain_state"):
            which = "rewind_to_chain_state"
        elif root.p.endswith("::queue_rescans"):
            which = "queue_rescans"
        if which is None:
            continue
        du = None
        for bb, t in _calls(f.body, r"scanning::replace_queue_entries$"):
            du = du or defuse.DefUse(f.body)
            n += 1
            force = defuse.show(du.origin(t.args[3])) if len(t.args) > 3 else "?"
            if force in ("1", "True", "true"):
                chk.ok("FORCE", "%s re-queues heights with force_rescans = true" % which, sample=(n == 1))
            else:
                chk.fail("FORCE", which, "%s re-queues heights with force_rescans = %s: ranges already Scanned stay "
                         "Scanned and are never scanned again" % (which, force), t.span.loc())
    if n < 2:
        chk.fail("FORCE", "sites", "expected the re-queuing calls of rewind_to_chain_state and queue_rescans, found %d" % n)


def rule_hull(chk, w):
    """replace_queue_entries loads, deletes and re-inserts the queue rows that touch its query range; rows it
    did not load stay as they are, so the query range must cover every entry handed in or the new rows are
    inserted beside overlapping old ones (the queue stops being a partition). Where a caller computes the
    query range by combining the bounds of several ranges, it must be their HULL: starts combined with `min`,
    ends with `max`."""
    callers = set()
    for f in w.fns.values():
        root = w.fns.get(f.root) if f.is_closure() else f
        if root is None or root.crate.name != "zcash_client_sqlite" or "::tests::" in root.p:
            continue
        if _calls(f.body, r"scanning::replace_queue_entries$"):
            callers.add(root.id)
    n = 0
    for f in sorted(w.fns.values(), key=lambda f: f.p):
        root = w.fns.get(f.root) if f.is_closure() else f
        if root is None or root.id not in callers:
            continue
        b = f.body
        du = defuse.DefUse(b)

        def bound_class(o, depth=0):
            """'start' / 'end' when the value is a range's start / end, or a running variable fed only by such values"""
            txt = defuse.show(o)
            for which in ("start", "end"):
                if re.search(r"\.%s\)?$" % which, txt):
                    return which
            if o[0] == "call" and re.search(r"(^core::cmp::|Ord>?::)(min|max)$", o[1]) and len(o[2]) == 2 and depth < 3:
                cs = {bound_class(x, depth + 1) for x in o[2]}
                return cs.pop() if len(cs) == 1 else None
            if o[0] == "local" and depth < 3:
                cs = set()
                for kind, _bi, x in du.defs.get(o[1], []):
                    if kind == "stmt" and x.rv.kind == "use":
                        cs.add(bound_class(du.origin(x.rv.ops[0]), depth + 1))
                    elif kind == "call" and x.callee.indirect is None and re.search(r"(^core::cmp::|Ord>?::)(min|max)$", x.callee.target_p()):
                        cs.add(bound_class(du.origin(x.args[1]), depth + 1))      # the non-accumulator operand decides
                    else:
                        cs.add(None)
                return cs.pop() if len(cs) == 1 else None
            return None
        for bb, t in b.calls():
            if b.blocks[bb].cleanup or t.callee.indirect is not None or len(t.args) != 2 or \
                    not re.search(r"(^core::cmp::|Ord>?::)(min|max)$", t.callee.target_p()):
                continue
            cs = {bound_class(du.origin(a)) for a in t.args}
            if len(cs) != 1 or None in cs:
                continue
            which = cs.pop()
            want = "min" if which == "start" else "max"
            got = t.callee.target_p().rsplit("::", 1)[-1]
            n += 1
            name = root.p.rsplit("::", 1)[-1]
            if got == want:
                chk.ok("HULL", "%s: range %ss are combined with %s" % (name, which, want), sample=(n == 1))
            else:
                chk.fail("HULL", "%s/%s" % (name, which), "the query range handed to replace_queue_entries combines "
                         "the entries' %ss with `%s`: that is their intersection, not their hull, so rows "
                         "overlapping an entry are neither loaded nor replaced" % (which, got), t.span.loc())
    if n < 4:
        chk.fail("HULL", "sites", "expected the hull computations of update_chain_tip and queue_rescans (2 bounds each), "
                 "found %d" % n)


def rule_wf(chk, w):
    """WF: every range update_chain_tip builds is ordered (see rules/c15_wf.py): ScanRange::from_parts panics on
    an inverted range, which would abort the tip update."""
    import c15_wf
    try:
        root = w.fn(SQ + "update_chain_tip")
    except KeyError:
        chk.fail("WF", "missing", "update_chain_tip not found")
        return
    res = c15_wf.check(w, root)
    for prio, t, ok, detail in res:
        m = re.findall(r"([a-z_]+)\(arg0\)", detail)
        what = m[0] if m else "bound"
        if ok:
            chk.ok("WF", "update_chain_tip: the %s range is ordered on every path (%s)" % (prio, detail), sample=(prio == "Verify"))
        else:
            chk.fail("WF", "update_chain_tip/%s/%s" % (prio, what), "the %s range built by update_chain_tip can be inverted "
                     "(ScanRange::from_parts would panic): %s" % (prio, detail), t.span.loc())
    if len(res) < 6:
        chk.fail("WF", "sites", "expected the six ranges update_chain_tip builds, found %d" % len(res))


def main(tier):
    chk = Check("C15", "other", tier)
    chk.explanation = (
        "Decides the dominance-rule clause of C15 and its plumbing: the decision table of "
        "spanning_tree::dominance (all loop-free paths with the tests they take and the outcome they "
        "reach) equals the documented rule for all 98 inputs; the Insert / Dominance helpers and every "
        "caller's operand roles are coherent; gaps become Historic; the SQL priority codes are an "
        "order-preserving bijection; scan_complete marks exactly the scanned range. Not decided: the "
        "partition invariant of the queue over insertion sequences, range-relation case analysis, "
        "termination of syncing.")
    chk.trusted = ["rustc MIR", "derive(PartialOrd, Ord) orders a fieldless enum by declaration order"]
    chk.rule("DOM", "dominance's decision table equals the documented rule", floor=3)
    chk.rule("INS", "Insert / Dominance helper shapes", floor=4)
    chk.rule("CALL", "callers pass the inserted range on the side their Insert names; gaps are Historic", floor=5)
    chk.rule("PRIO", "priority codes are an order-preserving bijection", floor=2)
    chk.rule("SCAN", "scan_complete marks exactly the scanned range", floor=3)
    chk.rule("SUGGEST", "everything above Scanned is suggested, highest priority first", floor=2)
    chk.rule("FORCE", "operations that exist to rescan force the replacement", floor=2)
    chk.rule("WF", "the ranges update_chain_tip builds are ordered on every path", floor=6)
    chk.rule("HULL", "the range replace_queue_entries is asked to replace covers the entries handed in", floor=4)
    w = zf.World(extract.facts_dir("all"), ["zcash_client_backend", "zcash_client_sqlite"])
    rule_dom(chk, w)
    rule_ins(chk, w)
    rule_call(chk, w)
    rule_prio(chk, w)
    rule_scan(chk, w)
    rule_suggest(chk, w)
    rule_force(chk, w)
    rule_hull(chk, w)
    rule_wf(chk, w)
    chk.finish()
