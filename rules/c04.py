"""C04 — transaction ids and signature hashes commit to exactly the data they must (structural).

For every digest function of zcash_primitives::transaction::{txid, sighash_v5, sighash_v6} the
commitment map is read off the MIR (lib/commit.py): per BLAKE2b state its personalisation and the
ordered values written into it, specialised to TxVersion V5 and V6 by pruning the branches that
contradict the version (conditional constant propagation; nothing is run).  The maps are compared
with a table transcribed from ZIP 244 (v5) and from the v6 rules this repository documents
(anchors move from the txid to the authorising digest; an Ironwood digest joins both roots):
  MAP     every hash state has the personalisation STRING, the values, their order, their
          per-element repetition and their presence conditions the table prescribes — for both
          versions; hence no authorising datum reaches a txid/sighash state, no effecting datum is
          missing from them, and the v6 differences are exactly the prescribed ones
  ROOT    to_txid / v5_signature_hash / v6_signature_hash / TransactionData::digest pass each part
          digest into the matching slot of the root hash; a v6 transaction is hashed by to_hash_v6
  SIGHASH the transparent signature digest commits to hash_type, the spent coin's value and
          script and the input's prevout and sequence, and replaces prevouts / amounts / scripts /
          sequences / outputs by the empty-set digests exactly under ANYONECANPAY / SINGLE / NONE
  SIGHASH4 the v3/v4 signature hash (ZIP 143 / 243): the ZcashSigHash state and the part hashes commit
          to the prescribed fields in order; hashPrevouts / hashSequence / hashOutputs / hashJoinSplits
          / hashShieldedSpends / hashShieldedOutputs are each exactly one of {digest, 32 zero bytes}
          under the prescribed hash-type tests; signature_hash dispatches every version to its function
Not decided: equality of digest VALUES with an independent implementation, the Orchard /
Ironwood bundle commitments (external crate).
"""
import re

import commit
import defuse
import extract
import zf
from common import Check

T = "zcash_primitives::transaction::"
V = T + "TxVersion"
BTC = "<" + T + "txid::BlockTxCommitmentDigester as " + T + "TransactionDigest<" + T + "Authorized>>::"
TID = "<" + T + "txid::TxIdDigester as " + T + "TransactionDigest<A>>::"

CANON = [
    (r"\(Bundle, TransparentDigests\)\?\.0\.0\.", "Bundle."),
    (r"\(Bundle, TransparentDigests\)\?\.0\.1\.", "TransparentDigests."),
    (r"variant\(\(Bundle, TransparentDigests\)\?\)", "variant(TxData)"),
    (r"TransparentDigests\?\.0\.", "TransparentDigests."),
    (r"Bundle\?\.0\.", "Bundle."),
    (r"\bbundle\.", "Bundle."),
    (r"variant\(SignableInput\)", "variant(Input)"),
    (r"SignableInput\.0\.", "Input."),
    (r"SignableInput\.", "Input."),
    (r"\bT\[\]", "TxOut[]"),
    (r"\bconst:", ""),
]


def canon(s, consts):
    for rx, rep in CANON:
        s = re.sub(rx, rep, s)
    for name, val in consts.items():
        s = re.sub(r"BitAnd %d\)" % val, "BitAnd %s)" % name, s) if name in ("ANYONECANPAY", "MASK") else s
    s = re.sub(r"BitAnd MASK\) Eq %d\)" % consts.get("SINGLE", -1), "BitAnd MASK) Eq SINGLE)", s)
    s = re.sub(r"BitAnd MASK\) Eq %d\)" % consts.get("NONE", -1), "BitAnd MASK) Eq NONE)", s)
    s = re.sub(r"BitAnd MASK\) Ne %d\)" % consts.get("SINGLE", -1), "BitAnd MASK) Ne SINGLE)", s)
    s = re.sub(r"BitAnd MASK\) Ne %d\)" % consts.get("NONE", -1), "BitAnd MASK) Ne NONE)", s)
    return s


CONSTS = {}
_TOK = re.compile(r"\s*(Input\.hash_type\(\)|Not\(|[A-Za-z_]+|\d+|[()!])")


def _ht_eval(txt, ht):
    """value of a test that mentions nothing but the hash type, for one hash type; None if the text is
    not of that kind. Grammar: !E | Not(E) | (E op E) | hash_type() | constant."""
    toks = _TOK.findall(txt)
    if "".join(toks).replace(" ", "") != txt.replace(" ", ""):
        return None
    pos = [0]

    def expr():
        if pos[0] >= len(toks):
            raise ValueError
        t = toks[pos[0]]
        pos[0] += 1
        if t == "!":
            v = expr()
            return int(not v)
        if t == "Not(":
            v = expr()
            if toks[pos[0]] != ")":
                raise ValueError
            pos[0] += 1
            return int(not v)
        if t == "(":
            a = expr()
            if toks[pos[0]] == ")":
                pos[0] += 1
                return a
            op = toks[pos[0]]
            pos[0] += 1
            b_ = expr()
            if toks[pos[0]] != ")":
                raise ValueError
            pos[0] += 1
            f = {"BitAnd": lambda x, y: x & y, "BitOr": lambda x, y: x | y, "BitXor": lambda x, y: x ^ y,
                 "Eq": lambda x, y: int(x == y), "Ne": lambda x, y: int(x != y), "Lt": lambda x, y: int(x < y),
                 "Le": lambda x, y: int(x <= y), "Gt": lambda x, y: int(x > y), "Ge": lambda x, y: int(x >= y)}.get(op)
            if f is None:
                raise ValueError
            return f(a, b_)
        if t == "Input.hash_type()":
            return ht
        if t.isdigit():
            return int(t)
        if t in CONSTS:
            return CONSTS[t]
        raise ValueError
    try:
        v = expr()
        return v if pos[0] == len(toks) else None
    except (ValueError, IndexError):
        return None


def ht_canon(guards):
    """replace the tests on the hash type alone by the SET of hash types they admit (so `x & 0x80 == 0`
    and `!(x & 0x80 != 0)` are the same guard); other tests stay as text"""
    rest, sets = [], None
    for g in guards:
        if "Input.hash_type()" in g and _ht_eval(g, 0) is not None:
            sset = frozenset(h for h in range(256) if _ht_eval(g, h))
            sets = sset if sets is None else (sets & sset)
        else:
            rest.append(g)
    if sets is None:
        return tuple(rest)
    acp, mask = CONSTS.get("ANYONECANPAY", 0x80), CONSTS.get("MASK", 0x1f)
    cls = {}
    for h in range(256):
        m = h & mask
        k = ("ACP" if h & acp else "acp") + "+" + {CONSTS.get("SINGLE", 3): "SINGLE", CONSTS.get("NONE", 2): "NONE"}.get(m, "ALL")
        cls.setdefault(k, set()).add(h)
    names = sorted(k for k, v in cls.items() if v <= sets)
    if set().union(*[cls[k] for k in names]) == set(sets) if names else not sets:
        txt = "hash_type in {%s}" % ", ".join(names)
    else:
        txt = "hash_type in %s" % sorted(sets)
    return (txt,) + tuple(rest)


DROP_GUARD = re.compile(r"Bundle\.vin\.is_empty\(\)|is_coinbase|variant\(TxData\)|variant\(Bundle\?\)")
KEEP_GUARD = re.compile(r"is_empty\(\)|ANYONECANPAY|SINGLE|NONE|variant\(Input\)|has_ironwood|index\(\) Lt|"
                        r"variant\(TransparentDigests\?\)")


def pers_value(w, name, fn):
    """the byte string behind a personalisation constant name (searched in fn's module first)"""
    mods = [fn.p.rsplit("::", 1)[0], T + "txid", T + "sighash_v5"]
    for mod in mods:
        for cand in (mod + "::" + name, re.sub(r"<.*", "", mod) + "::" + name):
            f = w.by_p.get(cand, [])
            for g in f:
                for blk in g.body.blocks:
                    for s in blk.stmts:
                        if s.kind == "=" and s.rv.ops:
                            for o in s.rv.ops:
                                if o.kind == "const" and "txt" in o.info:
                                    m = re.match(r'b"(.*)"$', o.info["txt"])
                                    if m:
                                        return m.group(1)
    return None


def the_map(w, fname, ver, consts, keep_all=False):
    fs = w.by_p.get(fname, [])
    if len(fs) != 1:
        return None, None
    f = fs[0]
    m = commit.Maps(w, f, ver, V)
    out = []
    for h in m.hashers():
        pers = h["pers"]
        if "||" in str(pers):
            pre, tail = pers.split("||", 1)
            pv = "%s||%s" % (pers_value(w, pre, f), re.sub(r"\(TxVersion, BranchId\)\.1", "BranchId", tail))
        elif str(pers).startswith("#") or pers is None:
            pv = pers
        else:
            pv = pers_value(w, pers, f) or pers
        ws = []
        for v, g in h["writes"]:
            v = canon(v, consts)
            g = [canon(x, consts) for x in g]
            if not keep_all:
                g = [x for x in g if KEEP_GUARD.search(x) and not DROP_GUARD.search(x)]
            ws.append((v, ht_canon(tuple(g))))
        out.append((pv, ws))
    # nested references: personalisation names -> values
    names = {}
    for h, (pv, _ws) in zip(m.hashers(), out):
        names["#" + str(h["pers"])] = "#" + str(pv)
    out = [(pv, [(re.sub(r"#[A-Z_0-9a-z]+", lambda mm: names.get(mm.group(0), mm.group(0)), v), g) for v, g in ws])
           for pv, ws in out]
    return out, m


SP = "SpendDescription[]"
OD = "OutputDescription[]"
NE_S = "!SpendDescription[].is_empty()"
NE_O = "!OutputDescription[].is_empty()"
TD = "variant(TransparentDigests?)==1"

# ---- the table (ZIP 244; v6 per this repository's ZIP 229 notes) --------------------------------
SPEC = {
    ("txid::hash_header_txid_data", "V5"): [("ZTxIdHeadersHash", [
        ("TxVersion.header()", ()), ("TxVersion.version_group_id()", ()), ("BranchId", ()),
        ("lock_time", ()), ("BlockHeight", ())])],
    ("txid::transparent_prevout_hash", None): [("ZTxIdPrevoutHash", [("*TxIn[][*].prevout().write()", ())])],
    ("txid::transparent_sequence_hash", None): [("ZTxIdSequencHash", [("*TxIn[][*].sequence()", ())])],
    ("txid::transparent_outputs_hash", None): [("ZTxIdOutputsHash", [("*TxOut[][*].write()", ())])],
    ("txid::hash_transparent_txid_data", None): [("ZTxIdTranspaHash", [
        ("TransparentDigests.prevouts_digest", (TD,)), ("TransparentDigests.sequence_digest", (TD,)),
        ("TransparentDigests.outputs_digest", (TD,))])],
    ("txid::hash_sapling_spends", "V5"): [
        ("ZTxIdSSpendsHash", [("#ZTxIdSSpendCHash", (NE_S,)), ("#ZTxIdSSpendNHash", (NE_S,))]),
        ("ZTxIdSSpendCHash", [("*%s[*].nullifier()" % SP, (NE_S,))]),
        ("ZTxIdSSpendNHash", [("*%s[*].cv()" % SP, (NE_S,)), ("*%s[*].anchor()" % SP, (NE_S,)),
                              ("*%s[*].rk()" % SP, (NE_S,))])],
    ("txid::hash_sapling_spends", "V6"): [
        ("ZTxIdSSpendsHash", [("#ZTxIdSSpendCHash", (NE_S,)), ("#ZTxIdSSpendNH_v6", (NE_S,))]),
        ("ZTxIdSSpendCHash", [("*%s[*].nullifier()" % SP, (NE_S,))]),
        ("ZTxIdSSpendNH_v6", [("*%s[*].cv()" % SP, (NE_S,)), ("*%s[*].rk()" % SP, (NE_S,))])],
    ("txid::hash_sapling_outputs", None): [
        ("ZTxIdSOutputHash", [("#ZTxIdSOutC__Hash", (NE_O,)), ("#ZTxIdSOutM__Hash", (NE_O,)),
                              ("#ZTxIdSOutN__Hash", (NE_O,))]),
        ("ZTxIdSOutC__Hash", [("*%s[*].cmu()" % OD, (NE_O,)), ("*%s[*].ephemeral_key()" % OD, (NE_O,)),
                              ("*%s[*].enc_ciphertext()[..52]" % OD, (NE_O,))]),
        ("ZTxIdSOutM__Hash", [("*%s[*].enc_ciphertext()[52..564]" % OD, (NE_O,))]),
        ("ZTxIdSOutN__Hash", [("*%s[*].cv()" % OD, (NE_O,)), ("*%s[*].enc_ciphertext()[564..]" % OD, (NE_O,)),
                              ("*%s[*].out_ciphertext()[..]" % OD, (NE_O,))])],
    ("txid::hash_sapling_txid_data", "V5"): [("ZTxIdSaplingHash", [
        ("fn:hash_sapling_spends(TxVersion, Bundle.shielded_spends())", ("!ANY",)),
        ("Bundle.shielded_outputs().hash_sapling_outputs()", ("!ANY",)),
        ("Bundle.value_balance()", ("!ANY",))])],
    ("txid::hash_sapling_txid_empty", None): [("ZTxIdSaplingHash", [])],
    ("txid::to_hash", "V5"): [("ZcashTxHash_||BranchId", [
        ("Hash#2", ()), ("Hash#3", ()), ("Hash?#4|empty", ()), ("Hash?#5|empty", ())])],
    ("txid::to_hash_v6", None): [("ZcashTxHash_||BranchId", [
        ("Hash#1", ()), ("Hash#2", ()), ("Hash?#3|empty", ()), ("Hash?#4|empty", ()), ("Hash?#5|empty", ())])],
    ("BTC:digest_transparent", None): [("ZTxAuthTransHash", [("*Bundle.vin[*].script_sig().write()", ())])],
    ("BTC:digest_sapling", "V5"): [("ZTxAuthSapliHash", [
        ("*Bundle.shielded_spends()[*].zkproof()", ()), ("*Bundle.shielded_spends()[*].spend_auth_sig()", ()),
        ("*Bundle.shielded_outputs()[*].zkproof()", ()), ("Bundle.authorization().binding_sig", ())])],
    ("BTC:digest_sapling", "V6"): [("ZTxAuthSapliH_v6", [
        ("*Bundle.shielded_spends()[*].zkproof()", ()), ("*Bundle.shielded_spends()[*].spend_auth_sig()", ()),
        ("*Bundle.shielded_outputs()[*].zkproof()", ()), ("Bundle.authorization().binding_sig", ()),
        ("Bundle.shielded_spends()[0].anchor()", ("!Bundle.shielded_spends().is_empty()",))])],
    ("BTC:combine", None): [("ZTxAuthHash_||BranchId", [
        ("Hash#2", ()), ("Hash#3", ()), ("Hash#4", ()), ("Hash#5", ("(TxVersion, BranchId).0.has_ironwood()",))])],
}
SPEC[("txid::hash_header_txid_data", "V6")] = SPEC[("txid::hash_header_txid_data", "V5")]
SPEC[("txid::hash_sapling_txid_data", "V6")] = SPEC[("txid::hash_sapling_txid_data", "V5")]
SPEC[("txid::to_hash", "V6")] = SPEC[("txid::to_hash", "V5")]

A = "!((Input.hash_type() BitAnd ANYONECANPAY) Ne 0)"
AY = "((Input.hash_type() BitAnd ANYONECANPAY) Ne 0)"
SG = "((Input.hash_type() BitAnd MASK) Eq SINGLE)"
NO = "((Input.hash_type() BitAnd MASK) Eq NONE)"
TI = "variant(Input)==1"
LT = "(Input.index() Lt Bundle.vout.len())"
SIG_SPEC = [
    ("ZTxTrAmountsHash", [("each(Bundle.authorization.input_amounts(): Zatoshis)", (A,))]),
    ("ZTxTrScriptsHash", [("each(Bundle.authorization.input_scriptpubkeys(): Script.write())", (A,))]),
    ("Zcash___TxInHash", [("Bundle.vin[Input.index()].prevout().write()", (TI,)), ("Input.value()", (TI,)),
                          ("Input.script_pubkey().write()", (TI,)), ("Bundle.vin[Input.index()].sequence()", (TI,))]),
    ("ZTxIdTranspaHash", [
        ("[Input.hash_type()]", ()),
        ({(A,): "TransparentDigests.prevouts_digest", (AY,): "[].transparent_prevout_hash()"}, ()),
        ("#ZTxTrAmountsHash", ()),
        ("#ZTxTrScriptsHash", ()),
        ({(A,): "TransparentDigests.sequence_digest", (AY,): "[].transparent_sequence_hash()"}, ()),
        ({(TI, "!" + SG, "!" + NO): "TransparentDigests.outputs_digest",
          (TI, "!" + SG, NO): "[].transparent_outputs_hash()",
          (TI, SG, "!" + LT): "[].transparent_outputs_hash()",
          (TI, SG, LT): "[Bundle.vout[Input.index()]].transparent_outputs_hash()",
          ("variant(Input)==else",): "TransparentDigests.outputs_digest"}, ()),
        ("#Zcash___TxInHash", ())]),
]


# ---- ZIP 143 (v3) / ZIP 243 (v4) signature hash --------------------------------------------------
HT = "Input.hash_type()"
NOT_ACP = "((%s BitAnd ANYONECANPAY) Eq 0)" % HT
NOT_SG = "((%s BitAnd MASK) Ne SINGLE)" % HT
NOT_NO = "((%s BitAnd MASK) Ne NONE)" % HT
IS_SG = "((%s BitAnd MASK) Eq SINGLE)" % HT
TB = "TransactionData.transparent_bundle"
NO_JS = "TransactionData.sprout_bundle.is_none_or(|x| x.joinsplits.is_empty())"
NO_SS = "TransactionData.sapling_bundle.is_none_or(|x| x.shielded_spends().is_empty())"
NO_SO = "TransactionData.sapling_bundle.is_none_or(|x| x.shielded_outputs().is_empty())"
ZERO = "repeat{0}"
# (value, dominating tests, group): the members of one group are alternatives — exactly one of them
# is written on every path (checked on the CFG), so the tests of the others fix the remaining one
V4_HEAD = [
    ("TransactionData.version.header()", (), None),
    ("TransactionData.version.version_group_id()", (), None),
    (TB + ".map_or(None, |x| x.vin).prevout_hash()", (NOT_ACP,), "hashPrevouts"),
    (ZERO, ("!" + NOT_ACP,), "hashPrevouts"),
    (TB + ".map_or(None, |x| x.vin).sequence_hash()", (NOT_ACP, NOT_SG, NOT_NO), "hashSequence"),
    (ZERO, (), "hashSequence"),
    (TB + ".map_or(None, |x| x.vout).outputs_hash()", (NOT_SG, NOT_NO), "hashOutputs"),
    (TB + ".0.vout[Input.index()].single_output_hash()",
     (IS_SG, "variant(%s)==1" % TB, "variant(Input)==1", "Input.index().lt(%s.0.vout.len())" % TB), "hashOutputs"),
    (ZERO, (IS_SG,), "hashOutputs"),
    (ZERO, ("!" + IS_SG,), "hashOutputs"),
    (ZERO, (NO_JS,), "hashJoinSplits"),
    ("fn:joinsplits_hash(TransactionData.consensus_branch_id, TransactionData.sprout_bundle.joinsplits, "
     "TransactionData.sprout_bundle.joinsplit_pubkey)", ("!" + NO_JS,), "hashJoinSplits"),
]
V4_SAPLING = [
    (ZERO, (NO_SS,), "hashShieldedSpends"),
    ("TransactionData.sapling_bundle.shielded_spends().sapling_spends_hash()", ("!" + NO_SS,), "hashShieldedSpends"),
    (ZERO, (NO_SO,), "hashShieldedOutputs"),
    ("TransactionData.sapling_bundle.shielded_outputs().sapling_outputs_hash()", ("!" + NO_SO,), "hashShieldedOutputs"),
]
V4_TAIL1 = [("TransactionData.lock_time", (), None), ("TransactionData.expiry_height", (), None)]
V4_TAIL2 = [(HT, (), None), ("#buf0", ("variant(Input)==1",), None)]
V4_INPUT = [(TB + ".0.vin[Input.index()].prevout().write()", ("variant(Input)==1",)),
            ("Input.script_code().write()", ("variant(Input)==1",)),
            ("Input.value()", ("variant(Input)==1",)),
            (TB + ".0.vin[Input.index()].sequence()", ("variant(Input)==1",))]
V4_SPEC = {
    "V3": V4_HEAD + V4_TAIL1 + V4_TAIL2,
    "V4": V4_HEAD + V4_SAPLING + V4_TAIL1 + [("TransactionData.sapling_value_balance()", (), None)] + V4_TAIL2,
}
V4_PARTS = {
    "prevout_hash": ("ZcashPrevoutHash", ["*TxIn[][*].prevout().write()"]),
    "sequence_hash": ("ZcashSequencHash", ["*TxIn[][*].sequence()"]),
    "outputs_hash": ("ZcashOutputsHash", ["*TxOut[][*].write()"]),
    "single_output_hash": ("ZcashOutputsHash", ["TxOut.write()"]),
    "joinsplits_hash": ("ZcashJSplitsHash", ["*JsDescription[][*].write()", "u8; 32[]"]),
    "sapling_spends_hash": ("ZcashSSpendsHash", ["*SpendDescription[][*].cv()", "*SpendDescription[][*].anchor()",
                                                 "*SpendDescription[][*].nullifier()", "*SpendDescription[][*].rk()",
                                                 "*SpendDescription[][*].zkproof()"]),
    "sapling_outputs_hash": ("ZcashSOutputHash", ["*fn:write_output_v4(OutputDescription[][*])"]),
}


def rule_v4(chk, w, consts):
    fname = T + "sighash_v4::v4_signature_hash"
    for ver, spec in sorted(V4_SPEC.items()):
        got, m = the_map(w, fname, ver, consts, keep_all=True)
        want = [("ZcashSigHash||TransactionData.consensus_branch_id", [(v, g) for v, g, _grp in spec]),
                ("buf0", V4_INPUT)]
        compare(chk, "SIGHASH4", "v4_signature_hash@" + ver, got, want)
        if got is None or m is None:
            continue
        hs = m.hashers()
        bbs = hs[0]["bbs"] if hs else []
        groups = {}
        for (v, g, grp), bb in zip(spec, bbs):
            if grp:
                groups.setdefault(grp, []).append(bb)
        for grp, bl in sorted(groups.items()):
            if len(bbs) == len(spec) and m.exclusive_exhaustive(bl):
                chk.ok("SIGHASH4", "v4_signature_hash@%s: exactly one of the %d %s alternatives is written on "
                       "every path" % (ver, len(bl), grp), sample=(grp == "hashOutputs" and ver == "V4"))
            else:
                chk.fail("SIGHASH4", "v4_signature_hash@%s/%s/alternatives" % (ver, grp), "the writes of %s are "
                         "not mutually exclusive and exhaustive alternatives" % grp, m.f.span.loc())
        if m.result().startswith("#h") and hs and m.result() == "#h%d" % hs[0]["local"]:
            chk.ok("SIGHASH4", "v4_signature_hash@%s returns the finalised ZcashSigHash state" % ver)
        else:
            chk.fail("SIGHASH4", "v4_signature_hash@%s/result" % ver, "returns %s" % m.result(), m.f.span.loc())
    for name, (pers, vals) in sorted(V4_PARTS.items()):
        got, m = the_map(w, T + "sighash_v4::" + name, None, consts, keep_all=True)
        compare(chk, "SIGHASH4", name, got, [(pers, [(v, ()) for v in vals])])
        if got and m is not None and not (m.result().startswith("#h") and len(got) == 1):
            chk.fail("SIGHASH4", name + "/result", "%s returns %s, not the hash of its buffer" % (name, m.result()),
                     m.f.span.loc())
    # dispatch by version
    sh = w.by_p.get(T + "sighash::signature_hash", [])
    if len(sh) != 1:
        chk.fail("SIGHASH4", "dispatch/missing", "sighash::signature_hash not found")
        return
    want = {"V3": "v4_signature_hash", "V4": "v4_signature_hash", "V5": "v5_signature_hash", "V6": "v6_signature_hash"}
    for ver, fn_ in sorted(want.items()):
        m = commit.Maps(w, sh[0], ver, V)
        called = sorted({t.callee.target_p().rsplit("::", 1)[-1] for bb, t in sh[0].body.calls()
                         if bb in m.feasible and t.callee.indirect is None and
                         re.search(r"::v\d_signature_hash$", t.callee.target_p())})
        if called == [fn_]:
            chk.ok("SIGHASH4", "signature_hash: a %s transaction is hashed by %s" % (ver, fn_))
        else:
            chk.fail("SIGHASH4", "dispatch/" + ver, "a %s transaction is hashed by %s" % (ver, called), sh[0].span.loc())


def rule_sig_result(chk, w, consts):
    """Which digest the transparent part of a v5 / v6 signature hash IS (ZIP 244 S.2): with no
    transparent bundle the empty-bundle digest; for a coinbase or a bundle without inputs the TXID
    digest of the bundle (so a shielded signature still commits to the transparent outputs); otherwise
    the per-input signature digest state. The function's result alternatives and the tests that select
    them are evaluated over (bundle present, coinbase, no inputs)."""
    import itertools
    fs = w.by_p.get(T + "sighash_v5::transparent_sig_digest", [])
    if len(fs) != 1:
        chk.fail("SIGHASH", "result/missing", "transparent_sig_digest not found")
        return
    m = commit.Maps(w, fs[0], None, V)
    res = m.result()
    mm = re.match(r"select\{(.*)\}$", res)
    if not mm:
        chk.fail("SIGHASH", "result/shape", "transparent_sig_digest returns %s" % res[:200], fs[0].span.loc())
        return
    alts = []
    for part in mm.group(1).split("; "):
        g, _, val = part.rpartition(" => ")
        alts.append(([x for x in g.split(" & ") if x and x != "otherwise"], val))

    def ev(atom, st):
        if atom.startswith("(") and atom.endswith(")") and " | " in atom:
            parts = [ev(x, st) for x in atom[1:-1].split(" | ")]
            return None if None in parts else any(parts)
        neg = atom.startswith("!")
        a = atom[1:] if neg else atom
        if re.match(r"^variant\(\(Bundle, TransparentDigests\)\?\)(==1)?$", a):
            v = st["present"]
        elif a.endswith(".is_coinbase()"):
            v = st["coinbase"]
        elif a.endswith(".vin.is_empty()"):
            v = st["empty"]
        else:
            return None
        return (not v) if neg else v

    def kind(val):
        if re.match(r"^None\{\}\.hash_transparent_txid_data\(\)$", val):
            return "empty-bundle digest"
        if re.match(r"^Some\{\(Bundle, TransparentDigests\)\?\.0\.1\}\.hash_transparent_txid_data\(\)$", val):
            return "txid digest of the bundle"
        if re.match(r"^#h\d+$", val) or val.startswith("#"):
            return "signature digest state"
        return "other:" + val[:40]
    bad = []
    for present, coinbase, empty in itertools.product((False, True), repeat=3):
        if not present and (coinbase or empty):
            continue
        st = {"present": present, "coinbase": coinbase, "empty": empty}
        cands = []
        for gs, val in alts:
            vals = [ev(a, st) for a in gs]
            if None in vals:
                bad.append("a result alternative is selected by `%s`, which this rule does not understand" % gs)
                cands = None
                break
            if all(vals):
                cands.append((len(gs), kind(val)))
        if cands is None:
            break
        top = max([c[0] for c in cands]) if cands else -1
        got = sorted({k for n_, k in cands if n_ == top})
        want = "empty-bundle digest" if not present else ("txid digest of the bundle" if (coinbase or empty)
                                                         else "signature digest state")
        if got != [want]:
            bad.append("bundle present=%s coinbase=%s no-inputs=%s: %s, ZIP 244 prescribes the %s" % (present, coinbase, empty, got, want))
    if not bad:
        chk.ok("SIGHASH", "transparent_sig_digest is the empty-bundle digest without a bundle, the bundle's txid digest for "
               "a coinbase or a bundle without inputs, the per-input signature digest otherwise", sample=True)
    else:
        chk.fail("SIGHASH", "transparent_sig_digest/result", "; ".join(bad[:3]), fs[0].span.loc())


def parse_select(v):
    """select{g1 & g2 => val; ...} -> {(g1, g2): val}"""
    m = re.match(r"select\{(.*)\}$", v)
    if not m:
        return None
    out = {}
    for part in m.group(1).split("; "):
        g, _, val = part.rpartition(" => ")
        gs = tuple(x for x in g.split(" & ") if KEEP_GUARD.search(x) and not DROP_GUARD.search(x)) \
            if g != "otherwise" else ()
        out[ht_canon(gs)] = val
    return out


def _ht_class(h):
    acp, mask = CONSTS.get("ANYONECANPAY", 0x80), CONSTS.get("MASK", 0x1f)
    return ("ACP" if h & acp else "acp") + "+" + {CONSTS.get("SINGLE", 3): "SINGLE",
                                                   CONSTS.get("NONE", 2): "NONE"}.get(h & mask, "ALL")


def choice_mismatch(got, want):
    """None when the two guarded choices {(tests..): value} select the same value at every point of the
    finite domain their tests range over (hash type 0..255, the truth of every other test, the variant
    of every matched enum); otherwise a description of the first point where they differ. Comparing by
    evaluation makes the shape of the tests irrelevant (nested ifs, match guards, negated tests)."""
    import itertools
    bools, variants = set(), {}

    def atoms(d, who):
        for key in d:
            for g in key:
                if g.startswith("hash_type in "):
                    continue
                m = re.match(r"^(variant\(.*\))==(\w+)$", g)
                if m:
                    variants.setdefault(m.group(1), {"got": set(), "want": set()})[who].add(m.group(2))
                else:
                    bools.add(g[1:] if g.startswith("!") else g)
    atoms(got, "got")
    atoms(want, "want")
    vdom = {}
    for x, d in variants.items():
        vals = {v for v in d["got"] | d["want"] if v != "else"}
        if "else" in d["got"] or not d["got"]:
            vals.add("other")
        vdom[x] = sorted(vals)
    bools = sorted(bools)
    if len(bools) > 8:
        return "too many distinct tests to compare (%d)" % len(bools)

    def holds(g, h, bv, vv, explicit):
        if g.startswith("hash_type in {"):
            return _ht_class(h) in [x.strip() for x in g[len("hash_type in {"):-1].split(",")]
        if g.startswith("hash_type in ["):
            return h in [int(x) for x in re.findall(r"\d+", g)]
        m = re.match(r"^(variant\(.*\))==(\w+)$", g)
        if m:
            if m.group(2) == "else":
                return vv[m.group(1)] not in explicit.get(m.group(1), set())
            return vv[m.group(1)] == m.group(2)
        if g.startswith("!"):
            return not bv[g[1:]]
        return bv[g]
    exp_g = {x: {v for v in d["got"] if v != "else"} for x, d in variants.items()}
    exp_w = {x: {v for v in d["want"] if v != "else"} for x, d in variants.items()}
    reps = {}
    for h in range(256):
        reps.setdefault(_ht_class(h), h)
    uses_numeric = any(g.startswith("hash_type in [") for d in (got, want) for k in d for g in k)
    hts = range(256) if uses_numeric else sorted(reps.values())
    for h in hts:
        for bvals in itertools.product((False, True), repeat=len(bools)):
            bv = dict(zip(bools, bvals))
            for vvals in itertools.product(*[vdom[x] for x in sorted(vdom)]):
                vv = dict(zip(sorted(vdom), vvals))
                w_ = {v for k, v in want.items() if all(holds(g, h, bv, vv, exp_w) for g in k)}
                g_ = {v for k, v in got.items() if all(holds(g, h, bv, vv, exp_g) for g in k)}
                if len(w_) != 1:
                    continue        # a point the table does not decide (infeasible combination)
                if g_ != w_:
                    pt = ["hash_type=%s" % _ht_class(h)] + ["%s=%s" % kv for kv in bv.items()] + \
                         ["%s=%s" % kv for kv in vv.items()]
                    return "at %s the code takes %s, the table prescribes %s" % (", ".join(pt), sorted(g_) or "nothing",
                                                                                sorted(w_))
    return None


def norm_value(v):
    """Hash?#4.unwrap_or_else(..) -> Hash?#4|empty (the substitute is checked separately)"""
    v = re.sub(r"^(Hash\?#\d)\.unwrap_or_else\(.*\)$", r"\1|empty", v)
    v = re.sub(r"\[_\d+\]", "[0]", v)
    return v


def skipped_when_all_empty(m, value_substr):
    """the write whose value mentions value_substr is unreachable once every `is_empty()` test of
    the function answers true, and reachable otherwise"""
    import assume as S
    b = m.b
    emp = [bb for bb, t in b.calls() if t.callee.indirect is None and t.callee.target_p().endswith("::is_empty")
           and not b.blocks[bb].cleanup]
    wr = [bb for bb, t in b.calls() if t.callee.indirect is None and
          commit.WRITE.search(t.callee.target_p()) and not b.blocks[bb].cleanup]
    if not emp or not wr:
        return False
    r1 = S.explore(b, 0, {}, call_results={bb: S.B(True) for bb in emp})
    r2 = S.explore(b, 0, {}, call_results={emp[0]: S.B(False)})
    return not (set(wr) & r1.blocks) and bool(set(wr) & r2.blocks)


def present_iff_any_nonempty(m, wbb):
    """None when the write in block wbb is reached exactly when the Sapling spends or the outputs
    are non-empty; otherwise the counterexample. The emptiness tests are grouped by what they test
    (so two tests of the outputs answer alike) and every combination of answers is explored."""
    import assume as S
    import itertools
    b = m.b
    groups = {}
    for bb, t in b.calls():
        if t.callee.indirect is None and t.callee.target_p().endswith("::is_empty") and \
                not b.blocks[bb].cleanup and t.args:
            d = m.describe(m.du.origin(t.args[0]))
            kind = "spends" if "shielded_spends" in d else "outputs" if "shielded_outputs" in d else None
            if kind:
                groups.setdefault(kind, []).append(bb)
    if sorted(groups) != ["outputs", "spends"]:
        return "the emptiness tests of the spends and of the outputs were not both found (%s)" % sorted(groups)
    for se, oe in itertools.product((True, False), repeat=2):
        cr = {bb: S.B(se) for bb in groups["spends"]}
        cr.update({bb: S.B(oe) for bb in groups["outputs"]})
        r = S.explore(b, 0, {}, call_results=cr)
        if (wbb in r.blocks) != (not (se and oe)):
            return "with spends %s and outputs %s it is %s" % (
                "empty" if se else "non-empty", "empty" if oe else "non-empty",
                "written" if wbb in r.blocks else "skipped")
    return None


def compare(chk, rule, key, got, want, m=None):
    if got is None:
        chk.fail(rule, key + "/missing", "digest function for %s not found" % key)
        return
    if len(got) != len(want):
        chk.fail(rule, key + "/states", "%s uses %d hash states %s, the table has %d %s"
                 % (key, len(got), [p for p, _ in got], len(want), [p for p, _ in want]))
        return
    hashers_ = m.hashers() if m is not None else []
    for j, ((gp, gw), (wp, ww)) in enumerate(zip(got, want)):
        k2 = "%s/%s" % (key, wp)
        if gp != wp:
            chk.fail(rule, k2 + "/personalisation", "%s: personalisation %r where the table has %r" % (key, gp, wp))
            continue
        gl = [(norm_value(v), g) for v, g in gw]
        ok_all = len(gl) == len(ww)
        why = "" if ok_all else "writes %d values, the table has %d" % (len(gl), len(ww))
        for i, ((gv, gg), (wv, wg)) in enumerate(zip(gl, ww)):
            wg = ht_canon(tuple(wg))
            if isinstance(wv, dict):
                sel = parse_select(gv)
                wv = {ht_canon(k): v for k, v in wv.items()}
                mis = "not a choice" if sel is None else (None if sel == wv else choice_mismatch(sel, wv))
                if mis:
                    ok_all = False
                    why = why or "value %d is %s, the table has the choice %s: %s" % (i + 1, gv[:200], wv, mis)
            elif wg == ("!ANY",):
                bbs = hashers_[j]["bbs"] if j < len(hashers_) else []
                cex = "no block" if i >= len(bbs) else present_iff_any_nonempty(m, bbs[i])
                if gv != wv or cex:
                    ok_all = False
                    why = why or "value %d is %s under %s, expected %s, skipped exactly when spends and " \
                        "outputs are both empty (%s)" % (i + 1, gv, gg, wv, cex)
            elif gv != wv or tuple(gg) != tuple(wg):
                ok_all = False
                why = why or "value %d is %s%s, the table has %s%s" % (
                    i + 1, gv, (" if " + " & ".join(gg)) if gg else "", wv, (" if " + " & ".join(wg)) if wg else "")
        if ok_all:
            chk.ok(rule, "%s [%s]: %s" % (key, wp, ", ".join(v if isinstance(v, str) else "choice" for v, _g in ww)
                                          or "(nothing: empty-bundle digest)"),
                   sample=("SSpendN" in wp or "SapliH" in wp or wp.startswith("ZcashTxHash")))
        else:
            chk.fail(rule, k2, "%s, hash state %r: %s — got %s" % (key, wp, why, [v for v, _ in gl]))


def main(tier):
    chk = Check("C04", "other", tier)
    chk.explanation = (
        "Commitment maps of the ZIP 244 / v6 digest functions are read off the MIR (per hash state: "
        "personalisation string, ordered values, per-element repetition, presence conditions; "
        "specialised to V5 and V6 by pruning branches that contradict the version) and compared with "
        "a table transcribed from ZIP 244 and the v6 rules; the root functions' slots and the "
        "transparent signature digest's ANYONECANPAY/SINGLE/NONE choices are compared likewise. "
        "Decides which data each digest commits to, in which order and under which personalisation; "
        "The v3/v4 signature hash (ZIP 143/243) is compared with its own table the same way, including "
        "that each conditional part is exactly one of {digest, zeroes}. "
        "Does not decide digest values or the Orchard/Ironwood bundle commitments (external).")
    chk.trusted = ["rustc MIR", "the table in rules/c04.py transcribed from ZIP 244 and the v6 notes",
                   "blake2b_simd; orchard's bundle commitments"]
    chk.rule("MAP", "each hash state commits to the prescribed values in the prescribed order", floor=26)
    chk.rule("ROOT", "part digests reach the matching slots of the root hashes", floor=8)
    chk.rule("SIGHASH", "transparent signature digest: committed data and flag exclusions", floor=5)
    chk.rule("SIGHASH4", "ZIP 143/243 signature hash: committed data, flag exclusions, dispatch", floor=27)
    chk.rule("control", "positive controls", floor=2)
    w = zf.World(extract.facts_dir("all"), ["zcash_primitives", "zcash_transparent"])
    consts = {k.rsplit("_", 1)[-1]: v["v"] for k, v in w.consts.items()
              if k.startswith("zcash_transparent::sighash::SIGHASH_") and v.get("v") is not None}
    CONSTS.update(consts)
    for (name, ver), want in sorted(SPEC.items(), key=lambda x: (x[0][0], str(x[0][1]))):
        fname = (BTC + name[4:]) if name.startswith("BTC:") else T + name
        got, m_ = the_map(w, fname, ver, consts)
        compare(chk, "MAP", "%s%s" % (name, ("@" + ver) if ver else ""), got, want, m_)
    got, _m = the_map(w, T + "sighash_v5::transparent_sig_digest", None, consts)
    compare(chk, "SIGHASH", "transparent_sig_digest", got, SIG_SPEC)
    rule_sig_result(chk, w, consts)
    rule_v4(chk, w, consts)
    # empty-bundle substitutes in the roots
    for fn_, ver in (("txid::to_hash", "V5"), ("txid::to_hash_v6", None)):
        f = w.by_p.get(T + fn_, [])
        if len(f) != 1:
            chk.fail("ROOT", fn_ + "/missing", "not found")
            continue
        subs = []
        for g in w.fns.values():
            if g.is_closure() and g.root == f[0].id:
                for _bb, t in g.body.calls():
                    if t.callee.indirect is None and "hash_bundle_txid_empty" in t.callee.target_p():
                        du = defuse.DefUse(g.body)
                        subs.append(re.sub(r"^.*::", "", defuse.show(du.origin(t.args[0])))[:40])
        b = f[0].body
        du = defuse.DefUse(b)
        sap = [defuse.show(du.origin(t.args[1])) for _bb, t in b.calls() if t.callee.indirect is None and
               t.callee.target_p().endswith("::unwrap_or_else") and "hash_sapling_txid_empty" in
               defuse.show(du.origin(t.args[1]))]
        want_n = 1 if fn_ == "txid::to_hash" else 2
        if len(subs) == want_n and len(sap) == 1:
            chk.ok("ROOT", "%s substitutes the empty-bundle digests (Sapling: hash_sapling_txid_empty, "
                   "Orchard-protocol: hash_bundle_txid_empty x%d) for absent bundles" % (fn_, want_n))
        else:
            chk.fail("ROOT", fn_ + "/empty", "%s substitutes %s / %s for absent bundles" % (fn_, sap, subs),
                     f[0].span.loc())
    # roots: which part goes into which slot
    want_calls = {
        "sighash_v5::v5_signature_hash":
            "fn:to_hash(TransactionData.version, TransactionData.consensus_branch_id, TxDigests.header_digest, "
            "fn:transparent_sig_digest(TransactionData.transparent_bundle.zip(TxDigests.transparent_digests), "
            "SignableInput), TxDigests.sapling_digest, TxDigests.orchard_digest)",
        "sighash_v6::v6_signature_hash":
            "fn:to_hash_v6(TransactionData.consensus_branch_id, TxDigests.header_digest, "
            "fn:transparent_sig_digest(TransactionData.transparent_bundle.zip(TxDigests.transparent_digests), "
            "SignableInput), TxDigests.sapling_digest, TxDigests.orchard_digest, TxDigests.ironwood_digest)",
    }
    for fn_, want in want_calls.items():
        f = w.by_p.get(T + fn_, [])
        got = commit.Maps(w, f[0], None, V).result() if len(f) == 1 else None
        if got == want:
            chk.ok("ROOT", "%s = %s" % (fn_.rsplit("::", 1)[-1], want[:90] + "..."), sample=True)
        else:
            chk.fail("ROOT", fn_, "%s returns %s" % (fn_, got), f[0].span.loc() if f else None)
    tt = w.by_p.get(T + "txid::to_txid", [])
    if len(tt) == 1:
        b = tt[0].body
        du = defuse.DefUse(b)
        calls = {t.callee.target_p().rsplit("::", 1)[-1]: [defuse.show(du.origin(a)) for a in t.args]
                 for bb, t in b.calls() if t.callee.indirect is None and not b.blocks[bb].cleanup and
                 re.search(r"txid::to_hash(_v6)?$", t.callee.target_p())}
        w5 = ["arg0", "arg1", "*arg2.header_digest",
              "hash_transparent_txid_data(as_ref(&*arg2.transparent_digests))", "*arg2.sapling_digest",
              "*arg2.orchard_digest"]
        w6 = ["arg1", "*arg2.header_digest", "hash_transparent_txid_data(as_ref(&*arg2.transparent_digests))",
              "*arg2.sapling_digest", "*arg2.orchard_digest", "*arg2.ironwood_digest"]
        if calls.get("to_hash") == w5 and calls.get("to_hash_v6") == w6:
            chk.ok("ROOT", "to_txid hands header / transparent / sapling / orchard (/ ironwood) digests to "
                   "the matching slots of to_hash / to_hash_v6", sample=True)
        else:
            chk.fail("ROOT", "to_txid/slots", "to_txid calls %s" % calls, tt[0].span.loc())
        # v6 goes to to_hash_v6
        m6 = commit.Maps(w, tt[0], "V6", V)
        m5 = commit.Maps(w, tt[0], "V5", V)
        c6 = {t.callee.target_p().rsplit("::", 1)[-1] for bb, t in b.calls() if bb in m6.feasible and
              t.callee.indirect is None and re.search(r"txid::to_hash(_v6)?$", t.callee.target_p())}
        c5 = {t.callee.target_p().rsplit("::", 1)[-1] for bb, t in b.calls() if bb in m5.feasible and
              t.callee.indirect is None and re.search(r"txid::to_hash(_v6)?$", t.callee.target_p())}
        if c6 == {"to_hash_v6"} and c5 == {"to_hash"}:
            chk.ok("ROOT", "to_txid: V6 is hashed by to_hash_v6 only, V5 by to_hash only")
        else:
            chk.fail("ROOT", "to_txid/dispatch", "to_txid hashes V5 with %s and V6 with %s" % (sorted(c5), sorted(c6)),
                     tt[0].span.loc())
    else:
        chk.fail("ROOT", "to_txid/missing", "to_txid not found")
    dg = w.by_p.get(T + "TransactionData::<A>::digest", [])
    if len(dg) == 1:
        got = commit.Maps(w, dg[0], None, V).result()
        TD_ = "TransactionData."
        parts = ["digest_header(D, %sversion, %sconsensus_branch_id, %slock_time, %sexpiry_height)" % ((TD_,) * 4),
                 "digest_transparent(D, %stransparent_bundle" % TD_, "digest_sapling(D, %sversion, "
                 "%ssapling_bundle" % (TD_, TD_), "digest_orchard(D, %sversion, %sorchard_bundle" % (TD_, TD_),
                 "digest_ironwood(D, %sironwood_bundle" % TD_]
        pos = [got.find(p) for p in parts]
        if got.startswith("fn:combine(D, ") and all(x >= 0 for x in pos) and pos == sorted(pos):
            chk.ok("ROOT", "TransactionData::digest combines header, transparent, sapling, orchard, ironwood "
                   "digests of its own fields in that order", sample=True)
        else:
            chk.fail("ROOT", "digest", "TransactionData::digest returns %s" % got[:300], dg[0].span.loc())
    else:
        chk.fail("ROOT", "digest/missing", "TransactionData::digest not found")
    # TxIdDigester delegates to the txid functions
    for meth, want in (("digest_header", "fn:hash_header_txid_data(TxVersion, BranchId, lock_time, BlockHeight)"),):
        f = w.by_p.get(TID + meth, [])
        got = commit.Maps(w, f[0], None, V).result() if len(f) == 1 else None
        if got == want:
            chk.ok("ROOT", "TxIdDigester::%s = %s" % (meth, want))
        else:
            chk.fail("ROOT", "TxIdDigester/" + meth, "TxIdDigester::%s returns %s" % (meth, got))
    # controls: the specialisation distinguishes the versions; an authorising datum is seen where it is
    g5, _ = the_map(w, T + "txid::hash_sapling_spends", "V5", consts)
    g6, _ = the_map(w, T + "txid::hash_sapling_spends", "V6", consts)
    if g5 and g6 and g5 != g6:
        chk.ok("control", "version specialisation yields different maps for V5 and V6 (anchor, personalisation)")
    else:
        chk.fail("control", "specialisation", "V5 and V6 maps of hash_sapling_spends are equal")
    ga, _ = the_map(w, BTC + "digest_sapling", "V5", consts)
    if ga and any("spend_auth_sig" in v for _p, ws in ga for v, _g in ws):
        chk.ok("control", "authorising data (spend_auth_sig) is visible in the auth digest's map")
    else:
        chk.fail("control", "auth-visible", "spend_auth_sig not seen in the auth digest")
    chk.finish()
