"""C03 — transaction and block-header wire codecs are faithful and canonical (structural clauses).

Decided, on the MIR of zcash_primitives / zcash_transparent / zcash_encoding:
  WIRE     every layout a writer can produce is a layout its reader follows: the same wire
           operations (width, endianness, length-prefix kind, nesting) on the same fields in the
           same order, for OutPoint, TxIn, TxOut, Script, BlockHeader, TxVersion, the Sapling
           v4/v5 spend/output/bundle codecs, the Orchard action/bundle codecs and - by expanding
           nested codec calls - the whole of Transaction::read against Transaction::write for
           every version (lib/wire.py; loop-free path enumeration, writer layouts ⊆ reader layouts)
  DISPATCH read, write and from_data send each TxVersion to the same v4/v5/v6 sibling and each
           read_vN finishes through from_data_vN / hashes what it consumed
  AMOUNT   every amount parsed goes through a range-checked constructor whose failure is an Err
  CANON    CompactSize::read_unbounded accepts exactly the canonical form of each value
           (abstract interpretation; rows equal to the writer's), CompactSize::read accepts at most
           MAX_COMPACT_SIZE, and the Vector/Array/Optional readers use the bounded reader
  HASH     BlockHeader::hash is SHA-256d of exactly what BlockHeader::write emits and a header
           can only be built through from_data; v1-v4 txid is SHA-256d of the bytes consumed
           (HashReader wraps the reader before the first read, into_hash follows the last) and of
           write's output in from_data_v4
  PF       no class-A panic site reachable from Transaction::read / BlockHeader::read /
           TxVersion::read is undischarged (automatic, or reviewed and tied to checked guards)
Not decided: equality of parsed field VALUES beyond their position and width (point/field element
canonicity lives in external crates), "never reads past what it reports as consumed", Sprout
JoinSplit descriptions (the property's quantifier is Sprout-less).
"""
import re

import absint as A
import assume as S
import defuse
import extract
import panics
import vc
import wire
import zf
from common import Check

T = "zcash_primitives::transaction::"
SAP = T + "components::sapling::"
ORC = T + "components::orchard::"
TB = "zcash_transparent::bundle::"
AUTH = "<zcash_transparent::bundle::Authorized>"

PAIRS = [
    (TB + "OutPoint::read", TB + "OutPoint::write"),
    (TB + "TxIn::" + AUTH + "::read", TB + "TxIn::" + AUTH + "::write"),
    (TB + "TxOut::read", TB + "TxOut::write"),
    ("zcash_transparent::address::Script::read", "zcash_transparent::address::Script::write"),
    ("zcash_primitives::block::BlockHeader::read", "zcash_primitives::block::BlockHeader::write"),
    (T + "TxVersion::read", T + "TxVersion::write"),
    (T + "Transaction::read_transparent", T + "Transaction::write_transparent"),
    (SAP + "read_spend_v4", SAP + "write_spend_v4"),
    (SAP + "read_spend_v5", SAP + "write_spend_v5_without_witness_data"),
    (SAP + "read_output_v4", SAP + "write_output_v4"),
    (SAP + "read_output_v5", SAP + "write_output_v5_without_proof"),
    (SAP + "read_v4_components", SAP + "write_v4_components"),
    (SAP + "read_v5_bundle", SAP + "write_v5_bundle"),
    (ORC + "read_action_without_auth", ORC + "write_action_without_auth"),
    (ORC + "read_note_ciphertext", ORC + "write_note_ciphertext"),
    (ORC + "read_cmx", ORC + "write_cmx"),
    (ORC + "read_nullifier", ORC + "write_nullifier"),
    (ORC + "read_value_commitment", ORC + "write_value_commitment"),
    (ORC + "read_verification_key", ORC + "write_verification_key"),
    (ORC + "read_bundle", ORC + "write_bundle"),
    (ORC + "read_v5_bundle", ORC + "write_v5_bundle"),
    (ORC + "read_v6_bundle", ORC + "write_v6_bundle"),
    (T + "Transaction::read", T + "Transaction::write"),
]
# reader/writer names for the same value where they differ by convention
ALIAS = {"cv_net": "cv", "nf": "nullifier", "nf_old": "nullifier", "encrypted_note": "note_ciphertext",
         "flag_byte": "flags", "binding_signature": "binding_sig", "vin": "vin", "vout": "vout",
         "proof": "proof_bytes", "hash": "hash", "n": "n", "binding_sig": "sapling_bundle"}


def short(p):
    return p.replace(T, "").replace("components::", "").replace(TB, "").replace(AUTH, "")


def rule_wire(chk, w):
    total_attr = 0
    for rn, wn in PAIRS:
        rf, wf = w.by_p.get(rn, []), w.by_p.get(wn, [])
        key = short(rn)
        if len(rf) != 1 or len(wf) != 1:
            chk.fail("WIRE", key + "/missing", "codec pair %s / %s not found" % (rn, wn))
            continue
        ok, bad, st = wire.includes(w, rf[0], wf[0], ALIAS)
        if ok:
            total_attr += st.get("attributed", 0)
            chk.ok("WIRE", "%s: all %d writer layout(s) are among the %d reader layout(s) (%d field "
                   "attributions agree)" % (key, st["writer_layouts"], st["reader_layouts"],
                                            st["attributed"]),
                   sample=key in ("Transaction::read", "BlockHeader::read", "sapling::read_v5_bundle"))
        else:
            lay, why = bad[0]
            chk.fail("WIRE", key, "%s can emit a layout that %s does not follow: %s — %s"
                     % (short(wn), short(rn), " ".join(repr(e) for e in lay)[:300] if lay != "-" else "",
                        "; ".join(why)[:400]), wf[0].span.loc())
    chk.analysed["wire_field_attributions"] = total_attr
    return total_attr


def _dispatch(w, f, callee_rx):
    """TxVersion variant name -> set of callee last-segments reached only under that variant"""
    names = [v["name"] for v in (w.adts.get(T + "TxVersion") or {"variants": []})["variants"]]
    b = f.body
    du = defuse.DefUse(b)
    out = {}
    for bi, blk in enumerate(b.blocks):
        t = blk.term
        if blk.cleanup or t.kind != "switch":
            continue
        if t.discr.kind not in ("copy", "move") or t.discr.place.proj:
            continue
        ty_ok = False
        for st in blk.stmts:
            if st.kind == "=" and st.place.local == t.discr.place.local and st.rv.kind == "disc":
                pl = st.rv.place
                ty = b.local_ty(pl.local)
                src = defuse.show(du.origin_place(pl))
                exact = re.match(r"^&?(mut )?zcash_primitives::transaction::TxVersion$", ty) is not None
                ty_ok = (exact and (not pl.proj or tuple(pl.proj) == ("*",))) or src.endswith(".version")
        if not ty_ok:
            continue
        arms = list(t.arms) + ([("otherwise", t.otherwise)] if t.otherwise is not None else [])
        reach = {v: b.reachable(tb) | {tb} for v, tb in arms}
        covered = {v for v, _tb in t.arms}
        tgt_of = dict(arms)
        for v, tb in arms:
            others = [r for u, r in reach.items() if tgt_of[u] != tb]
            region = reach[v] - set().union(*others) if others else reach[v]
            cal = set()
            for rb in region:
                tt = b.blocks[rb].term
                if tt.kind == "call" and tt.callee.indirect is None and \
                        re.search(callee_rx, tt.callee.target_p()):
                    cal.add(re.search(callee_rx, tt.callee.target_p()).group(1))
            vs = [names[v]] if isinstance(v, int) and v < len(names) else \
                [n for i, n in enumerate(names) if i not in covered]
            for n in vs:
                if cal:
                    out.setdefault(n, set()).update(cal)
        if out:
            return out
    return out


def rule_dispatch(chk, w):
    maps = {}
    for nm, rx in (("Transaction::read", r"::read_(v\d)$"), ("Transaction::write", r"::write_(v\d)$"),
                   ("Transaction::from_data", r"::from_data_(v\d)$")):
        f = w.by_p.get(T + nm, [])
        if len(f) != 1:
            chk.fail("DISPATCH", nm + "/missing", "%s not found" % nm)
            continue
        maps[nm] = {k: sorted(v) for k, v in _dispatch(w, f[0], rx).items()}
    names = [v["name"] for v in (w.adts.get(T + "TxVersion") or {"variants": []})["variants"]]
    ref = maps.get("Transaction::read", {})
    for nm, m in maps.items():
        if m and set(m) == set(names) and all(len(v) == 1 for v in m.values()) and m == ref:
            chk.ok("DISPATCH", "%s dispatches %s" % (nm, ", ".join("%s->%s" % (k, v[0])
                                                                   for k, v in sorted(m.items()))),
                   sample=True)
        else:
            chk.fail("DISPATCH", nm, "%s dispatches versions as %s, Transaction::read as %s (versions: "
                     "%s)" % (nm, m, ref, names))
    # each read_vN finishes through the matching from_data_vN (v5/v6), v4 hashes what it read
    for v in ("v5", "v6"):
        f = w.by_p.get(T + "Transaction::read_" + v, [])
        if len(f) != 1:
            chk.fail("DISPATCH", "read_%s/missing" % v, "read_%s not found" % v)
            continue
        fd = [t.callee.target_p().rsplit("::", 1)[-1] for _bb, t in f[0].body.calls()
              if t.callee.indirect is None and "::from_data" in t.callee.target_p()]
        if fd == ["from_data_" + v]:
            chk.ok("DISPATCH", "read_%s builds the transaction through from_data_%s" % (v, v))
        else:
            chk.fail("DISPATCH", "read_%s/from_data" % v, "read_%s finishes through %s" % (v, fd),
                     f[0].span.loc())
    # the v6 reader reads the Orchard slot before the Ironwood slot, each into its own field
    f = w.by_p.get(T + "Transaction::read_v6", [])
    if len(f) == 1:
        b = f[0].body
        du = defuse.DefUse(b)
        slots = []
        lin = wire.Linear(w, f[0])
        calls = lin.ordered([(bb, t) for bb, t in b.calls() if t.callee.indirect is None and
                             t.callee.target_p().endswith("orchard::read_v6_bundle")]) or []
        for bb, t in calls:
            pool = defuse.show(du.origin(t.args[2])).rsplit("::", 1)[-1].strip("{}")
            slots.append((pool, lin.sink(t.dest.local)))
        if slots == [("Orchard", "orchard_bundle"), ("Ironwood", "ironwood_bundle")]:
            chk.ok("DISPATCH", "read_v6 reads the Orchard slot into orchard_bundle, then the Ironwood "
                   "slot into ironwood_bundle", sample=True)
        else:
            chk.fail("DISPATCH", "read_v6/slots", "read_v6 reads the Orchard-protocol slots as %s" % slots,
                     f[0].span.loc())
    else:
        chk.fail("DISPATCH", "read_v6/missing", "read_v6 not found")
    wf = w.by_p.get(T + "Transaction::write_v6", [])
    if len(wf) == 1:
        ev = wire.linear_events(w, wf[0], "w") or []
        got = [e.attr for e in ev if e.enc == "nested:orchard::v6_bundle"]
        if got == ["orchard_bundle", "ironwood_bundle"]:
            chk.ok("DISPATCH", "write_v6 writes orchard_bundle, then ironwood_bundle")
        else:
            chk.fail("DISPATCH", "write_v6/slots", "write_v6 writes the Orchard-protocol slots from %s" % got,
                     wf[0].span.loc())


AMOUNT_CTORS = re.compile(r"zcash_protocol::value::(Zatoshis|ZatBalance)::(from_nonnegative_i64_le_bytes|"
                          r"from_i64_le_bytes|from_u64_le_bytes|from_u64|from_i64|from_nonnegative_i64)$")
UNCHECKED = re.compile(r"zcash_protocol::value::(Zatoshis|ZatBalance)::(const_from_u64|const_from_i64)$")


def rule_version_predicates(chk, w):
    """Which parts a transaction of a given version carries is decided by the TxVersion::has_* predicates, which
    both the reader and the writer consult (a wrong answer makes read stop early or write drop a section). Their
    decision tables are read off the MIR - every loop-free path with the values its switches take - and
    evaluated for Sprout(1), Sprout(2), Sprout(3), Sprout(0x7fffffff), V3, V4, V5, V6 against the format rules:
    JoinSplits from version 2 up to v4 (pre-Overwinter headers above 2 included, they use the v2 layout),
    Overwinter fields from v3, Sapling from v4, Orchard from v5, Ironwood in v6."""
    import guards as G
    T_ = "zcash_primitives::transaction::"
    adt = w.adts.get(T_ + "TxVersion")
    if not adt:
        chk.fail("VERSION", "predicates/missing", "TxVersion not found")
        return
    vnames = [v["name"] for v in adt["variants"]]
    want = {
        "has_sprout": lambda v, p: (p >= 2) if v == "Sprout" else v in ("V3", "V4"),
        "has_overwinter": lambda v, p: v != "Sprout",
        "has_sapling": lambda v, p: v in ("V4", "V5", "V6"),
        "has_orchard": lambda v, p: v in ("V5", "V6"),
        "has_ironwood": lambda v, p: v == "V6",
    }
    points = [("Sprout", 1), ("Sprout", 2), ("Sprout", 3), ("Sprout", 0x7fffffff)] + [(v, None) for v in vnames if v != "Sprout"]
    for name, spec in sorted(want.items()):
        fs = w.by_p.get(T_ + "TxVersion::" + name, [])
        if len(fs) != 1:
            chk.fail("VERSION", name + "/missing", "TxVersion::%s not found" % name)
            continue
        f = fs[0]
        b, du = f.body, defuse.DefUse(f.body)
        try:
            paths = G.loopfree_paths(b)
        except ValueError:
            chk.fail("VERSION", name + "/paths", "TxVersion::%s is not loop-free" % name, f.span.loc())
            continue

        class Unknown(Exception):
            pass

        cur_blocks = [set()]

        def ev(o, v, p):
            if o[0] == "const" and isinstance(o[1], int):
                return o[1]
            if o[0] == "local":
                # a boolean joined from constants (`matches!`): the constant assigned on this path
                vals = [st.rv.ops[0].info.get("v") for bi in sorted(cur_blocks[0]) for st in b.blocks[bi].stmts
                        if st.kind == "=" and st.place.local == o[1] and not st.place.proj and st.rv.kind == "use" and
                        st.rv.ops[0].kind == "const"]
                if len(vals) == 1 and vals[0] in (0, 1):
                    return vals[0]
                raise Unknown("_%d" % o[1])
            if o[0] == "disc":
                return vnames.index(v)
            txt = defuse.show(o)
            if re.search(r"as Sprout\)\.0$", txt):
                if p is None:
                    raise Unknown("payload of a non-Sprout version")
                return p
            if o[0] == "bin":
                a, c = ev(o[2], v, p), ev(o[3], v, p)
                r = {"Ge": a >= c, "Gt": a > c, "Le": a <= c, "Lt": a < c, "Eq": a == c, "Ne": a != c}.get(o[1])
                if r is None:
                    raise Unknown(o[1])
                return int(r)
            if o[0] == "un" and o[1] == "Not":
                return int(not ev(o[2], v, p))
            raise Unknown(txt[:60])

        def result(blocks, v, p):
            outs = []
            for bi in sorted(blocks):
                for st in b.blocks[bi].stmts:
                    if st.kind == "=" and st.place.local == 0 and not st.place.proj:
                        if st.rv.kind == "use" and st.rv.ops[0].kind == "const":
                            outs.append(bool(st.rv.ops[0].info.get("v")))
                        else:
                            o = du.origin(st.rv.ops[0]) if st.rv.kind == "use" else \
                                ("bin", st.rv.op, du.origin(st.rv.ops[0]), du.origin(st.rv.ops[1])) if st.rv.kind == "bin" else \
                                ("un", st.rv.op, du.origin(st.rv.ops[0])) if st.rv.kind == "un" else None
                            if o is None:
                                raise Unknown("result")
                            outs.append(bool(ev(o, v, p)))
            return outs[-1] if outs else None
        bad = None
        try:
            for v, p in points:
                hits = []
                for taken, blocks in paths:
                    ok = True
                    cur_blocks[0] = blocks
                    for sw, val in taken:
                        tm = b.blocks[sw].term
                        x = ev(du.origin(tm.discr), v, p)
                        arms = [a for a, _t in tm.arms]
                        if (val == "else" and x in arms) or (val != "else" and x != val):
                            ok = False
                            break
                    if ok:
                        cur_blocks[0] = blocks
                        hits.append(result(blocks, v, p))
                if len(hits) != 1 or hits[0] is None:
                    raise Unknown("%d paths for %s" % (len(hits), v))
                if hits[0] != bool(spec(v, p)) and bad is None:
                    bad = "%s%s -> %s, the format prescribes %s" % (v, "(%d)" % p if p is not None else "", hits[0], bool(spec(v, p)))
        except Unknown as e:
            chk.fail("VERSION", name + "/tests", "TxVersion::%s tests something this rule cannot evaluate: %s" % (name, e), f.span.loc())
            continue
        if bad is None:
            chk.ok("VERSION", "TxVersion::%s answers as the format prescribes for all %d version points" % (name, len(points)),
                   sample=(name == "has_sprout"))
        else:
            chk.fail("VERSION", name, "TxVersion::%s: %s" % (name, bad), f.span.loc())


def rule_amount_range(chk, w):
    """AMOUNT (range): the value-balance and amount fields of every transaction version are decoded through
    ZatBalance::from_i64 / from_nonnegative_i64 and Zatoshis::from_u64. Each must accept exactly its range
    (+-MAX_BALANCE, 0..=MAX_MONEY) and answer - not overflow - for every machine integer: the guard of the
    constructing block is evaluated at the range's edges, one beyond them, and the type's extremes, with
    64-bit overflow of `abs` / negation treated as "no answer" (a debug build panics there, a release build
    accepts a wrapped value)."""
    import guards as G
    w2 = zf.World(extract.facts_dir("all"), ["zcash_protocol"])
    MAXB = (w2.consts.get("zcash_protocol::value::MAX_BALANCE") or {}).get("v")
    MAXM = (w2.consts.get("zcash_protocol::value::MAX_MONEY") or {}).get("v")
    if not MAXB or not MAXM:
        chk.fail("AMOUNT", "range/consts", "MAX_BALANCE / MAX_MONEY not found")
        return
    I64MIN, I64MAX, U64MAX = -(1 << 63), (1 << 63) - 1, (1 << 64) - 1
    cases = [("ZatBalance::from_i64", -MAXB, MAXB, [I64MIN, -MAXB - 1, -MAXB, 0, MAXB, MAXB + 1, I64MAX], (I64MIN, I64MAX)),
             ("ZatBalance::from_nonnegative_i64", 0, MAXB, [I64MIN, -1, 0, MAXB, MAXB + 1, I64MAX], (I64MIN, I64MAX)),
             ("Zatoshis::from_u64", 0, MAXM, [0, MAXM, MAXM + 1, U64MAX], (0, U64MAX))]
    # (Zatoshis::from_nonnegative_i64 is u64::try_from followed by from_u64)

    class NoAnswer(Exception):
        pass

    for name, lo, hi, points, (tmin, tmax) in cases:
        try:
            f = w2.fn("zcash_protocol::value::" + name)
        except KeyError:
            chk.fail("AMOUNT", "range/%s/missing" % name, "%s not found" % name)
            continue
        b, du = f.body, defuse.DefUse(f.body)

        def ev(o, x):
            o = defuse.strip_refs(o)
            if o[0] == "const" and isinstance(o[1], int):
                return o[1]
            if o[0] == "constdef":
                v_ = (w2.consts.get(o[1]) or {}).get("v")
                if v_ is None:
                    raise NoAnswer("constant " + o[1])
                return v_
            if o == ("arg", 0):
                return x
            if o[0] == "cast":
                return ev(o[2], x)
            if o[0] == "un" and o[1] == "Neg":
                v_ = -ev(o[2], x)
                if not tmin <= v_ <= max(tmax, I64MAX):
                    raise NoAnswer("negation overflows")
                return v_
            if o[0] == "call" and re.search(r"<impl i64>::abs$", o[1]):
                v_ = ev(o[2][0], x)
                if v_ == I64MIN:
                    raise NoAnswer("abs() of i64::MIN overflows")
                return abs(v_)
            if o[0] == "call" and re.search(r"::unsigned_abs$", o[1]):
                return abs(ev(o[2][0], x))
            if o[0] == "call" and re.search(r"Range(Inclusive)?::<.*>::contains(::<.*>)?$|::contains$", o[1]) and len(o[2]) == 2:
                r = defuse.strip_refs(o[2][0])
                if r[0] == "call" and r[1].endswith("::new") and len(r[2]) == 2:
                    a, c, incl = ev(r[2][0], x), ev(r[2][1], x), True
                elif r[0] == "agg" and len(r[2]) == 2:
                    a, c, incl = ev(r[2][0], x), ev(r[2][1], x), r[1].endswith("RangeInclusive")
                else:
                    raise NoAnswer("range " + defuse.show(r)[:40])
                v_ = ev(o[2][1], x)
                return int(a <= v_ <= c) if incl else int(a <= v_ < c)
            if o[0] == "bin":
                a, c = ev(o[2], x), ev(o[3], x)
                r = {"Ge": a >= c, "Gt": a > c, "Le": a <= c, "Lt": a < c, "Eq": a == c, "Ne": a != c}.get(o[1])
                if r is None:
                    raise NoAnswer("operator " + o[1])
                return int(r)
            if o[0] == "un" and o[1] == "Not":
                return int(not ev(o[2], x))
            raise NoAnswer(defuse.show(o)[:50])
        sites = [bi for bi, blk in enumerate(b.blocks) if not blk.cleanup for st in blk.stmts
                 if st.kind == "=" and st.rv.kind == "agg" and st.rv.agg[0] == "adt" and
                 st.rv.agg[1].startswith("zcash_protocol::value::Zat") and st.rv.ops and
                 defuse.strip_refs(du.origin(st.rv.ops[0])) in (("arg", 0), ("cast", st.rv.agg[1], ("arg", 0))) or
                 (st.kind == "=" and st.rv.kind == "agg" and st.rv.agg[0] == "adt" and st.rv.agg[1].startswith("zcash_protocol::value::Zat")
                  and st.rv.ops and "arg0" in defuse.show(du.origin(st.rv.ops[0])))]
        delegate = [t for bb, t in b.calls() if not b.blocks[bb].cleanup and t.callee.indirect is None and
                    re.search(r"value::(ZatBalance|Zatoshis)::from_(i64|u64|nonnegative_i64)$", t.callee.target_p())]
        if not sites and delegate:
            chk.ok("AMOUNT", "%s delegates to %s" % (name, delegate[0].callee.target_p().rsplit("::", 2)[-2] + "::" +
                                                     delegate[0].callee.target_p().rsplit("::", 1)[-1]))
            continue
        if len(sites) != 1:
            chk.fail("AMOUNT", "range/%s/site" % name, "%s does not construct its value from its argument in one place (%d)" % (name, len(sites)),
                     f.span.loc())
            continue
        conds = [(o, tr) for o, tr in G.facts(b, du, sites[0]) if tr is not None]
        bad = None
        for x in points:
            try:
                acc = all(bool(ev(o, x)) == tr for o, tr in conds)
            except NoAnswer as e:
                bad = "for %d the range test gives no answer: %s" % (x, e)
                break
            if acc != (lo <= x <= hi):
                bad = "%d is %s, the range is [%d, %d]" % (x, "accepted" if acc else "rejected", lo, hi)
                break
        if bad is None and conds:
            chk.ok("AMOUNT", "%s accepts exactly [%d, %d] and answers for the type's extremes (%d points)" % (name, lo, hi, len(points)),
                   sample=(name == "ZatBalance::from_i64"))
        else:
            chk.fail("AMOUNT", "range/" + name, "%s: %s" % (name, bad or "the construction is unguarded"), f.span.loc())


def rule_version_table(chk, w):
    """The header codec is a table: TxVersion::read accepts a (version number, version group id) pair
    for a variant exactly when TxVersion::header / version_group_id emit that pair for it. Read off
    the MIR: the reader's loop-free paths with the values its two switches take, the writer's two
    per-variant constant tables."""
    import guards as G
    T_ = "zcash_primitives::transaction::"
    rd = w.by_p.get(T_ + "TxVersion::read", [])
    hd = w.by_p.get(T_ + "TxVersion::header", [])
    vg = w.by_p.get(T_ + "TxVersion::version_group_id", [])
    adt = w.adts.get(T_ + "TxVersion")
    if len(rd) != 1 or len(hd) != 1 or len(vg) != 1 or not adt:
        chk.fail("VERSION", "missing", "TxVersion::read / header / version_group_id not found")
        return
    names = [v["name"] for v in adt["variants"]]
    b, du = rd[0].body, defuse.DefUse(rd[0].body)
    try:
        paths = G.loopfree_paths(b)
    except ValueError as e:
        chk.fail("VERSION", "paths", "TxVersion::read is not loop-free (%s)" % e, rd[0].span.loc())
        return
    reader = {}
    for taken, blocks in paths:
        outs = {s.rv.agg[2] for bi in blocks for s in b.blocks[bi].stmts
                if s.kind == "=" and s.rv.kind == "agg" and s.rv.agg[0] == "adt" and s.rv.agg[1] == T_ + "TxVersion"}
        if len(outs) != 1:
            continue
        var = next(iter(outs))
        ver, grp, over = None, None, None
        for sw, v in taken:
            o = du.origin(b.blocks[sw].term.discr)
            t = defuse.show(o) if o[0] != "disc" else "disc(%s)" % defuse.show(o[1])
            if t.startswith("disc(branch("):
                continue
            if re.search(r"Shr 31\) Eq 1\)$", t):
                over = (v != 0)
            elif re.search(r"BitAnd 2147483647\)$", t) and isinstance(v, int):
                ver = v
            elif re.match(r"^\(branch\(read_u32_le\(&arg0\)\) as Continue\)\.0$", t) and isinstance(v, int):
                grp = v
        reader.setdefault(var, set()).add((over, ver, grp))
    # writer tables

    def arm_consts(f, dst):
        bb_, dd = f.body, defuse.DefUse(f.body)
        out = {}
        for blk in bb_.blocks:
            t = blk.term
            if t.kind == "switch" and len(t.arms) >= 4:
                for v, tb in t.arms:
                    for s in bb_.blocks[tb].stmts:
                        if s.kind == "=" and not s.place.proj and s.rv.kind == "use" and s.rv.ops[0].kind == "const" and \
                                (dst is None or s.place.local == dst):
                            if isinstance(v, int) and v < len(names):
                                out[names[v]] = s.rv.ops[0].info.get("v")
        return out
    groups = arm_consts(vg[0], 0)
    vers = arm_consts(hd[0], None)
    ok_all = True
    for var in names:
        if var == "Sprout":
            continue
        got = reader.get(var, set())
        want = {(True, vers.get(var), groups.get(var))}
        if got == want and None not in next(iter(want)):
            chk.ok("VERSION", "TxVersion::%s: read accepts exactly (overwintered, version %d, group id %#x), the pair "
                   "header() / version_group_id() emit" % (var, vers[var], groups[var]), sample=(var == "V5"))
        else:
            ok_all = False
            chk.fail("VERSION", "TxVersion::" + var, "TxVersion::read yields %s for %s but the writer emits (overwintered, "
                     "version %s, group id %s)" % (var, sorted(got, key=str), vers.get(var), groups.get(var)),
                     rd[0].span.loc())
    return ok_all


def rule_limit(chk, w):
    """Whatever the writers emit must parse: a reader may not refuse a length or count it has read
    from the stream by comparing it with a constant (CompactSize canonicity and its global bound live
    in zcash_encoding and are rule CANON's). The only such tests on the pinned tree are Block::read's
    "at least one transaction" checks, which serve as the rule's positive matches."""
    import guards as G
    n_ctrl = 0
    bad = []
    for f in sorted(w.fns.values(), key=lambda f: f.p):
        if f.crate.name not in ("zcash_primitives", "zcash_transparent") or vc.is_test(f) or not re.search(r"::read", f.p):
            continue
        b = f.body
        du = None
        for bi, blk in enumerate(b.blocks):
            if blk.cleanup:
                continue
            for s in blk.stmts:
                if not (s.kind == "=" and s.rv.kind == "agg" and s.rv.agg[0] == "adt" and
                        s.rv.agg[1] == "core::result::Result" and s.rv.agg[2] == "Err"):
                    continue
                du = du or defuse.DefUse(b)
                for sw, v, _tb in G.edge_conditions(b, bi):
                    o = du.origin(b.blocks[sw].term.discr)
                    t = defuse.show(o)
                    m = re.search(r"\((.*(?:CompactSize::read|read_t\(|CompactSize::read_t).*) (Gt|Ge|Lt|Le|Ne|Eq) (\d+)\)$", t) or \
                        re.search(r"\(((?:.*read\(&.*)) (Gt|Ge|Lt|Le) (\d+)\)$", t)
                    if not m:
                        continue
                    if m.group(2) == "Eq" and m.group(3) == "0" and f.p.endswith("block::Block::read"):
                        n_ctrl += 1
                        continue
                    bad.append((f, s.span.loc(), t[:120]))
    chk.analysed["limit_positive_matches"] = n_ctrl
    if n_ctrl < 1:
        chk.fail("LIMIT", "control", "the rule no longer matches Block::read's transaction-count tests: its pattern "
                 "has gone stale")
    else:
        chk.ok("LIMIT", "the pattern matches Block::read's %d transaction-count tests (positive control)" % n_ctrl)
    if bad:
        for f, loc, t in bad:
            chk.fail("LIMIT", "%s" % short(f.p), "%s refuses input when `%s`: a length the writer can emit no longer parses"
                     % (short(f.p), t), loc)
    else:
        chk.ok("LIMIT", "no codec reader refuses a length or count read from the stream against a constant", sample=True)


def rule_amount(chk, w, reached):
    n = 0
    for fid in sorted(reached):
        f = w.fns[fid]
        if f.crate.name not in ("zcash_primitives", "zcash_transparent") or vc.is_test(f):
            continue
        if "sprout" in f.p:
            continue
        ordn = 0
        for bb, t in f.body.calls():
            if f.body.blocks[bb].cleanup or t.callee.indirect is not None:
                continue
            p = t.callee.target_p()
            if UNCHECKED.search(p) and re.search(r"::read", f.p):
                chk.fail("AMOUNT", "%s/unchecked" % f.p, "%s builds an amount with %s while parsing"
                         % (short(f.p), p.rsplit("::", 1)[-1]), t.span.loc())
            if not AMOUNT_CTORS.search(p) or not re.search(r"::read", f.p):
                continue
            n += 1
            ordn += 1
            res = S.after_call(f.body, bb, S.E("Result", "Err"))
            rets = {rv for _b, rv in res.returns} if res is not None else {"?"}
            if res is not None and not res.too_big and rets <= {"variant:Err"}:
                chk.ok("AMOUNT", "%s: an out-of-range %s makes the parser return Err"
                       % (short(f.p), p.rsplit("::", 2)[-2] + "::" + p.rsplit("::", 1)[-1]), sample=True)
            else:
                chk.fail("AMOUNT", "%s#%d" % (f.p, ordn), "%s continues (returns %s) although %s "
                         "rejected the amount" % (short(f.p), sorted(rets), p.rsplit("::", 1)[-1]),
                         t.span.loc())
    # signedness: which amounts may be negative is the protocol's (vpub_old / vpub_new and output values
    # are non-negative, value balances are signed); each reader uses the constructor of that range
    SIGN = {"components::sprout::JsDescription::read": "nonnegative", "bundle::TxOut::read": "nonnegative",
            "transaction::Transaction::read_amount": "signed", "read_zip233_amount": "nonnegative"}
    seen_fn = set()
    for f in sorted(w.fns.values(), key=lambda f: f.p):
        if f.crate.name not in ("zcash_primitives", "zcash_transparent") or vc.is_test(f) or f.is_closure() or \
                not re.search(r"::read", f.p):
            continue
        for bb, t in f.body.calls():
            if f.body.blocks[bb].cleanup or t.callee.indirect is not None or not AMOUNT_CTORS.search(t.callee.target_p()):
                continue
            ctor = t.callee.target_p().rsplit("::", 1)[-1]
            kind = "signed" if ctor in ("from_i64_le_bytes", "from_i64") else "nonnegative"
            want = next((v for k_, v in SIGN.items() if f.p.endswith(k_)), None)
            seen_fn.add(f.p)
            if want is None:
                chk.fail("AMOUNT", "%s/unlisted" % short(f.p), "%s parses an amount (%s) but is not in the signedness "
                         "table of this rule" % (short(f.p), ctor), t.span.loc())
            elif want == kind:
                chk.ok("AMOUNT", "%s parses its %s amount with %s" % (short(f.p), want, ctor))
            else:
                chk.fail("AMOUNT", "%s/sign" % short(f.p), "%s parses an amount that must be %s with the %s constructor "
                         "%s: values outside the field's range are accepted" % (short(f.p), want, kind, ctor), t.span.loc())
    # every amount-typed event of the transaction layouts is a checked read
    for nm in (TB + "TxOut::read", T + "Transaction::read_amount"):
        f = w.by_p.get(nm, [])
        ev = wire.linear_events(w, f[0], "r") if len(f) == 1 else None
        chk_ev = [e for e in (ev or []) if e.enc.startswith("int:le:i64")]
        if chk_ev and all(e.checked for e in chk_ev):
            chk.ok("AMOUNT", "%s decodes its 8-byte amount with a range-checked constructor" % short(nm))
        else:
            chk.fail("AMOUNT", short(nm) + "/decode", "%s does not decode its amount with a "
                     "range-checked constructor (events %s)" % (short(nm), ev))
    # value balances are read with read_amount
    for nm, want in ((SAP + "read_v5_bundle", 1), (SAP + "read_v4_components", 1), (ORC + "read_bundle", 1)):
        f = w.by_p.get(nm, [])
        k = len([1 for _bb, t in f[0].body.calls() if t.callee.indirect is None and
                 t.callee.target_p().endswith("Transaction::read_amount")]) if len(f) == 1 else 0
        if k >= want:
            chk.ok("AMOUNT", "%s reads its value balance with Transaction::read_amount" % short(nm))
        else:
            chk.fail("AMOUNT", short(nm) + "/balance", "%s no longer reads its value balance with "
                     "Transaction::read_amount" % short(nm))
    return n


def _single(iset):
    return tuple(iset.ivs[0]) if iset is not None and len(iset.ivs) == 1 else None


def rule_canon(chk, w):
    # 1. the unbounded reader accepts exactly the canonical form (rows equal to the writer's)
    try:
        wr = w.fn("zcash_encoding::CompactSize::write_unbounded")
        rd = w.fn("zcash_encoding::CompactSize::read_unbounded")
        rb = w.fn("zcash_encoding::CompactSize::read")
    except KeyError as e:
        chk.fail("CANON", "missing", "CompactSize codec not found: %s" % e)
        return
    it = A.Interp(w, lambda f: False, {})
    it.analyse(wr)
    vk = A.p_key(A.p_sym(("arg", 1)))
    wrows = {}
    for s in it.sites:
        if s.kind == "unmodelled" and s.callee.endswith("write_all") and len(s.args) > 1:
            inner = s.args[1].val if isinstance(s.args[1], A.ARef) else s.args[1]
            rng = _single(s.state.facts.get(vk))
            if isinstance(inner, A._Bytes):
                wrows[rng] = wire.WIDTH.get(inner.ity)
            elif isinstance(inner, A.AStruct) and rng not in wrows:
                wrows.setdefault(rng, 0)
    it2 = A.Interp(w, lambda f: False, {})
    it2.record_aggs = {"core::result::Result"}
    it2.analyse(rd)
    rrows = {}
    for s in it2.sites:
        if s.kind == "enum-agg" and s.variant == "Ok":
            v = s.payload.get("0")
            if isinstance(v, A.AInt):
                m = re.match(r"from_le_bytes\((\w+),", A.p_str(v.lin) if v.lin is not None else "")
                rrows[_single(v.set)] = wire.WIDTH.get(m.group(1)) if m else 0
    if wrows and wrows == rrows and not it.undecided and not it2.undecided:
        chk.ok("CANON", "read_unbounded accepts each value only in the form write_unbounded gives it: %s"
               % ", ".join("[%d,%d]:%d bytes" % (r[0], r[1], 1 + n) for r, n in sorted(wrows.items())),
               sample=True)
    else:
        chk.fail("CANON", "canonical", "CompactSize::read_unbounded accepts %s but write_unbounded emits %s: "
                 "a non-canonical (or unreadable) length prefix exists" % (rrows, wrows), rd.span.loc())
    # 2. the bounded reader accepts at most MAX_COMPACT_SIZE
    mx = w.consts.get("zcash_encoding::MAX_COMPACT_SIZE", {}).get("v")
    it3 = A.Interp(w, lambda f: f.p == rd.p, {})
    it3.record_aggs = {"core::result::Result"}
    it3.analyse(rb)
    top = None
    for s in it3.sites:
        if s.kind == "enum-agg" and s.variant == "Ok" and s.fn.p == rb.p:
            v = s.payload.get("0")
            if isinstance(v, A.AInt) and v.set.ivs:
                top = max(top or 0, v.set.ivs[-1][1])
    if mx is not None and top is not None and top <= mx:
        chk.ok("CANON", "CompactSize::read returns Ok only for values <= MAX_COMPACT_SIZE = %d (max "
               "accepted %d)" % (mx, top), sample=True)
    else:
        chk.fail("CANON", "bounded", "CompactSize::read may return %s, above MAX_COMPACT_SIZE %s" % (top, mx),
                 rb.span.loc())
    # 3. collection readers use the bounded reader
    n = 0
    for f in sorted(w.fns.values(), key=lambda f: f.p):
        if not re.match(r"zcash_encoding::(Vector|Array|Optional)::read", f.p) or f.is_closure():
            continue
        cs = [t.callee.target_p() for _bb, t in f.body.calls() if t.callee.indirect is None and
              "CompactSize::" in t.callee.target_p()]
        if any("unbounded" in c for c in cs):
            chk.fail("CANON", f.p, "%s reads its count with the unbounded CompactSize reader" % f.p,
                     f.span.loc())
        elif cs:
            n += 1
            chk.ok("CANON", "%s reads its count with the bounded CompactSize reader" % f.p.split("::", 1)[1])
    rt = w.by_p.get("zcash_encoding::CompactSize::read_t", [])
    if rt and any(t.callee.target_p() == rb.p for _bb, t in rt[0].body.calls() if t.callee.indirect is None):
        chk.ok("CANON", "CompactSize::read_t goes through the bounded CompactSize::read")
    else:
        chk.fail("CANON", "read_t", "CompactSize::read_t does not go through CompactSize::read")
    return n > 0 and top is not None and mx is not None and top <= mx


def rule_hash(chk, w):
    # ---- BlockHeader
    fd = w.by_p.get("zcash_primitives::block::BlockHeader::from_data", [])
    if len(fd) != 1:
        chk.fail("HASH", "from_data/missing", "BlockHeader::from_data not found")
    else:
        f = fd[0]
        b = f.body
        du = defuse.DefUse(b)
        cps = [(bb, t) for bb, t in b.calls() if t.callee.indirect is None and
               t.callee.target_p().endswith("::copy_from_slice") and not b.blocks[bb].cleanup]
        wr = [(bb, t) for bb, t in b.calls() if t.callee.indirect is None and
              t.callee.target_p().endswith("BlockHeader::write") and not b.blocks[bb].cleanup]
        good = False
        if len(cps) == 1 and len(wr) == 1:
            dst = defuse.show(du.origin(cps[0][1].args[0]))
            src = defuse.show(du.origin(cps[0][1].args[1]))
            buf = defuse.show(du.origin(wr[0][1].args[1]))
            hdr = defuse.show(du.origin(wr[0][1].args[0]))
            m = re.match(r"&\*deref\(&digest\(digest\((.*)\)\)\)$", src)
            good = bool(m) and m.group(1) == buf and dst.endswith(".hash.0") and \
                dst.startswith(hdr.rstrip(")")) and "arg0" in hdr and \
                b.dominates(wr[0][0], cps[0][0]) and \
                all("sha2::Digest>::digest" in t.callee.target_p() or "Digest::digest" in (t.callee.p or "")
                    for _bb, t in b.calls() if t.callee.indirect is None and
                    t.callee.target_p().endswith("::digest"))
        if good:
            chk.ok("HASH", "BlockHeader::from_data: hash = SHA-256(SHA-256(bytes written by "
                   "BlockHeader::write for this data))", sample=True)
        else:
            chk.fail("HASH", "BlockHeader/from_data", "the header hash is not the double SHA-256 of the "
                     "header's own serialisation", f.span.loc())
        vc.vc1(chk, "HASH", w, "zcash_primitives::block::BlockHeader", r"block::BlockHeader::from_data$")
        rd = w.by_p.get("zcash_primitives::block::BlockHeader::read", [])
        defs0 = [t.callee.target_p() for _bb, t in rd[0].body.calls()
                 if t.dest is not None and t.dest.local == 0 and not t.dest.proj] if len(rd) == 1 else []
        stores0 = [s for blk in rd[0].body.blocks if not blk.cleanup for s in blk.stmts
                   if s.kind == "=" and s.place.local == 0] if len(rd) == 1 else [1]
        if defs0 and not stores0 and all(d.endswith("BlockHeader::from_data") or "FromResidual" in d
                                         for d in defs0) and \
                any(d.endswith("BlockHeader::from_data") for d in defs0):
            chk.ok("HASH", "BlockHeader::read returns BlockHeader::from_data(parsed fields)")
        else:
            chk.fail("HASH", "BlockHeader/read", "BlockHeader::read does not finish through from_data")
        # no store to .hash elsewhere
        for g in w.fns.values():
            if g.crate.name != "zcash_primitives" or vc.is_test(g) or g.id == f.id:
                continue
            for blk in g.body.blocks:
                for s in blk.stmts:
                    if s.kind == "=" and s.place.proj and ".hash" in s.place.proj and \
                            "block::BlockHeader" in g.body.local_ty(s.place.local):
                        chk.fail("HASH", "BlockHeader/hash-store/" + g.p, "%s overwrites a header's hash"
                                 % g.p, s.span.loc())
    # ---- v1-v4 transaction id
    rd = w.by_p.get(T + "Transaction::read", [])
    r4 = w.by_p.get(T + "Transaction::read_v4", [])
    f4 = w.by_p.get(T + "Transaction::from_data_v4", [])
    if len(rd) != 1 or len(r4) != 1 or len(f4) != 1:
        chk.fail("HASH", "tx/missing", "Transaction::read / read_v4 / from_data_v4 not found")
        return
    b = rd[0].body
    du = defuse.DefUse(b)
    calls = [(bb, t) for bb, t in b.calls() if not b.blocks[bb].cleanup and t.callee.indirect is None]
    hr = [(bb, t) for bb, t in calls if t.callee.target_p().endswith("HashReader::<R>::new")]
    tv = [(bb, t) for bb, t in calls if t.callee.target_p().endswith("TxVersion::read")]
    v4 = [(bb, t) for bb, t in calls if t.callee.target_p().endswith("Transaction::read_v4")]
    good = len(hr) == 1 and len(tv) == 1 and len(v4) == 1 and \
        defuse.show(du.origin(hr[0][1].args[0])) == "arg0" and \
        defuse.show(du.origin(tv[0][1].args[0])) == "&new(arg0)" and \
        defuse.show(du.origin(v4[0][1].args[0])) == "new(arg0)" and \
        b.dominates(hr[0][0], tv[0][0]) and b.dominates(tv[0][0], v4[0][0])
    # nothing else reads from the raw reader
    raw_use = [t.callee.target_p() for _bb, t in calls
               if any(defuse.show(du.origin(a)).lstrip("&*") == "arg0" for a in t.args)
               and not t.callee.target_p().endswith("HashReader::<R>::new")]
    if good and not raw_use:
        chk.ok("HASH", "Transaction::read wraps the reader in a HashReader before the first byte is "
               "read and hands that same HashReader to read_v4", sample=True)
    else:
        chk.fail("HASH", "tx/read-wrap", "Transaction::read does not hash everything it consumes for "
                 "v1-v4 (raw reader uses: %s)" % raw_use, rd[0].span.loc())
    b = r4[0].body
    du = defuse.DefUse(b)
    lin = wire.Linear(w, r4[0])
    stream = lin.stream_calls("r")
    ih = [(bb, t) for bb, t in b.calls() if t.callee.indirect is None and
          t.callee.target_p().endswith("HashReader::<R>::into_hash") and not b.blocks[bb].cleanup]
    agg = [s for blk in b.blocks if not blk.cleanup for s in blk.stmts
           if s.kind == "=" and s.rv.kind == "agg" and s.rv.agg[0] == "adt" and
           s.rv.agg[1] == T + "Transaction"]
    cps = [(bb, t) for bb, t in b.calls() if t.callee.indirect is None and
           t.callee.target_p().endswith("::copy_from_slice") and not b.blocks[bb].cleanup]
    good = False
    if len(ih) == 1 and len(agg) == 1 and stream:
        after = [bb for bb, _t in stream if bb in b.reachable(ih[0][0])]
        on_reader = all(any(re.match(r"&?\*?&?arg0$", defuse.show(du.origin(a)).replace("&*", "&"))
                            or defuse.show(du.origin(a)).lstrip("&*") == "arg0" for a in t.args)
                        for _bb, t in stream)
        txid = dict(zip(agg[0].rv.agg[3], agg[0].rv.ops)).get("txid")
        src = [defuse.show(du.origin(t.args[1])) for _bb, t in cps
               if "into_hash" in defuse.show(du.origin(t.args[1]))]
        good = not after and on_reader and txid is not None and \
            defuse.show(du.origin(txid)).startswith("from_bytes(") and len(src) == 1 and \
            defuse.show(du.origin(ih[0][1].args[0])) == "arg0"
    if good:
        chk.ok("HASH", "read_v4: every stream operation reads through the HashReader, into_hash "
               "follows the last of them and its digest becomes the txid", sample=True)
    else:
        chk.fail("HASH", "tx/read_v4", "read_v4's txid is not the hash of exactly the bytes it consumed",
                 r4[0].span.loc())
    b = f4[0].body
    du = defuse.DefUse(b)
    st = [defuse.show(du.origin(s.rv.ops[0])) for blk in b.blocks if not blk.cleanup for s in blk.stmts
          if s.kind == "=" and s.place.proj and s.place.proj[-1] == ".txid" and s.rv.ops]
    wr = [(bb, t) for bb, t in b.calls() if t.callee.indirect is None and
          t.callee.target_p().endswith("Transaction::write") and not b.blocks[bb].cleanup]
    if st == ["from_bytes(into(into_hash(default())))"] and len(wr) == 1 and \
            defuse.show(du.origin(wr[0][1].args[1])) == "&default()":
        chk.ok("HASH", "from_data_v4: txid = SHA-256d of what Transaction::write emits for the data")
    else:
        chk.fail("HASH", "tx/from_data_v4", "from_data_v4 sets txid from %s" % st, f4[0].span.loc())
    hrw = [g for g in w.fns.values() if re.search(r"sha256d::Hash(Reader::<R>|Writer)::into_hash$", g.p)]
    okd = 0
    for g in hrw:
        o = defuse.show(defuse.DefUse(g.body).origin_local(0))
        if re.search(r"digest\(.*finalize\(", o) or re.search(r"digest\(finalize", o):
            okd += 1
    if okd == len(hrw) == 2:
        chk.ok("HASH", "HashReader/HashWriter::into_hash = SHA-256(SHA-256 state finalised)")
    else:
        chk.fail("HASH", "sha256d", "into_hash is not SHA-256 of the finalised SHA-256 state (%d of %d)"
                 % (okd, len(hrw)))


REVIEWED = {
    "zcash_primitives::block::BlockHeader::from_data/len-call:copy_from_slice#1":
        ("a SHA-256 digest (32 bytes) copied into BlockHash([u8; 32])", []),
    T + "components::orchard::read_bundle/unwrap:expect:Option#1":
        ("NonEmpty::from_vec of a vector with one element per action, in the branch where the "
         "action list is not empty", ["G-actions-nonempty"]),
    T + "components::sapling::read_v5_bundle::{closure#3}/unwrap:unwrap:Option#1":
        ("anchor.unwrap() runs once per spend; with at least one spend n_spends > 0 and the anchor "
         "was read", ["G-anchor"]),
    T + "txid::to_hash/len-call:copy_from_slice#1": ("12-byte prefix into personal[..12]", ["G-prefix"]),
    T + "txid::to_hash_v6/len-call:copy_from_slice#1": ("12-byte prefix into personal[..12]", ["G-prefix"]),
    "<" + T + "txid::BlockTxCommitmentDigester as " + T + "TransactionDigest<" + T +
    "Authorized>>::combine/len-call:copy_from_slice#1": ("12-byte prefix into personal[..12]", ["G-prefix"]),
    T + "txid::to_hash/unwrap:unwrap:Result#1": ("4 bytes written into personal[12..] (16 - 12 = 4)", []),
    T + "txid::to_hash_v6/unwrap:unwrap:Result#1": ("4 bytes written into personal[12..]", []),
    "<" + T + "txid::BlockTxCommitmentDigester as " + T + "TransactionDigest<" + T +
    "Authorized>>::combine/unwrap:unwrap:Result#1": ("4 bytes written into personal[12..]", []),
    T + "txid::to_txid/unwrap:unwrap:Result#1":
        ("a BLAKE2b digest created by hasher() with hash_length(32) converted to [u8; 32]", ["G-hash32"]),
    T + "txid::transparent_outputs_hash/unwrap:unwrap:Result#1":
        ("TxOut::write into a hash state fails only if CompactSize::write rejects the script length; "
         "parsed scripts are at most MAX_COMPACT_SIZE long", ["G-vec-bounded"]),
    T + "txid::transparent_prevout_hash/unwrap:unwrap:Result#1":
        ("OutPoint::write has no failure of its own and the sink is a hash state", []),
    "<" + T + "txid::BlockTxCommitmentDigester as " + T + "TransactionDigest<" + T +
    "Authorized>>::digest_transparent/unwrap:unwrap:Result#1":
        ("Script::write into a hash state; parsed scripts are at most MAX_COMPACT_SIZE long",
         ["G-vec-bounded"]),
    "<" + T + "txid::BlockTxCommitmentDigester as " + T + "TransactionDigest<" + T +
    "Authorized>>::digest_sapling/bounds:index#1":
        ("shielded_spends()[0] under `!shielded_spends().is_empty()`", ["G-spends-nonempty"]),
    T + "Transaction::read_v4/len-call:copy_from_slice#1":
        ("a SHA-256d digest (32 bytes) copied into [u8; 32]", []),
}
for _who in ("TxIdDigester as " + T + "TransactionDigest<A>>::digest_orchard::{closure#0}",
             "TxIdDigester as " + T + "TransactionDigest<A>>::digest_ironwood::{closure#0}",
             "BlockTxCommitmentDigester as " + T + "TransactionDigest<" + T + "Authorized>>::digest_orchard::{closure#0}",
             "BlockTxCommitmentDigester as " + T + "TransactionDigest<" + T + "Authorized>>::digest_orchard::{closure#1}",
             "BlockTxCommitmentDigester as " + T + "TransactionDigest<" + T + "Authorized>>::digest_ironwood::{closure#0}",
             "BlockTxCommitmentDigester as " + T + "TransactionDigest<" + T + "Authorized>>::digest_ironwood::{closure#1}"):
    REVIEWED["<" + T + "txid::" + _who + "/unwrap:expect:Result#1"] = (
        "orchard's commitment functions fail only for an Ironwood-pool bundle under the v5 format; the "
        "Orchard slot is committed under (Orchard, v5|v6) and the Ironwood slot, which only the v6 "
        "reader fills, under (Ironwood, v6)", ["G-domains", "G-ironwood-v6"])
for _who in ("to_hash::{closure#0}", "to_hash_v6::{closure#0}", "to_hash_v6::{closure#1}"):
    REVIEWED[T + "txid::" + _who + "/unwrap:expect:Result#1"] = (
        "empty-bundle commitment under (Orchard, v5|v6) / (Ironwood, v6): never the failing "
        "combination", ["G-domains"])
UNREACHABLE = re.compile(r"^<?zcash_protocol::memo::")
UNREACHABLE_WHY = ("class-hierarchy over-approximation: the only unresolved TryFrom call on the parse "
                   "path is CompactSize::read_t::<_, T: TryFrom<u64>>, which the memo conversions "
                   "(TryFrom<&MemoBytes>) cannot instantiate")


def guards(chk, w, canon_ok):
    g = {"G-vec-bounded": bool(canon_ok)}
    # prefixes are 12 bytes
    pre = [c for n, c in w.consts.items() if n.startswith(T + "txid::") and n.endswith("PERSONALIZATION_PREFIX")]
    g["G-prefix"] = len(pre) >= 2 and all(re.search(r"\[u8; 12\]$", c.get("ty") or "") for c in pre)
    # hasher() fixes a 32-byte digest
    h = w.by_p.get(T + "txid::hasher", [])
    g["G-hash32"] = len(h) == 1 and "hash_length(&new(), 32)" in \
        defuse.show(defuse.DefUse(h[0].body).origin_local(0))
    # commitment domains
    ocd = w.by_p.get(T + "txid::orchard_commitment_domain", [])
    iwd = w.by_p.get(T + "txid::ironwood_v6_domain", [])
    okd = len(ocd) == 1 and len(iwd) == 1
    if okd:
        pools = []
        for f in (ocd[0], iwd[0]):
            for blk in f.body.blocks:
                for s in blk.stmts:
                    if s.kind == "=" and s.rv.kind == "agg" and s.rv.agg[0] == "tuple" and len(s.rv.ops) == 2:
                        du = defuse.DefUse(f.body)
                        pools.append((f.p.rsplit("::", 1)[-1],
                                      defuse.show(du.origin(s.rv.ops[0])).rsplit("::", 1)[-1].strip("{}"),
                                      defuse.show(du.origin(s.rv.ops[1])).rsplit("::", 1)[-1].strip("{}")))
        okd = {p for n, p, _v in pools if n == "orchard_commitment_domain"} == {"Orchard"} and \
            [(p, v) for n, p, v in pools if n == "ironwood_v6_domain"] == [("Ironwood", "V6")]
    g["G-domains"] = okd
    # only the v6 reader fills the Ironwood slot
    okv = True
    for v in ("read_v4", "read_v5"):
        f = w.by_p.get(T + "Transaction::" + v, [])
        if len(f) != 1:
            okv = False
            continue
        du = defuse.DefUse(f[0].body)
        found = False
        for blk in f[0].body.blocks:
            for s in blk.stmts:
                if s.kind == "=" and s.rv.kind == "agg" and s.rv.agg[0] == "adt" and \
                        s.rv.agg[1] == T + "TransactionData":
                    d = dict(zip(s.rv.agg[3], s.rv.ops))
                    found = True
                    if "ironwood_bundle" not in d or \
                            not defuse.show(du.origin(d["ironwood_bundle"])).endswith("Option::None{}"):
                        okv = False
        okv = okv and found
    g["G-ironwood-v6"] = okv
    # structural guards of two expects
    rb = w.by_p.get(ORC + "read_bundle", [])
    g["G-actions-nonempty"] = False
    if len(rb) == 1:
        b = rb[0].body
        du = defuse.DefUse(b)
        ex = [bb for bb, t in b.calls() if t.callee.indirect is None and
              t.callee.target_p().endswith("Option::<T>::expect") and not b.blocks[bb].cleanup]
        for sb, blk in enumerate(b.blocks):
            t = blk.term
            if t.kind == "switch" and defuse.show(du.origin(t.discr)).startswith("is_empty("):
                tgt = dict(t.arms).get(0)
                if tgt is not None and ex and all(b.dominates(tgt, e) for e in ex):
                    g["G-actions-nonempty"] = True
    sb5 = w.by_p.get(SAP + "read_v5_bundle", [])
    g["G-anchor"] = False
    if len(sb5) == 1:
        src = zf.fn_source(extract.REPO, sb5[0])
        b = sb5[0].body
        du = defuse.DefUse(b)
        # anchor is Some exactly when n_spends > 0, and the closure runs per element of the spends
        rbase = [(bb, t) for bb, t in b.calls() if t.callee.indirect is None and
                 t.callee.target_p().endswith("sapling::read_base")]
        ok_ = False
        for bb, _t in rbase:
            sw = vc.controlling_switch(b, bb)
            if sw is not None:
                o = defuse.show(du.origin(b.blocks[sw].term.discr))
                ok_ = ok_ or bool(re.search(r"len\(.*\) Gt 0\)|Gt 0", o))
        g["G-anchor"] = ok_ and "into_iter" in src
    ds = [f for f in w.fns.values() if f.p.endswith("digest_sapling") and "BlockTxCommitmentDigester" in f.p]
    g["G-spends-nonempty"] = False
    if len(ds) == 1:
        b = ds[0].body
        du = defuse.DefUse(b)
        for bb, blk in enumerate(b.blocks):
            t = blk.term
            if t.kind == "assert" and t.msg[0] == "BoundsCheck":
                doms = [sb for sb, bl in enumerate(b.blocks) if bl.term.kind == "switch" and
                        b.dominates(sb, bb) and "is_empty(" in defuse.show(du.origin(bl.term.discr))]
                g["G-spends-nonempty"] = bool(doms)
    for k, v in sorted(g.items()):
        if v:
            chk.ok("G", "%s holds" % k)
        else:
            chk.fail("G", k, "guard %s, which reviewed panic sites rely on, no longer holds" % k)
    return g


def rule_pf(chk, w, g):
    ents = []
    for n in (T + "Transaction::read", "zcash_primitives::block::BlockHeader::read", T + "TxVersion::read"):
        f = w.by_p.get(n, [])
        if len(f) != 1:
            chk.fail("PF", "entry/" + n, "parser entry point %s not found" % n)
        else:
            ents.append(f[0])

    def scope(f):
        return f.crate.name in ("zcash_primitives", "zcash_transparent", "zcash_encoding", "zcash_protocol")
    sites, parent, reached = panics.reachable_sites(w, ents, scope)
    chk.analysed.update({"functions_reachable_from_parsers": len(reached),
                         "class_A_sites": len([1 for _f, s, _k in sites if s["cls"] == "A"]),
                         "class_B_sites_inventoried_not_armed": len([1 for _f, s, _k in sites if s["cls"] == "B"])})
    used = set()
    import pf_stable
    pf_stable.extend(REVIEWED)
    for f, s, key in sites:
        key = panics.resolve_key(REVIEWED, key, s)
        if s["cls"] != "A":
            continue
        loc = s["span"].loc()
        auto = panics.auto_discharge(f, s)
        if auto:
            chk.ok("PF", "%s [%s]: %s" % (short(key), loc, auto))
        elif UNREACHABLE.search(f.p):
            chk.ok("PF", "%s: not on the parse path" % short(key))
            chk.exception("PF", key, UNREACHABLE_WHY)
        elif key in REVIEWED:
            used.add(key)
            why, req = REVIEWED[key]
            missing = [x for x in req if not g.get(x)]
            if missing:
                chk.fail("PF", key, "panic site relies on guard(s) %s which no longer hold (%s)"
                         % (missing, why), loc, [w.fns[x].p for x in w.path_to(parent, f.id)])
            else:
                chk.ok("PF", "%s [%s]: reviewed — %s" % (short(key), loc, why), sample=len(used) <= 3)
                chk.exception("PF", key, why)
        else:
            chk.fail("PF", key, "panic site (%s %s) reachable from the transaction / header parsers and "
                     "not discharged: a crafted byte string may abort the process" % (s["kind"], s["detail"]),
                     loc, [w.fns[x].p for x in w.path_to(parent, f.id)])
    return reached


def main(tier):
    chk = Check("C03", "other", tier)
    chk.explanation = (
        "Structural clauses of C03: for 23 codec pairs - up to the whole of Transaction::read against "
        "Transaction::write with nested codecs expanded - every layout the writer can emit is one the "
        "reader follows, field by field (loop-free path enumeration over MIR, lib/wire.py); version "
        "dispatch agrees between read, write and from_data; parsed amounts go through range-checked "
        "constructors whose failure is an error; CompactSize readers are canonical and bounded "
        "(abstract interpretation); header hash and v1-v4 txid are SHA-256d of exactly the "
        "serialisation / the bytes consumed; no undischarged panic site is reachable from the parsers. "
        "Not decided: value-level round trip (point/field canonicity is in external crates), "
        "'never reads past what it reports', Sprout JoinSplits.")
    chk.trusted = ["rustc MIR", "external crates (sapling-crypto, orchard, sha2, blake2b_simd) parse and "
                   "serialise their own types faithfully and do not panic", "C09 for the amount "
                   "constructors", "reviewed panic-site arguments listed in rules/c03.py"]
    chk.rule("WIRE", "writer layouts are reader layouts, field by field", floor=23)
    chk.rule("DISPATCH", "read / write / from_data agree on the version dispatch", floor=7)
    chk.rule("VERSION", "TxVersion::read accepts exactly the (version, group id) pairs the writer emits", floor=4)
    chk.rule("LIMIT", "readers do not refuse lengths the writers can emit", floor=2)
    chk.rule("AMOUNT", "amounts are parsed through range-checked constructors; failure is Err", floor=7)
    chk.rule("CANON", "CompactSize readers are canonical and bounded", floor=4)
    chk.rule("HASH", "header hash / v1-v4 txid are SHA-256d of the serialisation", floor=8)
    chk.rule("G", "guards the reviewed panic sites rely on", floor=8)
    chk.rule("PF", "no undischarged class-A panic site reachable from the parsers", floor=60)
    chk.rule("control", "positive controls", floor=2)

    w = zf.World(extract.facts_dir("all"))
    attr = rule_wire(chk, w)
    rule_dispatch(chk, w)
    rule_version_table(chk, w)
    rule_version_predicates(chk, w)
    rule_amount_range(chk, w)
    rule_limit(chk, w)
    canon_ok = rule_canon(chk, w)
    rule_hash(chk, w)
    g = guards(chk, w, canon_ok)
    reached = rule_pf(chk, w, g)
    rule_amount(chk, w, reached)

    # controls
    if attr >= 60:
        chk.ok("control", "%d field attributions were compared (the matcher is not running blind)" % attr)
    else:
        chk.fail("control", "attributions", "only %d field attributions compared" % attr)
    # a reader compared with the WRONG writer must not match
    a = w.by_p.get(TB + "OutPoint::read", [])
    bwr = w.by_p.get(TB + "TxOut::write", [])
    if a and bwr and wire.includes(w, a[0], bwr[0])[0] is False:
        chk.ok("control", "OutPoint::read does not accept TxOut::write's layout")
    else:
        chk.fail("control", "cross-pair", "control not flagged")
    chk.finish()
