"""C10 — address strings: ZIP 316 enforced, tables agree, jumbling is a Feistel bijection, no panic.

Decided on the MIR of zcash_address, f4jumble, zcash_protocol::constants/consensus (structural):
  TABLE   the decoder's prefix tables are the inverse of the encoder's: for every address kind and
          network the HRP / Base58Check prefix Display emits is one FromStr maps back to the same
          kind and network (exception, as documented: regtest shares the testnet Base58 prefixes
          and decodes as testnet); unified containers use the zcash_protocol HRPs and
          network_hrp / hrp_network are mutual inverses; Typecode <-> u32 tables are inverse
  NET     the ToAddress constructors of ZcashAddress store the caller's network (constant propagation
          per NetworkType variant, through helper functions) except where the kind's prefix is the same
          on both networks; convert hands self.net and the matching payload on; convert_if_network
          uses the relaxed regtest/testnet comparison only for kinds sharing the prefix
  ZIP316  containers are built only by from_inner, called only by try_from_items_internal after the
          order / duplicate / P2PKH+P2SH / only-transparent rejections, each live and not
          bypassable; parse_items refuses a failed un-jumbling, an over-long HRP, padding that is
          not the HRP, and truncated items; item conversions build known items only through the
          length-checked conversion and preserve unknown items (typecode and bytes)
  F4      f4jumble / f4jumble_inv check the same VALID_LENGTH; the inverse runs the same rounds in
          reverse order; each round XORs one half with a hash of the OTHER half only (an
          involution), the halves come from one split_at_mut — so the transform is a
          length-preserving bijection on valid lengths
  PF      no undischarged class-A panic site reachable from the string / byte decoders
Not decided: that encode(decode(s)) == s for every accepted string (Bech32/Base58 are external),
canonical re-encoding, zcash_keys' typed conversions beyond panic-freedom.
"""
import re

import absint as A
import assume as S
import defuse
import extract
import panics
import sqlfx
import vc
import zf
from common import Check

ZA = "zcash_address::"
UNI = ZA + "kind::unified::"
SC = UNI + "private::SealedContainer::"
NC = "<zcash_protocol::consensus::NetworkType as zcash_protocol::consensus::NetworkConstants>::"
NETS = ["Main", "Test", "Regtest"]


def _calls(body, rx):
    return [(bb, t) for bb, t in body.calls() if not body.blocks[bb].cleanup and
            t.callee.indirect is None and re.search(rx, t.callee.target_p())]


def const_value(w, name):
    """value of a constant: int / str / list of ints for a byte-array constant"""
    c = w.consts.get(name)
    if c is None:
        return None
    if c.get("v") is not None:
        return c["v"]
    if c.get("str") is not None:
        return c["str"]
    f = w.by_p.get(name, [])
    if f:
        for blk in f[0].body.blocks:
            for s in blk.stmts:
                if s.kind == "=" and s.rv.kind == "agg" and s.rv.agg[0] == "array":
                    vals = [o.info.get("v") for o in s.rv.ops if o.kind == "const"]
                    if len(vals) == len(s.rv.ops):
                        return tuple(vals)
    return None


def accessor_table(w, name):
    """NetworkType variant -> constant value returned by a NetworkConstants accessor"""
    f = w.by_p.get(NC + name, [])
    if len(f) != 1:
        return None
    b = f[0].body
    du = defuse.DefUse(b)
    out = {}
    for blk in b.blocks:
        t = blk.term
        if t.kind != "switch":
            continue
        arms = list(t.arms) + ([("o", t.otherwise)] if t.otherwise is not None else [])
        for v, tb in arms:
            if not isinstance(v, int) or v >= len(NETS):
                continue
            for s in b.blocks[tb].stmts:
                if s.kind == "=" and s.place.local == 0 and s.rv.ops:
                    o = du.origin(s.rv.ops[0])
                    val = o[1] if o[0] == "const" else (const_value(w, o[1]) if o[0] == "constdef" else None)
                    out[NETS[v]] = val
    return out


def encoder_kinds(w):
    """AddressKind variant -> (accessor name or 'unified', encoder fn with checksum)"""
    f = [g for g in w.fns.values() if g.p.endswith("core::fmt::Display for zcash_address::ZcashAddress>::fmt")]
    if len(f) != 1:
        return None
    b = f[0].body
    kinds = [v["name"] for v in w.adts[ZA + "AddressKind"]["variants"]]
    out = {}
    for blk in b.blocks:
        t = blk.term
        if t.kind != "switch" or len(t.arms) < 4:
            continue
        reach = {v: b.reachable(tb) | {tb} for v, tb in t.arms}
        for v, tb in t.arms:
            region = reach[v] - set().union(*[r for u, r in reach.items() if u != v])
            acc, enc = None, None
            for rb in sorted(region):
                tt = b.blocks[rb].term
                if tt.kind == "call" and tt.callee.indirect is None:
                    p = tt.callee.target_p()
                    m = re.search(r"NetworkConstants>::(\w+)$", p)
                    if m:
                        acc = m.group(1)
                    if p.endswith("unified::Encoding::encode"):
                        acc = "unified"
                    if re.search(r"encoding::encode_(b58|bech32)", p):
                        full = getattr(tt.callee, "full", None) or p
                        enc = "b58" if "encode_b58" in p else ("bech32m" if "Bech32m" in full else "bech32")
            if isinstance(v, int) and v < len(kinds):
                out[kinds[v]] = (acc, enc)
    return out


def decoder_tables(w):
    """(hrp table: literal -> (checksum, net, kind)), (b58 net table: (b0,b1) -> net),
    (b58 kind table: (b0,b1) -> kind)"""
    f = w.by_p.get(ZA + "encoding::<impl core::str::FromStr for zcash_address::ZcashAddress>::from_str", [])
    if len(f) != 1:
        return None
    b = f[0].body
    du = defuse.DefUse(b)
    news = []
    for bb, t in _calls(b, r"CheckedHrpstring::<'s>::new$"):
        full = getattr(t.callee, "full", None) or ""
        news.append((bb, "bech32m" if "Bech32m" in full else "bech32"))
    # HRP tests: string comparisons in from_str itself, or in a private helper it hands the HRP to
    # (`fn sapling_hrp_network(hrp: &str) -> Option<NetworkType>`); each belongs to the checksum group
    # (CheckedHrpstring::new::<Ck>) that dominates its site in from_str
    tests = []          # (site block in from_str, literal, net)

    def eq_tests(body, site_of):
        d2 = defuse.DefUse(body)
        for bb, t in _calls(body, r"PartialEq for str>::eq$"):
            lit = defuse.show(d2.origin(t.args[1])).strip("&*'")
            res = S.after_call(body, bb, S.B(True), stop_at=lambda b2, t2: t2.callee.indirect is None and
                               re.search(r"PartialEq for str>::eq$", t2.callee.target_p()) is not None)
            net = None
            for _b2, a in (res.aggs if res else []):
                if a.rv.agg[1].endswith("consensus::NetworkType") and net is None:
                    net = a.rv.agg[2]
            tests.append((site_of(bb), lit, net))
    eq_tests(b, lambda bb: bb)
    for cb, t in b.calls():
        if b.blocks[cb].cleanup or t.callee.indirect is not None:
            continue
        g = w.fns.get(t.callee.target_id())
        if g is not None and g.body is not None and g.crate.name == "zcash_address" and not g.is_closure() and \
                g.id != f[0].id and _calls(g.body, r"PartialEq for str>::eq$") and "consensus::NetworkType" in (g.output or ""):
            eq_tests(g.body, lambda _bb, cb=cb: cb)

    def group_of(bb):
        grp = [(nb, ck) for nb, ck in news if b.dominates(nb, bb)]
        grp = sorted(grp, key=lambda x, _all=list(grp): len([1 for y in _all if b.dominates(y[0], x[0])]))
        return grp[-1][1] if grp else None
    hrp = {lit: (group_of(site), net) for site, lit, net in tests}
    # the kind each checksum group builds: AddressKind constructors (a constructor handed to a combinator, or
    # an aggregate) dominated by one of its tests
    kind_of = {}
    sites = {site: group_of(site) for site, _l, _n in tests if group_of(site)}
    for mb, blk in enumerate(b.blocks):
        if blk.cleanup:
            continue
        kinds = []
        tt = blk.term
        if tt.kind == "call":
            for a in tt.args:
                o = du.origin(a)
                if o[0] == "fn" and o[1] and "AddressKind::" in o[1]:
                    kinds.append(o[1].rsplit("::", 1)[-1])
        for st in blk.stmts:
            if st.kind == "=" and st.rv.kind == "agg" and st.rv.agg[0] == "adt" and st.rv.agg[1].endswith("::AddressKind"):
                kinds.append(st.rv.agg[2])
        for k in kinds:
            for site, ck in sites.items():
                if b.dominates(site, mb):
                    kind_of.setdefault(ck, set()).add(k)
    kind_of = {k: sorted(v) for k, v in kind_of.items()}
    hrp = {k: (ck, net, (kind_of.get(ck) or [None])[0] if len(kind_of.get(ck) or []) == 1 else None)
           for k, (ck, net) in hrp.items()}
    # base58: nested switches over the two prefix bytes
    def byte_switch(bi, which):
        t = b.blocks[bi].term
        o = du.origin(t.discr) if t.kind == "switch" else None
        return o is not None and o[0] == "proj" and o[2] == "[%d of 2]" % which

    def leaf(bi, pred, depth=0):
        """first value along the unique forward path from bi satisfying pred"""
        seen = 0
        while bi is not None and seen < 12:
            seen += 1
            r = pred(bi)
            if r is not None:
                return r
            tt = b.blocks[bi].term
            bi = tt.target if tt.kind in ("goto", "call", "drop") else None
        return None

    def net_at(bi):
        for s in b.blocks[bi].stmts:
            if s.kind == "=" and s.rv.kind == "agg" and s.rv.agg[0] == "adt" and \
                    s.rv.agg[1].endswith("consensus::NetworkType"):
                return s.rv.agg[2]
        return None

    def kind_at(bi):
        tt = b.blocks[bi].term
        if tt.kind == "call":
            for a in tt.args:
                o = du.origin(a)
                if o[0] == "fn" and o[1] and "AddressKind::" in o[1]:
                    return o[1].rsplit("::", 1)[-1]
        return None
    nets, kinds = {}, {}
    for bi, blk in enumerate(b.blocks):
        if blk.cleanup or not byte_switch(bi, 0):
            continue
        for v0, t0 in blk.term.arms:
            if not byte_switch(t0, 1):
                continue
            for v1, t1 in b.blocks[t0].term.arms:
                n = leaf(t1, net_at)
                k = leaf(t1, kind_at)
                if n is not None:
                    nets[(v0, v1)] = n
                if k is not None:
                    kinds[(v0, v1)] = k
    return hrp, nets, kinds


def rule_table(chk, w):
    enc = encoder_kinds(w)
    dec = decoder_tables(w)
    if not enc or not dec:
        chk.fail("TABLE", "missing", "Display / FromStr for ZcashAddress not found")
        return
    hrp, b58net, b58kind = dec
    chk.analysed["decoder_hrp_table"] = {k: list(v) for k, v in hrp.items()}
    chk.analysed["decoder_b58_table"] = {"%d,%d" % k: (b58net.get(k), b58kind.get(k)) for k in
                                         sorted(set(b58net) | set(b58kind))}
    for kind, (acc, how) in sorted(enc.items()):
        if acc == "unified":
            chk.ok("TABLE", "AddressKind::Unified is encoded by unified::Encoding::encode")
            continue
        tab = accessor_table(w, acc) if acc else None
        if not tab or set(tab) != set(NETS) or None in tab.values():
            chk.fail("TABLE", "encoder/%s" % kind, "no complete prefix table for AddressKind::%s (accessor "
                     "%s: %s)" % (kind, acc, tab))
            continue
        for net in NETS:
            c = tab[net]
            key = "%s/%s" % (kind, net)
            if how == "b58":
                got = (b58net.get(tuple(c)), b58kind.get(tuple(c)))
            else:
                e = hrp.get(c)
                got = (e[1], e[2]) if e and e[0] == how else (None, None)
            if got == (net, kind):
                chk.ok("TABLE", "%s on %s: prefix %s decodes to the same kind and network" % (kind, net, c),
                       sample=(net == "Main"))
            elif how == "b58" and net == "Regtest" and c == tab["Test"] and got == ("Test", kind):
                chk.ok("TABLE", "%s on Regtest shares the testnet prefix %s and decodes as Test (documented)"
                       % (kind, c))
                chk.exception("TABLE", key, "documented sharing of transparent and Sprout prefixes between "
                              "testnet and regtest")
            else:
                chk.fail("TABLE", key, "AddressKind::%s on %s is encoded with prefix %r (%s), which the "
                         "parser maps to %s" % (kind, net, c, how, got))
    # every decoder entry has an encoder
    encoded = set()
    for kind, (acc, how) in enc.items():
        tab = accessor_table(w, acc) if acc and acc != "unified" else {}
        for net, c in (tab or {}).items():
            encoded.add((tuple(c) if how == "b58" else c, kind))
    for lit, (ck, net, kind) in sorted(hrp.items()):
        if (lit, kind) in encoded:
            chk.ok("TABLE", "parser prefix %r (%s) is one the encoder emits for %s" % (lit, ck, kind))
        else:
            chk.fail("TABLE", "decoder/%s" % lit, "the parser accepts the prefix %r as %s on %s but no "
                     "encoder emits it for that kind" % (lit, kind, net))
    for pfx, kind in sorted(b58kind.items()):
        if (pfx, kind) in encoded:
            chk.ok("TABLE", "parser Base58 prefix %s is one the encoder emits for %s" % (list(pfx), kind))
        else:
            chk.fail("TABLE", "decoder/b58/%d,%d" % pfx, "the parser accepts the Base58 prefix %s as %s but "
                     "no encoder emits it for that kind" % (list(pfx), kind))
    # unified containers
    for cont, acc in (("address::Address", "hrp_unified_address"), ("fvk::Ufvk", "hrp_unified_fvk"),
                      ("ivk::Uivk", "hrp_unified_ivk")):
        tab = accessor_table(w, acc) or {}
        got = {n: (w.consts.get("<%s%s as %sprivate::SealedContainer>::%s" % (UNI, cont, UNI, n.upper() + "NET"
                                                                            if n != "Regtest" else "REGTEST"))
                   or {}).get("str") for n in NETS}
        if tab and got == tab:
            chk.ok("TABLE", "%s uses the zcash_protocol HRPs %s" % (cont.rsplit("::", 1)[-1], sorted(tab.values())))
        else:
            chk.fail("TABLE", "unified/%s" % cont, "%s declares the HRPs %s, zcash_protocol %s" % (cont, got, tab))
    nh, hn = w.by_p.get(SC + "network_hrp", []), w.by_p.get(SC + "hrp_network", [])
    if len(nh) == 1 and len(hn) == 1:
        b = nh[0].body
        du = defuse.DefUse(b)
        fwd = {}
        for blk in b.blocks:
            t = blk.term
            if t.kind == "switch":
                for v, tb in list(t.arms) + [("o", t.otherwise)]:
                    if isinstance(v, int) and v < 3:
                        for s in b.blocks[tb].stmts:
                            if s.kind == "=" and s.place.local == 0 and s.rv.ops:
                                fwd[NETS[v]] = defuse.show(du.origin(s.rv.ops[0])).rsplit("::", 1)[-1].strip("')")
        b = hn[0].body
        du = defuse.DefUse(b)
        back = {}
        for bb, t in _calls(b, r"PartialEq<&B> for &A>::eq$|PartialEq for str>::eq$"):
            c = defuse.show(du.origin(t.args[1])).rsplit("::", 1)[-1].strip("')&")
            res = S.after_call(b, bb, S.B(True))
            n = [a.rv.agg[2] for _b2, a in (res.aggs if res else []) if a.rv.agg[1].endswith("NetworkType")]
            if n:
                back[n[0]] = c
        if fwd and fwd == back and set(fwd) == set(NETS):
            chk.ok("TABLE", "network_hrp and hrp_network are inverse tables (%s)" % fwd, sample=True)
        else:
            chk.fail("TABLE", "unified/hrp-inverse", "network_hrp maps %s but hrp_network maps back %s"
                     % (fwd, back), hn[0].span.loc())
    else:
        chk.fail("TABLE", "unified/missing", "network_hrp / hrp_network not found")
    # Typecode <-> u32
    tf = [g for g in w.fns.values() if g.p == "<zcash_address::kind::unified::Typecode as core::convert::TryFrom<u32>>::try_from"]
    fr = [g for g in w.fns.values() if g.p.endswith("From<zcash_address::kind::unified::Typecode> for u32>::from")]
    if len(tf) == 1 and len(fr) == 1:
        it = A.Interp(w, lambda f: False, {})
        it.record_aggs = {UNI + "Typecode", "core::result::Result"}
        it.analyse(tf[0])
        k = A.p_key(A.p_sym(("arg", 0)))
        dec_t = {}
        for s in it.sites:
            if s.kind == "enum-agg" and s.adt == UNI + "Typecode":
                iv = s.state.facts.get(k)
                dec_t[s.variant] = tuple(iv.ivs[0]) if iv is not None and len(iv.ivs) == 1 else None
        b = fr[0].body
        du = defuse.DefUse(b)
        vnames = [v["name"] for v in w.adts[UNI + "Typecode"]["variants"]]
        enc_t = {}
        for blk in b.blocks:
            t = blk.term
            if t.kind == "switch":
                for v, tb in list(t.arms) + [("o", t.otherwise)]:
                    if isinstance(v, int) and v < len(vnames):
                        for s in b.blocks[tb].stmts:
                            if s.kind == "=" and s.place.local == 0 and s.rv.ops:
                                o = du.origin(s.rv.ops[0])
                                enc_t[vnames[v]] = o[1] if o[0] == "const" else defuse.show(o)
        good = bool(dec_t) and all(dec_t.get(n) == (enc_t.get(n), enc_t.get(n)) for n in vnames if n != "Unknown") \
            and dec_t.get("Unknown") is not None and "Unknown" in str(enc_t.get("Unknown", "")) and \
            dec_t["Unknown"][0] == max(v for v in enc_t.values() if isinstance(v, int)) + 1 and \
            dec_t["Unknown"][1] == (w.consts.get("zcash_encoding::MAX_COMPACT_SIZE") or {}).get("v")
        if good:
            chk.ok("TABLE", "Typecode::try_from(u32) and u32::from(Typecode) are inverse (%s; Unknown for %s)"
                   % ({n: enc_t[n] for n in vnames if n != "Unknown"}, dec_t["Unknown"]), sample=True)
        else:
            chk.fail("TABLE", "typecode", "typecode tables disagree: u32 -> Typecode %s, Typecode -> u32 %s; unknown "
                     "typecodes must be accepted from the first unassigned value up to MAX_COMPACT_SIZE = %s, the "
                     "largest the container codec can carry" % (dec_t, enc_t, (w.consts.get("zcash_encoding::MAX_COMPACT_SIZE")
                                                                      or {}).get("v")), tf[0].span.loc())
    else:
        chk.fail("TABLE", "typecode/missing", "Typecode conversions not found")


NT = "zcash_protocol::consensus::NetworkType"


def net_values(w, f, v, depth=0):
    """Constant propagation of one NetworkType parameter: with the parameter fixed to NETS[v],
    walk the (then deterministic) CFG of f and return (list of (block, stmt) ZcashAddress / return
    observations, env) where env maps a local to 'Main'|'Test'|'Regtest'. None when a branch on
    something else than that parameter is met before the observation (undecided)."""
    b = f.body
    params = [i + 1 for i, t in enumerate(f.inputs) if t == NT]
    if len(params) != 1 or depth > 3:
        return None
    env = {params[0]: NETS[v]}
    disc = {}
    out = []
    bi, steps = 0, 0
    while steps < 200:
        steps += 1
        blk = b.blocks[bi]
        for s in blk.stmts:
            if s.kind != "=" or s.place.proj:
                continue
            r, d = s.rv, s.place.local
            env.pop(d, None)
            disc.pop(d, None)
            if r.kind == "use" and r.ops[0].kind in ("copy", "move") and not r.ops[0].place.proj:
                src = r.ops[0].place.local
                if src in env:
                    env[d] = env[src]
                if src in disc:
                    disc[d] = disc[src]
            elif r.kind == "agg" and r.agg[0] == "adt" and r.agg[1] == NT:
                env[d] = r.agg[2]
            elif r.kind == "disc" and not r.place.proj and r.place.local in env:
                disc[d] = NETS.index(env[r.place.local])
            elif r.kind == "agg" and r.agg[0] == "adt" and r.agg[1] == ZA + "ZcashAddress":
                o = r.ops[0]
                out.append(("agg", s, env.get(o.place.local) if o.kind in ("copy", "move") and
                            not o.place.proj else None))
        t = blk.term
        if t.kind == "return":
            out.append(("ret", None, env.get(0)))
            return out
        if t.kind == "goto":
            bi = t.target
        elif t.kind == "switch":
            d = t.discr
            if d.kind not in ("copy", "move") or d.place.proj or d.place.local not in disc:
                return None
            val = disc[d.place.local]
            bi = dict(t.arms).get(val, t.otherwise)
        elif t.kind == "call" and t.target is not None:
            g = w.fns.get(t.callee.target_id()) if t.callee.indirect is None else None
            if t.dest is not None and not t.dest.proj:
                env.pop(t.dest.local, None)
                a = [x for x in t.args if x.kind in ("copy", "move") and not x.place.proj and x.place.local in env]
                if g is not None and g.output == NT and len(a) == 1 and len(t.args) == 1:
                    sub = net_values(w, g, NETS.index(env[a[0].place.local]), depth + 1)
                    rets = [x[2] for x in (sub or []) if x[0] == "ret"]
                    if len(rets) == 1 and rets[0] is not None:
                        env[t.dest.local] = rets[0]
            bi = t.target
        elif t.kind == "drop":
            bi = t.target
        else:
            return None
    return None


def rule_net(chk, w):
    """The network an address value carries is the caller's, except where the two networks share
    the encoding of that kind (then the string cannot tell them apart and normalising is the
    documented exception). A normalisation of a kind whose prefixes differ makes the value parse
    back on another network than the one it was built for."""
    enc = encoder_kinds(w) or {}
    tabs = {k: (accessor_table(w, acc) if acc and acc != "unified" else None) for k, (acc, how) in enc.items()}
    uni = accessor_table(w, "hrp_unified_address")
    tabs["Unified"] = uni

    def same_encoding(kind, a, b_):
        t = tabs.get(kind)
        return bool(t) and t.get(a) is not None and t.get(a) == t.get(b_)
    ctors = [f for f in w.fns.values() if f.p.startswith("<zcash_address::ZcashAddress as zcash_address::convert::ToAddress>::from_")
             and not f.is_closure() and f.kind == "AssocFn"]
    if len(ctors) < 6:
        chk.fail("NET", "ctors/missing", "expected the six ToAddress constructors of ZcashAddress, found %d" % len(ctors))
    for f in sorted(ctors, key=lambda f: f.p):
        du = defuse.DefUse(f.body)
        short = f.p.rsplit("::", 1)[-1]
        for v, net in enumerate(NETS):
            obs = net_values(w, f, v)
            aggs = [o for o in (obs or []) if o[0] == "agg"]
            if len(aggs) != 1 or aggs[0][2] is None:
                chk.fail("NET", "%s/%s/undecided" % (short, net), "cannot decide which network %s stores for "
                         "NetworkType::%s" % (short, net), f.span.loc())
                continue
            ko = du.origin(aggs[0][1].rv.ops[1])
            kind = ko[1].rsplit("::", 1)[-1] if ko[0] == "agg" else None
            got = aggs[0][2]
            if got == net:
                chk.ok("NET", "%s(%s) stores the caller's network" % (short, net), sample=(v == 0))
            elif kind and same_encoding(kind, net, got):
                chk.ok("NET", "%s(%s) stores %s: AddressKind::%s has the same prefix %r on both (documented "
                       "sharing)" % (short, net, got, kind, tabs[kind][net]))
                chk.exception("NET", "%s/%s" % (short, net), "documented sharing of transparent and Sprout "
                              "prefixes between testnet and regtest")
            else:
                chk.fail("NET", "%s/%s" % (short, net), "%s(%s) stores NetworkType::%s although AddressKind::%s "
                         "is encoded differently on the two networks (%r vs %r): the value no longer parses back "
                         "on the network it was built for" % (short, net, got, kind, (tabs.get(kind) or {}).get(net),
                                                              (tabs.get(kind) or {}).get(got)), f.span.loc())
    # ZcashAddress::convert hands self.net and the matching payload to the TryFromAddress method
    kinds = [v["name"] for v in w.adts[ZA + "AddressKind"]["variants"]]
    want = {"Sprout": "try_from_sprout", "Sapling": "try_from_sapling", "Unified": "try_from_unified",
            "P2pkh": "try_from_transparent_p2pkh", "P2sh": "try_from_transparent_p2sh", "Tex": "try_from_tex"}
    cv = w.by_p.get(ZA + "ZcashAddress::convert", [])
    if len(cv) != 1:
        chk.fail("NET", "convert/missing", "ZcashAddress::convert not found")
    else:
        b = cv[0].body
        du = defuse.DefUse(b)
        n = 0
        for bb, t in _calls(b, r"TryFromAddress>?::try_from_\w+$"):
            meth = t.callee.target_p().rsplit("::", 1)[-1]
            o0 = defuse.show(du.origin(t.args[0]))
            o1 = defuse.show(du.origin(t.args[1]))
            m = re.search(r"as (\w+)", o1)
            k = m.group(1) if m else None
            if o0 == "arg0.net" and k and want.get(k) == meth:
                n += 1
                chk.ok("NET", "convert: AddressKind::%s -> %s(self.net, payload)" % (k, meth), sample=(n == 1))
            else:
                chk.fail("NET", "convert/%s" % meth, "convert calls %s with network %s and payload %s" % (meth, o0, o1),
                         cv[0].span.loc())
        if n < len(kinds):
            chk.fail("NET", "convert/arms", "convert dispatches %d of %d address kinds" % (n, len(kinds)), cv[0].span.loc())
    # convert_if_network: the relaxed (regtest ~ testnet) comparison only for kinds sharing the prefix
    ci = w.by_p.get(ZA + "ZcashAddress::convert_if_network", [])
    if len(ci) != 1:
        chk.fail("NET", "convert_if_network/missing", "ZcashAddress::convert_if_network not found")
        return
    b = ci[0].body
    du = defuse.DefUse(b)
    sw = [bi for bi, blk in enumerate(b.blocks) if not blk.cleanup and blk.term.kind == "switch" and
          du.origin(blk.term.discr) == ("disc", ("field", ("arg", 0), ".kind")) and len(blk.term.arms) >= len(kinds)]
    if not sw:
        chk.fail("NET", "convert_if_network/dispatch", "no dispatch on self.kind", ci[0].span.loc())
        return
    t = b.blocks[sw[0]].term
    for v, tb in t.arms:
        if not isinstance(v, int) or v >= len(kinds):
            continue
        kind = kinds[v]
        # first boolean switch in the arm
        bi, cond, hops = tb, None, 0
        while bi is not None and hops < 6:
            hops += 1
            tt = b.blocks[bi].term
            if tt.kind == "switch":
                cond = du.origin(tt.discr)
                break
            bi = tt.target if tt.kind in ("goto", "drop") else None
        strict = cond is not None and cond[0] == "call" and cond[1].endswith("PartialEq>::eq") and \
            sorted(defuse.show(defuse.strip_refs(a)) for a in cond[2]) == ["arg0.net", "arg1"]
        key = "convert_if_network/%s" % kind
        if cond is None:
            chk.fail("NET", key, "no network test before converting AddressKind::%s" % kind, ci[0].span.loc())
        elif strict:
            chk.ok("NET", "convert_if_network: AddressKind::%s requires self.net == net" % kind)
        elif same_encoding(kind, "Test", "Regtest"):
            chk.ok("NET", "convert_if_network: AddressKind::%s accepts testnet for regtest (shared prefix %r)"
                   % (kind, tabs[kind]["Test"]))
        else:
            chk.fail("NET", key, "convert_if_network accepts AddressKind::%s under a relaxed network test (%s) "
                     "although its encoding differs between testnet and regtest" % (kind, defuse.show(cond)),
                     ci[0].span.loc())


def rule_kind(chk, w):
    """Typed conversions keep the transparent receiver's KIND: in zcash_keys::address a match arm for a
    P2PKH item builds / reads only PublicKeyHash addresses and an arm for a P2SH item only ScriptHash
    ones (an arm shared by both kinds must not be kind-specific) — otherwise a P2SH receiver re-encodes
    as P2PKH."""
    KTAGS = [("K", re.compile(r"P2pkh|P2PKH|PublicKeyHash|p2pkh")), ("H", re.compile(r"P2sh|P2SH|ScriptHash|p2sh"))]
    KN = {"K": "P2PKH / PublicKeyHash", "H": "P2SH / ScriptHash"}

    def ktag(txt):
        return {t for t, rx in KTAGS if txt and rx.search(txt)}
    n = 0
    for f in sorted(w.fns.values(), key=lambda f: f.p):
        if f.crate.name != "zcash_keys" or "::tests::" in f.p or "::testing" in f.p or \
                not re.search(r"zcash_keys::address::|zcash_keys::encoding::", f.p):
            continue
        b = f.body
        du = None
        for bi, blk in enumerate(b.blocks):
            t = blk.term
            if blk.cleanup or t.kind != "switch" or len(t.arms) < 2:
                continue
            du = du or defuse.DefUse(b)
            o = du.origin(t.discr)
            if o[0] != "disc":
                continue
            d = t.discr
            dd = du.single(d.place.local) if d.kind in ("copy", "move") and not d.place.proj else None
            ty = None
            if dd and dd[0] == "stmt" and dd[2].rv.kind == "disc":
                pl = dd[2].rv.place
                ty = b.local_ty(pl.local) if not [p for p in pl.proj if p != "*"] else None
            ty = re.sub(r"^(&('\w+ )?(mut )?)+", "", ty or "")
            adt = w.adts.get(ty)
            if adt is None and ty:
                last = re.sub(r"<.*$", "", ty).rsplit("::", 1)[-1]
                cands = [a for k_, a in w.adts.items() if k_.rsplit("::", 1)[-1] == last and a.get("kind") == "Enum" and
                         k_.split("::")[0] == ty.split("::")[0]]
                adt = cands[0] if len(cands) == 1 else None
            if not adt or adt.get("kind") != "Enum":
                continue
            names = [v["name"] for v in adt["variants"]]
            if len([x for x in names if len(ktag(x)) == 1]) < 2:
                continue

            def region_of(tb):
                seen, work = set(), [tb]
                while work:
                    x = work.pop()
                    if x in seen or x == bi:
                        continue
                    seen.add(x)
                    work.extend(b.blocks[x].term.succs())
                return seen
            reach = {v: region_of(tb) for v, tb in t.arms}
            tgt = dict(t.arms)
            for v, tb in t.arms:
                if not isinstance(v, int) or v >= len(names) or len(ktag(names[v])) != 1:
                    continue
                tag = next(iter(ktag(names[v])))
                # what only kind-tagged arms reach: the arm's own code plus code it shares with the other
                # kind's arm (which therefore has to be kind-neutral); not the continuation common to all arms
                neutral = [r for u, r in reach.items()
                           if not (isinstance(u, int) and u < len(names) and len(ktag(names[u])) == 1)]
                if t.otherwise is not None:
                    neutral.append(region_of(t.otherwise))
                region = reach[v] - set().union(*neutral) if neutral else reach[v] - set.intersection(*reach.values())
                bad, n_t = [], 0
                for rb in sorted(region):
                    rblk = b.blocks[rb]
                    if rblk.cleanup:
                        continue
                    for s_ in rblk.stmts:
                        if s_.kind == "=" and s_.rv.kind == "agg" and s_.rv.agg[0] == "adt":
                            at = ktag(s_.rv.agg[2])
                            if at:
                                n_t += 1
                                if at != {tag}:
                                    bad.append("%s::%s at %s" % (s_.rv.agg[1].rsplit("::", 1)[-1], s_.rv.agg[2], s_.span.loc()))
                    tt = rblk.term
                    if tt.kind == "call" and tt.callee.indirect is None:
                        ct = ktag(tt.callee.target_p().rsplit("::", 1)[-1])
                        for a in tt.args:
                            oo = du.origin(a)
                            if oo[0] == "fn" and oo[1]:
                                ct |= ktag(oo[1].rsplit("::", 2)[-1])
                        if ct:
                            n_t += 1
                            if ct != {tag}:
                                bad.append("%s at %s" % (tt.callee.target_p().rsplit("::", 1)[-1], tt.span.loc()))
                if n_t == 0:
                    continue
                n += 1
                where = f.p.replace("zcash_keys::", "")
                if bad:
                    chk.fail("KIND", "%s/%s::%s" % (where, ty.rsplit("::", 1)[-1], names[v]), "the arm that handles %s::%s "
                             "(%s) builds or uses %s: the receiver's kind changes in the conversion"
                             % (ty.rsplit("::", 1)[-1], names[v], KN[tag], "; ".join(bad)), t.span.loc())
                else:
                    chk.ok("KIND", "%s: the %s::%s arm stays %s" % (where, ty.rsplit("::", 1)[-1], names[v], KN[tag]),
                           sample=(n == 1))
    return n


def rule_zip316(chk, w):
    PE = UNI + "ParseError"
    ti = w.by_p.get(SC + "try_from_items_internal", [])
    if len(ti) != 1:
        chk.fail("ZIP316", "try_from_items_internal/missing", "not found")
        return
    f = ti[0]
    b = f.body
    vc.vc2(chk, "ZIP316", w, f, PE, ["InvalidTypecodeOrder", "DuplicateTypecode", "BothP2phkAndP2sh",
                                     "OnlyTransparent"])
    succ = [bb for bb, _t in _calls(b, r"SealedContainer::from_inner$")]
    if succ:
        vc.vc3(chk, "ZIP316", w, f, PE, succ)
    else:
        chk.fail("ZIP316", "from_inner/call", "try_from_items_internal does not build the container "
                 "through from_inner", f.span.loc())
    # each rejection's condition: assume-analysis of the comparisons
    du = defuse.DefUse(b)
    want = [(r"PartialOrd::lt$", True, "InvalidTypecodeOrder"),
            (r"Option<T> as core::cmp::PartialEq>::eq$", True, "DuplicateTypecode")]
    for rx, val, variant in want:
        cs = [c for c in _calls(b, rx) if "_12" in " ".join(defuse.show(du.origin(a)) for a in c[1].args)
              or True]
        hit = False
        for bb, t in cs:
            res = S.after_call(b, bb, S.B(val))
            if res and variant in {a.rv.agg[2] for _b2, a in res.aggs if a.rv.agg[1] == PE} and \
                    {rv for _b2, rv in res.returns} <= {"variant:Err"}:
                hit = True
        if hit:
            chk.ok("ZIP316", "a typecode %s the previous one => Err(%s)"
                   % ("below" if variant == "InvalidTypecodeOrder" else "equal to", variant), sample=True)
        else:
            chk.fail("ZIP316", "cond/%s" % variant, "the comparison that yields %s was not found or does "
                     "not lead to the rejection" % variant, f.span.loc())
    # the only-transparent flag: starts true, can only be cleared, and is cleared by a non-transparent item
    cyc = sqlfx.cyclic_blocks(b)
    flag = None
    for sb, blk in enumerate(b.blocks):
        t = blk.term
        if t.kind == "switch" and t.discr.kind in ("copy", "move") and not t.discr.place.proj:
            inj = {(sb, si): S.B(True) for si, st in enumerate(blk.stmts)
                   if st.kind == "=" and not st.place.proj and st.place.local == t.discr.place.local}
            res = S.explore(b, sb, {t.discr.place.local: S.B(True)}, inject=inj)
            if "OnlyTransparent" in {a.rv.agg[2] for _b2, a in res.aggs if a.rv.agg[1] == PE} and \
                    sb not in cyc and not any(bb in res.blocks for bb in succ):
                flag = t.discr.place.local
    # follow copies back to the variable
    seen = 0
    while flag is not None and seen < 4:
        seen += 1
        d = du.single(flag)
        if d and d[0] == "stmt" and d[2].rv.kind == "use" and d[2].rv.ops[0].kind in ("copy", "move") and \
                not d[2].rv.ops[0].place.proj:
            flag = d[2].rv.ops[0].place.local
        else:
            break
    kinds = []

    def sources(local, depth=0):
        for kind, bi, x in du.defs.get(local, []):
            if kind == "call":
                p_ = x.callee.target_p() if x.callee.indirect is None else "?"
                kinds.append("is_transparent" if p_.endswith("Typecode::is_transparent") else "other:" + p_[-30:])
            elif kind == "stmt" and x.rv.kind == "use":
                op = x.rv.ops[0]
                if op.kind == "const":
                    v = op.info.get("v")
                    if v in (1, True):
                        kinds.append("true-in-loop" if bi in cyc else "init-true")
                    elif v in (0, False):
                        kinds.append("false")
                    else:
                        kinds.append("other")
                elif not op.place.proj and depth < 4:
                    sources(op.place.local, depth + 1)
                else:
                    kinds.append("other")
            else:
                kinds.append("other")
    if flag is not None:
        sources(flag)
    if flag is not None and "init-true" in kinds and "is_transparent" in kinds and \
            set(kinds) <= {"init-true", "false", "is_transparent"}:
        chk.ok("ZIP316", "the only-transparent flag starts true, is only ever replaced by false or by "
               "is_transparent(item), and decides OnlyTransparent after the loop", sample=True)
    else:
        chk.fail("ZIP316", "only-transparent/flag", "the flag deciding OnlyTransparent is defined by %s: a "
                 "container without shielded item may be accepted (or one with a shielded item refused)"
                 % kinds, f.span.loc())
    # who may call from_inner / build the containers
    callers = sorted({g.p for g in w.fns.values() if not vc.is_test(g) for _bb, t in g.body.calls()
                      if t.callee.indirect is None and t.callee.target_p().endswith("SealedContainer::from_inner")
                      or (t.callee.indirect is None and re.search(r"SealedContainer>::from_inner$", t.callee.target_p()))})
    if callers == [SC + "try_from_items_internal"]:
        chk.ok("ZIP316", "from_inner is called only by try_from_items_internal", sample=True)
    else:
        chk.fail("ZIP316", "from_inner/callers", "from_inner is called by %s" % callers)
    for cont in ("address::Address", "fvk::Ufvk", "ivk::Uivk"):
        vc.vc1(chk, "ZIP316", w, UNI + cont, r"SealedContainer>::from_inner$")
    # parse_items
    pi = w.by_p.get(SC + "parse_items", [])
    if len(pi) != 1:
        chk.fail("ZIP316", "parse_items/missing", "not found")
        return
    b = pi[0].body
    du = defuse.DefUse(b)
    inv = _calls(b, r"f4jumble::f4jumble_inv_mut$")
    rr = {bb for bb, _t in _calls(b, r"parse_items::read_receiver$")}
    if len(inv) == 1:
        res = S.after_call(b, inv[0][0], S.E("Result", "Err"))
        if res and {rv for _b2, rv in res.returns} <= {"variant:Err"} and not (rr & res.blocks):
            chk.ok("ZIP316", "parse_items: a failed un-jumbling (invalid length) is an error, nothing is parsed")
        else:
            chk.fail("ZIP316", "parse_items/jumble", "parse_items continues after f4jumble_inv_mut failed",
                     inv[0][1].span.loc())
    else:
        chk.fail("ZIP316", "parse_items/jumble/missing", "f4jumble_inv_mut is not applied exactly once")
    eq = _calls(b, r"PartialEq.*::(eq|ne)$")
    okp = False
    for bb, t in eq:
        a = [defuse.show(du.origin(x)) for x in t.args]
        if any("split_at(" in x and "Sub 16" in x for x in a):
            # the mismatch outcome: `==` false, or `!=` true
            res = S.after_call(b, bb, S.B(t.callee.target_p().endswith("::ne")))
            okp = res is not None and {rv for _b2, rv in res.returns} <= {"variant:Err"} and not (rr & res.blocks)
            # the expected padding is the HRP followed by zeros
            cps = _calls(b, r"::copy_from_slice$")
            okp = okp and any("as_bytes(&*arg0)" in defuse.show(du.origin(c[1].args[1])) and
                              "Range{0, len(&*arg0)}" in defuse.show(du.origin(c[1].args[0])) for c in cps)
    if okp:
        chk.ok("ZIP316", "parse_items: the last 16 bytes must equal the HRP padded with zeros, otherwise "
               "Err and nothing is parsed", sample=True)
    else:
        chk.fail("ZIP316", "parse_items/padding", "the padding check (tail == HRP || zeros) is missing or "
                 "can be bypassed", pi[0].span.loc())
    # read_receiver: truncated items
    rrf = w.by_p.get(SC + "parse_items::read_receiver", [])
    if len(rrf) == 1:
        b2 = rrf[0].body
        du2 = defuse.DefUse(b2)
        good = False
        for bi, blk in enumerate(b2.blocks):
            for si, s in enumerate(blk.stmts):
                if s.kind == "=" and s.rv.kind == "bin" and s.rv.op == "Lt":
                    o = defuse.show(du2.origin_local(s.place.local))
                    if "len(" in o and "checked_add" in o:
                        res = S.explore(b2, bi, {}, inject={(bi, si): S.B(True)})
                        idx = {bb for bb, _t in _calls(b2, r"ops::Index<I>>::index$|::index$")}
                        good = {rv for _b3, rv in res.returns} <= {"variant:Err"} and not (idx & res.blocks)
        if good and _calls(b2, r"<impl u64>::checked_add$"):
            chk.ok("ZIP316", "read_receiver: an item longer than the remaining bytes is an error (checked "
                   "end position, compared with the buffer length before slicing)", sample=True)
        else:
            chk.fail("ZIP316", "read_receiver/truncated", "read_receiver does not refuse truncated items "
                     "before slicing", rrf[0].span.loc())
    else:
        chk.fail("ZIP316", "read_receiver/missing", "read_receiver not found")
    # items
    for item, adt in (("Receiver", UNI + "address::Receiver"), ("Fvk", UNI + "fvk::Fvk"), ("Ivk", UNI + "ivk::Ivk")):
        g = [x for x in w.fns.values() if x.p == "<%s as core::convert::TryFrom<(u32, &[u8])>>::try_from" % adt]
        if len(g) != 1:
            chk.fail("ZIP316", "item/%s/missing" % item, "TryFrom<(u32, &[u8])> for %s not found" % item)
            continue
        b3 = g[0].body
        du3 = defuse.DefUse(b3)
        aggs = [s for blk in b3.blocks if not blk.cleanup for s in blk.stmts
                if s.kind == "=" and s.rv.kind == "agg" and s.rv.agg[0] == "adt" and s.rv.agg[1] == adt]
        known_direct = [s.rv.agg[2] for s in aggs if s.rv.agg[2] != "Unknown"]
        unk = [s for s in aggs if s.rv.agg[2] == "Unknown"]
        ctors = set()
        for bb, t in _calls(b3, r"Result::<T, E>::map$"):
            o = du3.origin(t.args[1])
            src = defuse.show(du3.origin(t.args[0]))
            if o[0] == "fn" and o[1] and "try_into(" in src:
                ctors.add(o[1].rsplit("::", 1)[-1])
        unk_ok = False
        if len(unk) == 1:
            d = dict(zip(unk[0].rv.agg[3], [defuse.show(du3.origin(o)) for o in unk[0].rv.ops]))
            unk_ok = d.get("typecode") == "arg0.0" and ("arg0.1" in d.get("data", ""))
        variants = [v["name"] for v in w.adts[adt]["variants"]]
        if not known_direct and unk_ok and ctors == set(v for v in variants if v != "Unknown"):
            chk.ok("ZIP316", "%s: known items only through the length-checked try_into (%s); unknown items "
                   "keep their typecode and bytes" % (item, sorted(ctors)), sample=True)
        else:
            chk.fail("ZIP316", "item/%s" % item, "%s items: built without length check %s, through try_into "
                     "%s of %s, unknown preserved: %s" % (item, known_direct, sorted(ctors), variants, unk_ok),
                     g[0].span.loc())


def rule_f4(chk, w):
    F = "f4jumble::"
    try:
        fm, im = w.fn(F + "f4jumble_mut"), w.fn(F + "f4jumble_inv_mut")
        af, ai = w.fn(F + "State::<'a>::apply_f4jumble"), w.fn(F + "State::<'a>::apply_f4jumble_inv")
        hr, gr = w.fn(F + "State::<'a>::h_round"), w.fn(F + "State::<'a>::g_round")
        new, xor = w.fn(F + "State::<'a>::new"), w.fn(F + "xor")
    except KeyError as e:
        chk.fail("F4", "missing", "f4jumble function not found: %s" % e)
        return
    for f, ap in ((fm, "apply_f4jumble"), (im, "apply_f4jumble_inv")):
        b = f.body
        du = defuse.DefUse(b)
        c = _calls(b, r"RangeInclusive::<Idx>::contains$")
        good = False
        if len(c) == 1:
            a = [defuse.show(du.origin(x)) for x in c[0][1].args]
            res = S.after_call(b, c[0][0], S.B(False))
            ran = {bb for bb, _t in _calls(b, r"State::<'a>::apply_")}
            good = "f4jumble::VALID_LENGTH" in a[0] and a[1] == "&len(&*arg0)" and res is not None and \
                {rv for _b2, rv in res.returns} <= {"variant:Err"} and not (ran & res.blocks) and \
                [t.callee.target_p().rsplit("::", 1)[-1] for _bb, t in _calls(b, r"State::<'a>::apply_")] == [ap]
        if good:
            chk.ok("F4", "%s: a length outside VALID_LENGTH is Err and the message is untouched; otherwise "
                   "%s runs" % (f.p.rsplit("::", 1)[-1], ap), sample=True)
        else:
            chk.fail("F4", "%s/length" % f.p, "%s does not guard the transform with VALID_LENGTH.contains(len)"
                     % f.p, f.span.loc())
    vl = w.by_p.get(F + "VALID_LENGTH", [])

    def rounds(f):
        b = f.body
        du = defuse.DefUse(b)
        cs = sorted(_calls(b, r"State::<'a>::[gh]_round$"),
                    key=lambda x: len([1 for y in _calls(b, r"State::<'a>::[gh]_round$") if b.dominates(y[0], x[0])]))
        return [(t.callee.target_p().rsplit("::", 1)[-1], defuse.show(du.origin(t.args[1]))) for _bb, t in cs]
    fw, bw = rounds(af), rounds(ai)
    if fw and bw == list(reversed(fw)) and len(fw) == 4 and {r for r, _i in fw} == {"g_round", "h_round"} and \
            all(fw[i][0] != fw[i + 1][0] for i in range(3)):
        chk.ok("F4", "the inverse applies the same rounds in reverse order: %s / %s" % (fw, bw), sample=True)
    else:
        chk.fail("F4", "round-order", "apply_f4jumble runs %s, apply_f4jumble_inv runs %s: not the reverse "
                 "sequence of alternating rounds" % (fw, bw), ai.span.loc())
    # each round: target half ^= H(other half)
    for f, tgt, src in ((hr, "left", "right"), (gr, "right", "left")):
        b = f.body
        du = defuse.DefUse(b)
        x = _calls(b, r"f4jumble::xor$")
        h = _calls(b, r"blake2b_simd::Params::hash$")
        good = False
        if len(x) == 1 and len(h) == 1:
            ta = defuse.show(du.origin(x[0][1].args[0]))
            sa = defuse.show(du.origin(x[0][1].args[1]))
            hin = defuse.show(du.origin(h[0][1].args[1]))
            pers = defuse.show(du.origin(h[0][1].args[0]))
            good = ("arg0.%s" % tgt in ta and "arg0.%s" % src not in ta and hin == "&**arg0.%s" % src and
                    sa.startswith("&*as_bytes(&hash(") and "arg1" in pers and
                    not [s for blk in b.blocks if not blk.cleanup for s in blk.stmts
                         if s.kind == "=" and s.place.proj and s.place.proj[0] == "*"])
        if good:
            chk.ok("F4", "%s: %s ^= BLAKE2b(personalised by the round index)(%s) - an involution that "
                   "leaves %s unchanged" % (f.p.rsplit("::", 1)[-1], tgt, src, src), sample=True)
        else:
            chk.fail("F4", f.p.rsplit("::", 1)[-1], "%s does not XOR the %s half with a hash of the %s half "
                     "only" % (f.p.rsplit("::", 1)[-1], tgt, src), f.span.loc())
    b = xor.body
    ops = _calls(b, r"BitXorAssign<&u8>>::bitxor_assign$")
    z = _calls(b, r"Iterator::zip$")
    if len(ops) == 1 and len(z) == 1 and not _calls(b, r"::(rev|skip|step_by)$"):
        chk.ok("F4", "xor(target, source): target[i] ^= source[i] over the zipped prefix")
    else:
        chk.fail("F4", "xor", "xor is not the element-wise XOR of the zipped slices", xor.span.loc())
    b = new.body
    du = defuse.DefUse(b)
    sp = _calls(b, r"::split_at_mut$")
    if len(sp) == 1 and defuse.show(du.origin(sp[0][1].args[0])) == "&*arg0" and \
            re.match(r"min\(64, \(len\(&\*arg0\) Div 2\)\)$", defuse.show(du.origin(sp[0][1].args[1]))):
        chk.ok("F4", "State::new splits the message once at min(64, len / 2): two disjoint halves covering it")
    else:
        chk.fail("F4", "split", "State::new does not split the whole message at min(64, len/2)", new.span.loc())


FS = ZA + "encoding::<impl core::str::FromStr for zcash_address::ZcashAddress>::from_str"
REVIEWED = {
    "f4jumble::ceildiv/divzero:DivisionByZero#1": ("the divisor is the constant OUTBYTES = 64 at the only "
                                                   "call site", ["G-ceildiv"]),
    "f4jumble::State::<'a>::g_round/index-call:[T][I]#1":
        ("right[j*64..] with j < ceildiv(right.len(), 64), so j*64 < right.len()", ["G-ceildiv"]),
    "f4jumble::State::<'a>::new/len-call:split_at_mut#1": ("split at min(64, len/2) <= len", []),
    FS + "/unwrap:unwrap:Result#1": ("decoded[..2] converted to [u8; 2]", []),
    FS + "/index-call:Index<I>>#1": ("decoded[..2] under decoded.len() >= 2", ["G-b58-len"]),
    FS + "/index-call:Index<I>>#2": ("decoded[2..] under decoded.len() >= 2", ["G-b58-len"]),
    FS + "/index-call:Index<I>>#3": ("decoded[2..] under decoded.len() >= 2", ["G-b58-len"]),
    FS + "/index-call:Index<I>>#4": ("decoded[2..] under decoded.len() >= 2", ["G-b58-len"]),
    FS + "/panic:unreachable#1":
        ("second match over the prefix: the first match returned NotZcash for every prefix that is not "
         "one of the six listed, and the second match lists the same six", ["G-b58-tables"]),
    SC + "try_from_items_internal/panic:assert#1":
        ("assert on two constants: u32::from(P2sh) == u32::from(P2pkh) + 1", ["G-typecode-consts"]),
    SC + "parse_items/index-call:IndexMut<I>>#1": ("full range of a Vec", []),
    SC + "parse_items/len-call:copy_from_slice#1":
        ("expected_padding[0..hrp.len()] and hrp.as_bytes() have the same length", []),
    SC + "parse_items/index-call:[T; N][I]#1":
        ("0..hrp.len() inside a 16-byte array: hrp.len() > 16 returns Err before", ["G-hrp-len"]),
    SC + "parse_items/len-call:split_at#1":
        ("split_at(len - 16): f4jumble_inv_mut succeeded, so len >= 48", ["G-jumble-min"]),
    SC + "parse_items/unwrap:unwrap:Result#1": ("usize -> u64 conversion", []),
    SC + "parse_items/unwrap:unwrap:Result#2": ("usize -> u64 conversion", []),
    SC + "parse_items/panic:assert_eq#1":
        ("the loop leaves when position >= len and read_receiver never moves past the buffer end "
         "(it refuses items longer than the remaining bytes)", ["G-truncated"]),
    SC + "parse_items::read_receiver::{closure#0}/unwrap:expect:Result#1":
        ("u32::try_from of a value CompactSize::read accepted (at most 0x02000000)", ["G-compactsize-bounded"]),
    SC + "parse_items::read_receiver/index-call:[T][I]#1":
        ("position..addr_end with position <= addr_end (checked_add) and addr_end <= len (tested)",
         ["G-truncated"]),
    SC + "to_jumbled_bytes/panic:assert#1": ("encoder side, not reachable from the decoders", []),
}


def rule_pf(chk, w, g):
    ents = []
    names = [ZA + "ZcashAddress::try_from_encoded",
             ZA + "encoding::<impl core::str::FromStr for zcash_address::ZcashAddress>::from_str",
             UNI + "Encoding::decode", SC + "parse_internal", SC + "parse_items",
             "f4jumble::f4jumble", "f4jumble::f4jumble_inv", "f4jumble::f4jumble_mut", "f4jumble::f4jumble_inv_mut"]
    for n in names:
        f = w.by_p.get(n, [])
        if len(f) == 1:
            ents.append(f[0])
        else:
            chk.fail("PF", "entry/" + n, "decoder entry point %s not found" % n)

    def scope(f):
        return f.crate.name in ("zcash_address", "f4jumble", "zcash_protocol", "zcash_encoding")
    sites, parent, reached = panics.reachable_sites(w, ents, scope)
    chk.analysed.update({"functions_reachable_from_decoders": len(reached),
                         "class_B_sites_inventoried_not_armed": len([1 for _f, s, _k in sites if s["cls"] == "B"])})
    import pf_stable
    pf_stable.extend(REVIEWED)
    for f, s, key in sites:
        key = panics.resolve_key(REVIEWED, key, s)
        if s["cls"] != "A":
            continue
        loc = s["span"].loc()
        auto = panics.auto_discharge(f, s)
        if auto:
            chk.ok("PF", "%s [%s]: %s" % (key, loc, auto))
        elif re.match(r"^<?zcash_protocol::memo::", f.p):
            chk.ok("PF", "%s: not on the decoding path" % key)
            chk.exception("PF", key, "class-hierarchy over-approximation of an unresolved TryFrom/TryInto "
                          "call: the memo conversions cannot be instantiated by the address decoders")
        elif key in REVIEWED and all(g.get(x) for x in REVIEWED[key][1]):
            chk.ok("PF", "%s [%s]: reviewed — %s" % (key.replace(SC, ""), loc, REVIEWED[key][0]), sample=True)
            chk.exception("PF", key, REVIEWED[key][0])
        else:
            chk.fail("PF", key, "panic site (%s %s) reachable from the address decoders and not discharged%s"
                     % (s["kind"], s["detail"], (": relies on " + str([x for x in REVIEWED[key][1] if not g.get(x)]))
                        if key in REVIEWED else ""), loc, [w.fns[x].p for x in w.path_to(parent, f.id)])


def guards(chk, w):
    g = {}
    # typecode constants
    fr = [x for x in w.fns.values() if x.p.endswith("From<zcash_address::kind::unified::Typecode> for u32>::from")]
    g["G-typecode-consts"] = False
    if len(fr) == 1:
        src = zf.fn_source(extract.REPO, fr[0])
        g["G-typecode-consts"] = bool(re.search(r"P2pkh\s*=>\s*0x00", src) and re.search(r"P2sh\s*=>\s*0x01", src))
    pi = w.by_p.get(SC + "parse_items", [])
    g["G-hrp-len"] = False
    if len(pi) == 1:
        b = pi[0].body
        du = defuse.DefUse(b)
        for bi, blk in enumerate(b.blocks):
            for si, s in enumerate(blk.stmts):
                if s.kind == "=" and s.rv.kind == "bin" and s.rv.op == "Gt" and \
                        re.match(r"\(len\(&\*arg0\) Gt 16\)$", defuse.show(du.origin_local(s.place.local))):
                    res = S.explore(b, bi, {}, inject={(bi, si): S.B(True)})
                    cps = {bb for bb, _t in _calls(b, r"::copy_from_slice$")}
                    g["G-hrp-len"] = {rv for _b2, rv in res.returns} <= {"variant:Err"} and not (cps & res.blocks)
    vl = w.by_p.get("f4jumble::VALID_LENGTH", [])
    lo = None
    if vl:
        dv = defuse.DefUse(vl[0].body)
        m = re.search(r"new\((\d+), (\d+)\)", defuse.show(dv.origin_local(0)))
        lo = int(m.group(1)) if m else None
    g["G-jumble-min"] = lo is not None and lo >= 16
    g["G-truncated"] = "read_receiver/truncated" not in " ".join(v["key"] for v in chk.violations)
    mx = w.consts.get("zcash_encoding::MAX_COMPACT_SIZE", {}).get("v")
    rd = w.by_p.get("zcash_encoding::CompactSize::read", [])
    ru = w.by_p.get("zcash_encoding::CompactSize::read_unbounded", [])
    g["G-compactsize-bounded"] = False
    if rd and ru and mx is not None:
        it = A.Interp(w, lambda f: f.p == ru[0].p, {})
        it.record_aggs = {"core::result::Result"}
        it.analyse(rd[0])
        top = None
        for s in it.sites:
            if s.kind == "enum-agg" and s.variant == "Ok" and s.fn.p == rd[0].p:
                v = s.payload.get("0")
                if isinstance(v, A.AInt) and v.set.ivs:
                    top = max(top or 0, v.set.ivs[-1][1])
        g["G-compactsize-bounded"] = top is not None and top <= mx <= 2 ** 32 - 1
    # ceildiv is called with the constant 64 only
    cd = [(f, t) for f in w.fns.values() if f.crate.name == "f4jumble" and not vc.is_test(f)
          for _bb, t in f.body.calls() if t.callee.indirect is None and t.callee.target_p() == "f4jumble::ceildiv"]
    g["G-ceildiv"] = bool(cd) and all(defuse.show(defuse.DefUse(f.body).origin(t.args[1])) == "64" for f, t in cd)
    fs = w.by_p.get(FS, [])
    g["G-b58-len"] = False
    g["G-b58-tables"] = False
    if len(fs) == 1:
        b = fs[0].body
        du = defuse.DefUse(b)
        # every slice of the decoded bytes by a constant bound (decoded[..2], decoded[2..], split_at(2)) sits
        # under a dominating length test on the same vector
        cuts = [s_ for s_ in panics.sites_of(fs[0]) if s_["kind"] == "index-call" or
                (s_["kind"] == "len-call" and s_["detail"] in ("split_at", "split_at_mut"))]
        g["G-b58-len"] = bool(cuts) and all(panics._length_guarded(b, s_) for s_ in cuts)
        tabs = decoder_tables(w)
        if tabs:
            _h, nets, kinds = tabs
            g["G-b58-tables"] = bool(nets) and set(nets) == set(kinds)
    for k, v in sorted(g.items()):
        chk.ok("G", "%s holds" % k) if v else chk.fail("G", k, "guard %s no longer holds" % k)
    return g


def rule_forward(chk, w):
    """FWD: conversion wrappers keep the address kind. `impl TryFromAddress for (NetworkType, T)` (the "convert and tell
    me the network" wrapper) implements every try_from_<kind> by calling T's method OF THE SAME NAME; a wrapper
    method that forwards to another kind's method hands the target a different kind of address with the same
    20 bytes (a TEX address becomes a plain P2PKH)."""
    n = 0
    for f in sorted(w.fns.values(), key=lambda f: f.p):
        m = re.match(r"^<\(zcash_protocol::consensus::NetworkType, T\) as zcash_address::(?:convert::)?TryFromAddress>::(try_from_\w+)$", f.p)
        if not m or f.body is None:
            continue
        callees = [t.callee.target_p() for bb, t in f.body.calls() if not f.body.blocks[bb].cleanup and
                   t.callee.indirect is None and re.search(r"TryFromAddress>?::try_from_\w+$", t.callee.target_p())]
        n += 1
        names = sorted({c.rsplit("::", 1)[-1] for c in callees})
        if names == [m.group(1)]:
            chk.ok("FWD", "(NetworkType, T)::%s forwards to T::%s" % (m.group(1), m.group(1)), sample=(n == 1))
        else:
            chk.fail("FWD", m.group(1), "(NetworkType, T)::%s forwards to %s: the wrapper changes the kind of the address"
                     % (m.group(1), names or "nothing"), f.span.loc())
    if n < 6:
        chk.fail("FWD", "sites", "expected the try_from_* methods of the (NetworkType, T) wrapper, found %d" % n)


def main(tier):
    chk = Check("C10", "other", tier)
    chk.explanation = (
        "Structural clauses of C10: the decoder's HRP / Base58 prefix tables are the inverse of the "
        "encoder's for every address kind and network (with the documented testnet/regtest sharing), "
        "unified containers use the protocol HRPs with mutually inverse network tables, typecode tables "
        "are inverse (abstract interpretation); ZIP 316 composition rules are live and cannot be "
        "bypassed, containers come only from from_inner, parse_items refuses bad jumbling / padding / "
        "truncation, items are length-checked and unknown items preserved; F4Jumble is a four-round "
        "Feistel network whose inverse runs the same involutive rounds in reverse under the same "
        "length check; no undischarged panic site is reachable from the decoders. Not decided: "
        "string-level inverse-ness (Bech32/Base58 are external), canonical re-encoding.")
    chk.trusted = ["rustc MIR", "bech32, bs58, blake2b_simd behave as documented and do not panic",
                   "reviewed panic-site arguments listed in rules/c10.py"]
    chk.rule("TABLE", "decoder tables are the inverse of the encoder tables", floor=30)
    chk.rule("NET", "address values keep the caller's network unless the kind's encoding is shared", floor=30)
    chk.rule("KIND", "typed conversions keep P2PKH as PublicKeyHash and P2SH as ScriptHash", floor=8)
    chk.rule("FWD", "the (NetworkType, T) conversion wrapper forwards each kind to the same kind", floor=6)
    chk.rule("ZIP316", "ZIP 316 rejections live and not bypassable; constructor discipline", floor=20)
    chk.rule("F4", "F4Jumble: same length check, reversed involutive rounds", floor=7)
    chk.rule("G", "guards of reviewed panic sites", floor=5)
    chk.rule("PF", "no undischarged class-A panic site reachable from the decoders", floor=10)
    w = zf.World(extract.facts_dir("all"), ["zcash_address", "f4jumble", "zcash_protocol", "zcash_encoding", "zcash_keys", "zcash_transparent"])
    rule_table(chk, w)
    rule_net(chk, w)
    rule_forward(chk, w)
    chk.analysed["kind_arms"] = rule_kind(chk, w)
    rule_zip316(chk, w)
    rule_f4(chk, w)
    g = guards(chk, w)
    rule_pf(chk, w, g)
    chk.finish()
