"""C08 — proposals spend only spendable funds, each once, and balance exactly (structural).

  VC-1  every Step / Proposal in existence was built by Step::from_parts / Proposal::{multi_step,
        single_step} (private fields, no other construction site, protobuf decode path included)
  VC-2  the balance, turnstile, anchor, reference and double-spend rejections are live
  VC-3  each rejection's deciding branch dominates the success construction (cannot be bypassed)
  BAL   the final test compares input_total (transparent + shielded + prior-step inputs) with
        output_total (request total + balance total); unequal => Err(BalanceError), no Step
  SPLICE every note / UTXO selection query splices the spent, unexpired, eligibility and lock
        predicates and binds account, target height and (where applicable) anchor height
  LOCK  lock_outputs: conflict read and writes in one transaction (C02 instance re-checked here)
  PS-1/PS-3 pool uniformity of the selectors and of proposal validation
Not decided: that the predicates' conditions are right, selector sufficiency / termination, that a
request the funds cannot cover returns an error.
"""
import re

import assume as S
import defuse
import extract
import ps_rules
import sqlfx
import vc
import zf
from common import Check

FILES = ["zcash_client_backend/src/data_api/wallet.rs",
         "zcash_client_backend/src/data_api/wallet/input_selection.rs",
         "zcash_client_backend/src/proposal.rs", "zcash_client_backend/src/data_api/locking.rs",
         "zcash_client_sqlite/src/wallet/common.rs", "zcash_client_sqlite/src/wallet/locking.rs",
         "zcash_client_sqlite/src/wallet/transparent.rs"]
STEP = "zcash_client_backend::proposal::Step"
PROPOSAL = "zcash_client_backend::proposal::Proposal"
PERR = "zcash_client_backend::proposal::ProposalError"

STEP_REJECTIONS = ["PaymentPoolsMismatch", "PaymentAmountMissing", "Overflow", "ReferenceError",
                   "RequestTotalInvalid", "ShieldingInvalid", "OrchardPoolPayment",
                   "OrchardPoolValueCreation", "MissingShieldedAnchor", "BalanceError"]
MULTI_REJECTIONS = ["ReferenceError", "StepDoubleSpend", "ChainDoubleSpend"]

SPLICE = {
    "zcash_client_sqlite::wallet::common::select_spendable_notes_matching_value":
        (["spent_notes_clause", "output_eligible_condition", "locked_tier_expr"],
         [":account_uuid", ":anchor_height", ":target_height"]),
    "zcash_client_sqlite::wallet::common::select_unspent_notes":
        (["spent_notes_clause", "tx_unexpired_condition", "output_eligible_condition"],
         [":account_uuid", ":target_height"]),
    "zcash_client_sqlite::wallet::common::get_spendable_note":
        (["spent_notes_clause", "output_eligible_condition"], [":txid", ":output_index", ":target_height"]),
    "zcash_client_sqlite::wallet::transparent::select_spendable_transparent_outputs":
        (["output_eligible_condition", "locked_tier_expr", "spent_utxos_clause"],
         [":account_uuid", ":target_height", ":min_confirmations"]),
    "zcash_client_sqlite::wallet::transparent::get_spendable_transparent_outputs_for_addresses":
        (["output_eligible_condition", "spent_utxos_clause"], [":target_height"]),
}


def main(tier):
    chk = Check("C08", "other", tier)
    chk.explanation = (
        "Structural clauses of C08: Step and Proposal can only come out of their validating "
        "constructors, whose rejections are live and cannot be bypassed (VC-1/2/3, BAL), so 'inputs "
        "= payments + change + fee in every step' holds for every proposal by construction (given "
        "C09); selection queries splice the spendability predicates and bind account/height "
        "parameters (SPLICE); locking is transactional (LOCK); selector code is uniform across "
        "pools (PS). Not decided: that the predicates' conditions are right, selector sufficiency "
        "and termination, that an uncoverable request returns an error.")
    chk.trusted = ["rustc MIR", "SQL/Rust lexers", "C09 for exact amount arithmetic"]
    chk.rule("VC-1", "Step/Proposal are built only by their validating constructors", floor=5)
    chk.rule("VC-2", "every rejection of the validating constructors is live", floor=13)
    chk.rule("VC-3", "no rejection test can be bypassed on the way to success", floor=15)
    chk.rule("BAL", "the final balance test compares the full input and output totals", floor=3)
    chk.rule("SPLICE", "selection queries splice the spendability predicates", floor=15)
    chk.rule("LOCK", "lock_outputs reads conflicts and writes in one transaction", floor=1)
    chk.rule("PS-1", "sibling pool code is a consistent renaming", floor=300)
    chk.rule("PS-2", "Ironwood code equals its Orchard sibling up to the pool renaming", floor=80)
    chk.rule("PS-3", "pool-tagged arguments bind the same pool's parameters", floor=10)
    chk.rule("NOGROW", "the step's input lists are replaced by query results, never grown", floor=1)
    chk.rule("LOCKEXP", "input locks expire at the target height plus the requested window", floor=4)
    chk.rule("ALIAS", "a derived SQL column is defined by the same expression in every query", floor=1)
    chk.rule("CONF", "the send-max query cannot return a note that lacks the policy's confirmations",
             floor=1)
    chk.rule("ANCHOR", "anchor and confirmations policy given to the selector are one policy's", floor=2)
    chk.rule("LOCKF", "selection queries are given the caller's locked-input policy", floor=6)
    chk.rule("control", "positive controls", floor=2)
    ps_rules.ps1(chk, FILES)
    ps_rules.ps2(chk, FILES)
    w = zf.World(extract.facts_dir("all"), ["zcash_client_backend", "zcash_client_sqlite"])

    def scope(f):
        if vc.is_test(f):
            return False
        return (f.p.startswith("zcash_client_backend::proposal") or
                f.p.startswith("zcash_client_backend::data_api::wallet") or
                f.p.startswith("zcash_client_backend::fees") or
                f.p.startswith("zcash_client_sqlite::wallet::common") or
                f.p.startswith("zcash_client_sqlite::wallet::transparent"))
    chk.analysed["ps3_calls"] = ps_rules.ps3(chk, w, scope)

    # ---- VC
    vc.vc1(chk, "VC-1", w, STEP, r"proposal::Step::<NoteRef>::from_parts$")
    vc.vc1(chk, "VC-1", w, PROPOSAL, r"proposal::Proposal::<FeeRuleT, NoteRef>::(multi_step|single_step)$")
    fp = [f for f in w.fns.values() if f.p == "zcash_client_backend::proposal::Step::<NoteRef>::from_parts"]
    ms = [f for f in w.fns.values()
          if f.p == "zcash_client_backend::proposal::Proposal::<FeeRuleT, NoteRef>::multi_step"]
    ss = [f for f in w.fns.values()
          if f.p == "zcash_client_backend::proposal::Proposal::<FeeRuleT, NoteRef>::single_step"]
    if len(fp) != 1 or len(ms) != 1 or len(ss) != 1:
        chk.fail("VC-2", "constructors/missing", "validating constructors not found (%d, %d, %d)"
                 % (len(fp), len(ms), len(ss)))
        chk.finish()
    fp, ms, ss = fp[0], ms[0], ss[0]
    vc.vc2(chk, "VC-2", w, fp, PERR, STEP_REJECTIONS)
    vc.vc2(chk, "VC-2", w, ms, PERR, MULTI_REJECTIONS)
    succ = [bi for f, bi, s in vc.aggregates(w, STEP) if f.id == fp.id]
    vc.vc3(chk, "VC-3", w, fp, PERR, succ)
    succ_m = [bi for f, bi, s in vc.aggregates(w, PROPOSAL) if f.id == ms.id]
    vc.vc3(chk, "VC-3", w, ms, PERR, succ_m)
    # single_step goes through Step::from_parts and propagates its error
    calls = S.find_calls(ss.body, r"proposal::Step::<NoteRef>::from_parts$")
    succ_s = [bi for f, bi, s in vc.aggregates(w, PROPOSAL) if f.id == ss.id]
    if len(calls) == 1 and succ_s:
        res = S.after_call(ss.body, calls[0][0], S.E("Result", "Err"))
        if res and not any(b in res.blocks for b in succ_s) and \
                {rv for _b, rv in res.returns} <= {"variant:Err"}:
            chk.ok("VC-3", "single_step builds its Proposal only from a Step accepted by Step::from_parts")
        else:
            chk.fail("VC-3", "single_step/bypass", "single_step can build a Proposal although "
                     "Step::from_parts failed", ss.span.loc())
    else:
        chk.fail("VC-3", "single_step/shape", "single_step does not validate its step through "
                 "Step::from_parts", ss.span.loc())

    balance(chk, w, fp, succ)
    double_spend(chk, w, ms)
    splice(chk, w)
    lock(chk, w)
    chk.analysed["lock_filter_sites"] = lock_filter(chk, w)
    confirmations(chk, w)
    lock_expiry(chk, w)
    no_growth(chk, w)
    sql_alias_siblings(chk, w)
    chk.analysed["selector_calls"] = anchor_policy(chk, w)
    chk.ok("control", "Step::from_parts has %d rejection kinds and %d success site(s)"
           % (len(STEP_REJECTIONS), len(succ))) if succ else \
        chk.fail("control", "no-success", "Step::from_parts has no success site")
    chk.finish()


def _names(body, du, op, depth=0, acc=None):
    acc = acc if acc is not None else set()
    if depth > 40 or op is None or op.kind not in ("copy", "move"):
        return acc
    nm = body.local_name(op.place.local)
    if nm and nm not in ("val", "residual", "iter", "e", "err", "acc"):
        acc.add(nm)
        return acc
    d = du.single(op.place.local)
    if d is None:
        return acc
    kind, _bi, x = d
    if kind == "call":
        last = x.callee.target_p().rsplit("::", 1)[-1] if x.callee.indirect is None else ""
        acc.add("call:" + last)
        for a in x.args:
            _names(body, du, a, depth + 1, acc)
    else:
        for o in x.rv.ops:
            _names(body, du, o, depth + 1, acc)
        if x.rv.kind in ("ref", "disc") and x.rv.place is not None:
            _names(body, du, zf.Op("copy", zf.Place([x.rv.place.local])), depth + 1, acc)
    return acc


def balance(chk, w, fp, succ):
    body = fp.body
    du = defuse.DefUse(body)
    # `==` resolves to the derived <Zatoshis as PartialEq>::eq, `!=` to the trait's provided `ne`
    eqs = [(bb, t) for bb, t in body.calls() if t.callee.indirect is None and
           (re.search(r"Zatoshis as core::cmp::PartialEq>::(eq|ne)$", t.callee.target_p()) or
            (re.search(r"core::cmp::PartialEq::(eq|ne)$", t.callee.target_p()) and
             "Zatoshis" in (t.callee.self_ty or t.callee.full or "")))]
    final = None
    for bb, t in eqs:
        ns = [_names(body, du, a) for a in t.args]
        if {"input_total"} <= ns[0] | ns[1] and {"output_total"} <= ns[0] | ns[1]:
            final = (bb, t)
    if final is None:
        chk.fail("BAL", "final-test/missing", "the comparison of input_total with output_total is gone "
                 "from Step::from_parts", fp.span.loc())
        return
    bb, t = final
    isne = t.callee.target_p().endswith("::ne")
    res = S.after_call(body, bb, S.B(isne))
    aggs = {a.rv.agg[2] for _b, a in res.aggs if a.rv.agg[1] == PERR}
    if any(b in res.blocks for b in succ) or not {rv for _b, rv in res.returns} <= {"variant:Err"} \
            or "BalanceError" not in aggs:
        chk.fail("BAL", "final-test/bypass", "a step whose inputs differ from payments + change + fee is "
                 "not rejected with BalanceError", t.span.loc())
    else:
        chk.ok("BAL", "input_total != output_total => Err(BalanceError), no Step is built", sample=True)
    # the balance test is unconditional: it dominates the success construction
    if all(body.dominates(bb, sx) for sx in succ):
        chk.ok("BAL", "every Step construction is dominated by the balance comparison (no path around it)")
    else:
        chk.fail("BAL", "final-test/conditional", "a Step can be constructed on a path that does not "
                 "perform the input_total == output_total comparison", t.span.loc())

    def def_names(var):
        ls = [i for i, (_t, n) in enumerate(body.locals) if n == var]
        out = set()
        for l in ls:
            for kind, _bi, x in du.defs.get(l, []):
                if kind == "call":
                    for a in x.args:
                        _names(body, du, a, 0, out)
                    out.add("call:" + (x.callee.target_p().rsplit("::", 1)[-1]
                                       if x.callee.indirect is None else ""))
                elif kind == "stmt":
                    for o in x.rv.ops:
                        _names(body, du, o, 0, out)
        return out
    want = {
        "input_total": {"transparent_input_total", "shielded_input_total", "prior_step_input_total"},
        "output_total": {"request_total", "balance"},
        "transparent_input_total": {"transparent_inputs"},
        "shielded_input_total": {"shielded_inputs"},
        "prior_step_input_total": {"prior_step_inputs"},
    }
    for var, need in want.items():
        got = def_names(var)
        missing = sorted(n for n in need if n not in got)
        if missing:
            chk.fail("BAL", "total/" + var, "%s is no longer computed from %s (computed from %s)"
                     % (var, missing, sorted(x for x in got if not x.startswith("call:"))[:8]),
                     fp.span.loc())
        else:
            chk.ok("BAL", "%s is computed from %s" % (var, sorted(need)), sample=True)


def double_spend(chk, w, ms):
    """every input of every step is inserted into a consumed-set and a failed insertion (already
    present) is a double-spend error"""
    body = ms.body
    du = defuse.DefUse(body)
    cyc = sqlfx.cyclic_blocks(body)
    ins = [(bb, t) for bb, t in body.calls() if t.callee.indirect is None and
           re.search(r"BTreeSet::<.*>::insert$|BTreeSet<.*>::insert$", t.callee.target_p())]
    n = 0
    kinds = set()
    for bb, t in ins:
        names = _names(body, du, t.args[0])
        which = [x for x in names if x.startswith("consumed_")]
        if not which:
            continue
        n += 1
        # the set lives across all steps: it is created before the loop over the steps
        sl = _ref_local(body, du, t.args[0])
        created = [d for d in du.defs.get(sl, [])] if sl is not None else []
        if created and all(k == "call" and bi not in cyc for k, bi, _x in created):
            chk.ok("VC-3", "multi_step: %s is created once, before the loop over the steps" % which[0])
        else:
            chk.fail("VC-3", "multi_step/set-lifetime/%s" % which[0], "the set %s that detects repeated "
                     "inputs is (re)created inside the loop over the steps: an input used by two "
                     "different steps is not detected" % which[0], t.span.loc())
        res = S.after_call(body, bb, S.B(False))
        rets = {rv for _b, rv in res.returns} if res else {"?"}
        aggs = {a.rv.agg[2] for _b, a in res.aggs if a.rv.agg[1] == PERR} if res else set()
        if res is not None and rets <= {"variant:Err"} and any(x.endswith("DoubleSpend") for x in aggs):
            kinds.add(which[0])
            chk.ok("VC-3", "multi_step: an input already in %s is rejected (%s) [%s]"
                   % (which[0], sorted(aggs), t.span.loc()), sample=True)
        else:
            chk.fail("VC-3", "multi_step/insert-unchecked#%d" % n, "an input is recorded in %s without "
                     "rejecting a repeated one: the same note/coin could be selected twice"
                     % which[0], t.span.loc())
    if n < 3:
        chk.fail("VC-3", "multi_step/insert-sites", "only %d consumed-set insertions in multi_step "
                 "(prior-step outputs, transparent inputs and shielded inputs are expected)" % n,
                 ms.span.loc())


def _ref_local(body, du, op):
    """the local behind `&mut local` (through reborrows)"""
    n = 0
    while op is not None and op.kind in ("copy", "move") and n < 8:
        n += 1
        d = du.single(op.place.local)
        if d is None or d[0] != "stmt":
            return None
        rv = d[2].rv
        if rv.kind in ("ref", "raw"):
            if not rv.place.proj:
                return rv.place.local
            if tuple(rv.place.proj) == ("*",):
                op = zf.Op("copy", zf.Place([rv.place.local]))
                continue
            return None
        if rv.kind == "use":
            op = rv.ops[0]
            continue
        return None
    return None


def lock_expiry(chk, w):
    """LOCKEXP: a proposal's inputs are locked "until target_height + request.for_blocks()" - the height the
    proposal is built for, not the (older) anchor height: an expiry counted from the anchor lapses at least
    the confirmation depth early, and with a short window the lock is never in force, so a concurrent
    proposal selects the same notes. Type-resolved: the expiry handed to lock_proposal_inputs is the result
    of `TargetHeight + blocks`."""
    n = 0
    for f in sorted(w.fns.values(), key=lambda f: f.p):
        if f.crate.name != "zcash_client_backend" or f.body is None or "::tests" in f.p or "::testing" in f.p:
            continue
        b = f.body
        du = None
        for bb, t in b.calls():
            if b.blocks[bb].cleanup or t.callee.indirect is not None or \
                    not t.callee.target_p().endswith("locking::lock_proposal_inputs") or len(t.args) < 4:
                continue
            du = du or defuse.DefUse(b)
            o = du.origin(t.args[3])
            while o[0] == "call" and re.search(r"::(into|from)$", o[1]) and o[2]:
                o = o[2][0]
            n += 1
            name = f.p.rsplit("::", 1)[-1]
            if o[0] == "call" and re.search(r"<.*::TargetHeight as core::ops::Add<.*>>::add$", o[1]) and \
                    len(o[2]) == 2 and "for_blocks(" in defuse.show(o[2][1]):
                chk.ok("LOCKEXP", "%s: inputs are locked until TargetHeight + request.for_blocks()" % name, sample=(n == 1))
            else:
                chk.fail("LOCKEXP", name, "%s locks its inputs until `%s`, not until the target height plus the requested "
                         "window" % (name, defuse.show(o)[:120]), t.span.loc())
    if n < 4:
        chk.fail("LOCKEXP", "sites", "expected the lock_proposal_inputs calls of the four propose_* functions, found %d" % n)


def sql_alias_siblings(chk, w):
    """ALIAS: several queries compute the same derived column - e.g. `max_shielding_input_height`, the height
    from which an internally received (shielded-by-us) note counts its untrusted confirmations. The column
    feeds one Rust-side policy test, so every query that defines it must define it by the same expression:
    a MIN where the others say MAX makes selection and balance disagree about the same note."""
    import sqlfx
    fx = sqlfx.SqlFx(w, extract.REPO)
    defs = {}
    for fid, sites in fx.sites.items():
        f = w.fns[fid]
        if "::tests::" in f.p or "::testing" in f.p or "::migrations::" in f.p:
            continue
        for text in sorted({x[3] for x in sites}):
            flat = re.sub(r"--[^\n]*", " ", text)
            flat = re.sub(r"\s+", " ", flat)
            for m in re.finditer(r"([A-Za-z_]+\([^()]*\)|NULL|[A-Za-z_.]+) AS (max_shielding_input_height|min_shielding_input_trust)\b", flat):
                expr = re.sub(r"\b[a-z_]+\.", "", m.group(1)).upper()
                defs.setdefault(m.group(2), {}).setdefault(expr, set()).add(f.p.rsplit("::", 1)[-1])
    n = 0
    for alias, exprs in sorted(defs.items()):
        real = {e: fs for e, fs in exprs.items() if e != "NULL"}
        n += 1
        if len(real) == 1:
            chk.ok("ALIAS", "`%s` is defined as %s in all %d queries that compute it" % (
                alias, list(real)[0], sum(len(v) for v in real.values())), sample=True)
        else:
            chk.fail("ALIAS", alias, "`%s` is defined differently by sibling queries: %s" % (
                alias, {e: sorted(fs) for e, fs in real.items()}))
    if n < 1:
        chk.fail("ALIAS", "missing", "no query defining max_shielding_input_height found")


def no_growth(chk, w):
    """NOGROW: within the selection loop the INPUTS held for the step are always a whole query result: the list of
    selected transparent outputs (and the shielded selection) is replaced by each gather, never grown with
    push / extend / append. A second query returns a superset of what the first returned, so growing the list
    with its result puts the same coin into the step twice - and Step::from_parts, which only sums, accepts
    it. Who-may-mutate over propose_transaction: no growth call on a local whose elements are wallet inputs."""
    roots = [f for f in w.fns.values() if re.search(r"GreedyInputSelector<DbT> as .*InputSelector>::propose_transaction$", f.p)]
    if len(roots) != 1:
        chk.fail("NOGROW", "missing", "GreedyInputSelector::propose_transaction not found")
        return
    b = roots[0].body
    du = defuse.DefUse(b)

    def recv_local(op):
        for _ in range(6):
            if op.kind not in ("copy", "move"):
                return None
            d = du.single(op.place.local)
            if d is None or d[0] != "stmt":
                return None
            rv = d[2].rv
            if rv.kind == "ref":
                return rv.place.local
            if rv.kind == "use":
                op = rv.ops[0]
                continue
            return None
        return None
    INPUT_TY = re.compile(r"WalletTransparentOutput|WalletUtxo|ReceivedNote<|SpendableNotes<|ShieldedInputs<")
    held = [i for i, (ty, _n) in enumerate(b.locals) if ty.startswith("core::vec::Vec<") and INPUT_TY.search(ty)]
    grown = []
    for bb, t in b.calls():
        if b.blocks[bb].cleanup or t.callee.indirect is not None or not t.args:
            continue
        if re.search(r"Vec::<T, A>::(extend|push|append|insert|extend_from_slice)$|Extend<.*>>::extend$", t.callee.target_p()):
            l = recv_local(t.args[0])
            if l in held:
                grown.append((l, t))
    if not held:
        chk.fail("NOGROW", "held", "no local list of wallet inputs found in propose_transaction")
    elif not grown:
        chk.ok("NOGROW", "propose_transaction: the %d local list(s) of wallet inputs are only ever assigned whole query results, "
               "never grown" % len(held), sample=True)
    else:
        l, t = grown[0]
        chk.fail("NOGROW", "propose_transaction/%s" % (b.local_name(l) or "inputs"), "the list of selected inputs `%s` is grown with "
                 "%s: a later query's result overlaps what is already held, so an input can enter the step twice"
                 % (b.local_name(l), t.callee.target_p().rsplit("::", 1)[-1]), t.span.loc())


def confirmations(chk, w):
    """select_unspent_notes (the send-max query): a note whose transaction does not have the
    confirmations the policy requires, and which the wallet has not marked witness-stabilized, is
    never returned to a Spendable / UnspentOrError request.  Decided on the MIR of the row
    decision closure by assuming the policy test fails and the row flag is false."""
    f = w.by_p.get("zcash_client_sqlite::wallet::common::select_unspent_notes", [])
    if len(f) != 1:
        chk.fail("CONF", "select_unspent_notes/missing", "select_unspent_notes not found")
        return
    f = f[0]
    clos = [g for g in w.fns.values() if g.is_closure() and g.root == f.id]
    # the row mapper: which tuple position carries the witness_stabilized column
    pos = None
    for g in clos:
        du = defuse.DefUse(g.body)
        for blk in g.body.blocks:
            for s in blk.stmts:
                if s.kind == "=" and s.rv.kind == "agg" and s.rv.agg[0] == "tuple" and len(s.rv.ops) >= 3:
                    for i, o in enumerate(s.rv.ops):
                        if "'witness_stabilized'" in defuse.show(du.origin(o)):
                            pos = i
    dec = [g for g in clos if any(t.callee.indirect is None and
                                  t.callee.target_p().endswith("::confirmations_until_spendable")
                                  for _bb, t in g.body.calls())]
    if pos is None or len(dec) != 1:
        chk.fail("CONF", "shape", "row mapper / decision closure of select_unspent_notes not "
                 "recognised (flag position %s, decision closures %d)" % (pos, len(dec)), f.span.loc())
        return
    g = dec[0]
    b = g.body
    du = defuse.DefUse(b)
    inject = {}
    # policy test: `confirmations_until_spendable(..) == 0` is false
    for bi, blk in enumerate(b.blocks):
        for si, s in enumerate(blk.stmts):
            if s.kind == "=" and s.rv.kind == "bin" and s.rv.op in ("Eq", "Ne"):
                o = [defuse.show(du.origin(x)) for x in s.rv.ops]
                if o[0].startswith("confirmations_until_spendable(") and o[1] == "0":
                    inject[(bi, si)] = S.B(s.rv.op == "Ne")
            # the row's witness_stabilized flag is false
            if s.kind == "=" and s.rv.kind == "use" and s.rv.ops[0].kind in ("copy", "move") and \
                    s.ty == "bool" and s.rv.ops[0].place.proj and \
                    s.rv.ops[0].place.proj[-1] == ".%d" % pos and \
                    re.search(r"Continue\)\.0\.%d$" % pos, defuse.show(du.origin(s.rv.ops[0]))):
                inject[(bi, si)] = S.B(False)
    if len(inject) < 2:
        chk.fail("CONF", "anchors", "policy test or witness_stabilized binding not found in the "
                 "decision closure (%d of 2)" % len(inject), g.span.loc())
        return
    # request kinds that demand eligibility
    names = [v["name"] for v in (w.adts.get("zcash_client_sqlite::wallet::common::NoteRequest") or
                                 {"variants": []})["variants"]]
    facts = {}
    for bi, blk in enumerate(b.blocks):
        t = blk.term
        if t.kind == "switch" and t.discr.kind in ("copy", "move") and not t.discr.place.proj:
            for s in blk.stmts:
                if s.kind == "=" and s.place.local == t.discr.place.local and s.rv.kind == "disc":
                    ty = b.local_ty(s.rv.place.local) if not s.rv.place.proj else ""
                    o = defuse.show(du.origin_place(s.rv.place))
                    if "NoteRequest" in ty or "NoteRequest" in o or re.search(r"arg0\.\d+", o):
                        key = S._disc_key(b, du, bi, t.discr.place.local)
                        arms = {names[v] for v, _t in t.arms if isinstance(v, int) and v < len(names)}
                        if key and "Unspent" in names and ("Spendable" in arms or "Unspent" in arms
                                                           or "UnspentOrError" in arms):
                            facts[key] = frozenset(i for i, n_ in enumerate(names) if n_ != "Unspent")
    if not facts:
        chk.fail("CONF", "request-kind", "the decision closure does not branch on the NoteRequest kind",
                 g.span.loc())
        return

    def some_reached(inj):
        res = S.explore(b, 0, {}, inject=inj, du=du, facts=dict(facts))
        if res is None or res.too_big:
            return None
        return [a for _bb, a in res.aggs if a.rv.agg[1] == "core::option::Option" and a.rv.agg[2] == "Some"
                and a.ty.startswith("core::option::Option<zcash_client_backend::wallet::ReceivedNote")]
    got = some_reached(inject)
    ctl = some_reached({})
    if got is None or ctl is None:
        chk.fail("CONF", "undecided", "exploration too large", g.span.loc())
        return
    if ctl:
        chk.ok("control", "with the policy test unconstrained the note IS returned (the analysis "
               "sees the success path)")
    if not got and ctl:
        chk.ok("CONF", "select_unspent_notes: without the policy's confirmations and without the "
               "witness_stabilized flag no note is returned to a Spendable/UnspentOrError request",
               sample=True)
    elif not ctl:
        chk.fail("control", "conf-blind", "the success path of the decision closure is not seen")
    else:
        chk.fail("CONF", "select_unspent_notes/bypass", "a note is returned as spendable although "
                 "confirmations_until_spendable(..) != 0 and the row is not witness_stabilized: the "
                 "confirmations policy can be bypassed on the send-max path", got[0].span.loc())


def anchor_policy(chk, w):
    """wherever a caller supplies both an anchor height and a confirmations policy to
    InputSelector::propose_transaction, the two come from the same policy value: the anchor is
    either that policy's anchor_height(..) or the wallet's anchor for that policy's confirmation
    count.  Otherwise note eligibility and the proposal's anchor drift apart."""
    n = 0
    for f in sorted(w.fns.values(), key=lambda f: f.p):
        if vc.is_test(f) or not f.p.startswith("zcash_client_backend::data_api::wallet"):
            continue
        du = None
        for bb, t in f.body.calls():
            if f.body.blocks[bb].cleanup or t.callee.indirect is not None:
                continue
            if not t.callee.target_p().endswith("InputSelector::propose_transaction") and \
                    not (t.callee.p or "").endswith("InputSelector::propose_transaction"):
                continue
            tg = [w.fns[m] for m in w.trait_impls.get(t.callee.id, []) if m in w.fns]
            argn = tg[0].argnames if tg else None
            if not argn or "anchor_height" not in argn or "confirmations_policy" not in argn:
                continue
            du = du or defuse.DefUse(f.body)
            ia, ip = argn.index("anchor_height"), argn.index("confirmations_policy")
            oa, op_ = du.origin(t.args[ia]), du.origin(t.args[ip])
            pol = defuse.show(defuse.strip_refs(op_))
            anc = defuse.show(oa)
            n += 1
            m = re.search(r"anchor_height\(&?\*?([^,]+), ", anc)
            src = m.group(1) if m else None
            if src is None and "get_target_and_anchor_heights(" in anc:
                gt = S.find_calls(f.body, r"::get_target_and_anchor_heights$")
                if len(gt) == 1 and len(gt[0][1].args) == 2:
                    m2 = re.match(r"(.+)\.trusted$", defuse.show(du.origin(gt[0][1].args[1])))
                    src = m2.group(1) if m2 else None
            if src is not None and src.lstrip("&*") == pol.lstrip("&*"):
                chk.ok("ANCHOR", "%s: anchor and confirmations policy passed to the selector come "
                       "from the same policy (%s) [%s]" % (f.p.rsplit("::", 1)[-1], pol, t.span.loc()),
                       sample=True)
            else:
                chk.fail("ANCHOR", "%s#%d" % (f.p, n), "the selector is given the anchor %s but the "
                         "confirmations policy %s: notes are judged eligible under one policy and "
                         "anchored under another" % (anc[:90], pol[:60]), t.span.loc())
    return n


def lock_filter(chk, w):
    """A note locked by somebody else's in-flight proposal is not spendable unless the caller's
    LockedInputPolicy admits it. So whatever LockFilter the proposal-building code hands to the
    wallet's selection queries must be LockFilter::Policy(<the caller's policy>), on every path — not
    Unfiltered, not a constant policy, not a choice that depends on something else."""
    LF = "zcash_client_backend::data_api::locking::LockFilter"
    n = 0
    for f in sorted(w.fns.values(), key=lambda f: f.p):
        root = w.fns.get(f.root) if f.is_closure() else f
        if root is None or vc.is_test(root) or "zcash_client_backend::data_api::wallet" not in root.p:
            continue
        b = f.body
        du = None
        ordn = {}
        for bb, t in b.calls():
            if b.blocks[bb].cleanup or t.callee.indirect is not None:
                continue
            for i, a in enumerate(t.args):
                if a.kind not in ("copy", "move") or a.place.proj:
                    continue
                ty = b.local_ty(a.place.local) or ""
                if not ty.startswith(LF):
                    continue
                du = du or defuse.DefUse(b)
                o = du.origin(a)
                k0 = "%s/%s" % (f.p.replace("zcash_client_backend::data_api::wallet::", ""),
                                t.callee.target_p().rsplit("::", 1)[-1])
                ordn[k0] = ordn.get(k0, 0) + 1
                key = "%s#%d" % (k0, ordn[k0])
                n += 1
                txt = defuse.show(o)
                good = o[0] == "agg" and o[1] == LF + "::Policy" and len(o[2]) == 1
                src = defuse.show(o[2][0]) if good else ""
                if good:
                    inner = defuse.strip_refs(o[2][0])
                    nm = None
                    if inner[0] == "arg":
                        nm = (f.argnames or [None] * 30)[inner[1]] if inner[1] < len(f.argnames or []) else None
                    elif inner[0] == "call" and inner[1].endswith("::locked_input_policy"):
                        nm = "locked_input_policy"
                    elif inner[0] == "field":
                        nm = inner[2][1:]
                    elif inner[0] == "local":
                        nm = b.local_name(inner[1])
                    good = bool(nm) and "locked_input_policy" in nm or (
                        inner[0] == "field" and f.is_closure() and defuse.strip_refs(inner[1]) == ("arg", 0))
                if good:
                    chk.ok("LOCKF", "%s: %s is given LockFilter::Policy(%s)" % (k0, t.callee.target_p().rsplit("::", 1)[-1],
                                                                             src[:60]), sample=(n == 1))
                else:
                    chk.fail("LOCKF", key, "%s is given the lock filter %s instead of LockFilter::Policy(<the caller's "
                             "locked-input policy>): notes locked by another proposal can be selected"
                             % (t.callee.target_p().rsplit("::", 1)[-1], txt[:160]), t.span.loc())
    return n


def splice(chk, w):
    repo = extract.REPO
    for fpath, (helpers, params) in sorted(SPLICE.items()):
        fs = w.by_p.get(fpath, [])
        if len(fs) != 1:
            chk.fail("SPLICE", fpath + "/missing", "selection query builder %s not found" % fpath)
            continue
        f = fs[0]
        called = set()
        seen, _ = w.reach([f.id], stop=lambda x: w.fns[x].crate.name != sqlfx.CRATE or
                          (x != f.id and not w.fns[x].p.startswith("zcash_client_sqlite::wallet::")))
        for x in seen:
            g = w.fns[x]
            if g.crate.name != sqlfx.CRATE:
                continue
            called.add(g.p.rsplit("::", 1)[-1])
        src = zf.fn_source(repo, f)
        short = fpath.rsplit("::", 1)[-1]
        for h in helpers:
            if h in called:
                chk.ok("SPLICE", "%s splices %s" % (short, h))
            else:
                chk.fail("SPLICE", "%s/%s" % (fpath, h), "%s no longer splices %s into its query: outputs "
                         "that are spent, expired, immature or locked could be selected" % (short, h),
                         f.span.loc())
        for p in params:
            # bound (named_params!) and used in the SQL text
            if len(re.findall(re.escape('"' + p + '"'), src)) >= 1:
                chk.ok("SPLICE", "%s binds and uses %s" % (short, p))
            else:
                chk.fail("SPLICE", "%s/%s" % (fpath, p), "%s no longer binds/uses %s" % (short, p),
                         f.span.loc())


def lock(chk, w):
    fx = sqlfx.SqlFx(w, extract.REPO)
    fs = [f for f in w.fns.values() if f.p == "zcash_client_sqlite::wallet::locking::lock_outputs"]
    if len(fs) != 1:
        chk.fail("LOCK", "lock_outputs/missing", "wallet::locking::lock_outputs not found")
        return
    f = fs[0]
    if fx.has_witness(f):
        reads = [1 for g in vc.owned(w, f) for _b, k, _t, _s in fx.sites.get(g.id, ()) if k == "R"]
        writes = f.id in fx.maywrite()
        if writes:
            chk.ok("LOCK", "lock_outputs holds a transaction by type; its conflict reads (%d direct) and "
                   "its writes share it" % len(reads), sample=True)
        else:
            chk.fail("LOCK", "lock_outputs/no-write", "lock_outputs no longer writes", f.span.loc())
    else:
        chk.fail("LOCK", "lock_outputs/witness", "lock_outputs does not take a transaction: its conflict "
                 "check and its writes are not atomic", f.span.loc())
