"""C18 — a committed migration advances safely and survives persistence (structural clauses).

  LIFE   every store to a transaction's lifecycle state is a forward move for every state the
         dominating tests admit (from-set inferred from discriminant tests on the same place and
         from the `find` predicate that produced the reference); the only backward moves are the
         rollback un-mining inside truncate_to_height and the documented rebuild (new txid)
  STATUS every store to the migration status is unreachable when is_terminal() holds (terminal
         statuses are never left), except the chain-derived Complete -> InProgress demotion in
         truncate_to_height
  GUARD  next_broadcastable offers a transaction only if it is Proved, due, alive, not set
         aside, not reported failed, its dependencies mined and it is not expired: assuming any one
         guard fails, the filter cannot return true; the result is a single Option (at most one)
  COLS   the sqlite store writes and reads back every column of every migration table
         (schema <-> INSERT <-> SELECT agreement), and at most one non-terminal migration per
         account is enforced by a partial unique index derived from MigrationStatus::terminal()
Not decided: liveness, value-level save/load equality, oracle interplay.
"""
import re

import assume as S
import defuse
import extract
import sqlfx
import zf
from common import Check

TXS = "zcash_pool_migration::engine::MigrationTxState"
ST = "zcash_pool_migration::engine::MigrationStatus"
MS = "zcash_pool_migration::engine::MigrationState"
RANK = {"AwaitingSignature": 0, "Signed": 1, "Proved": 2, "Broadcast": 3, "Mined": 4}


def is_test(f):
    return "::tests::" in f.p or "::testing" in f.p or f.span.file.endswith("tests.rs")


def reach_without(body, start, target, removed):
    seen = set()
    q = [start]
    while q:
        b = q.pop()
        if b in seen or b == removed:
            continue
        seen.add(b)
        if b == target:
            return True
        q.extend(body.succs(b))
    return False


def variant_names(w, adt):
    return [v["name"] for v in w.adts[adt]["variants"]]


def local_from_set(w, f, store_bb, place, adt):
    """variants of `adt` admitted at store_bb by dominating discriminant switches on `place`"""
    body = f.body
    names = variant_names(w, adt)
    allowed = set(names)
    found = False
    want = repr(place)
    for bi, blk in enumerate(body.blocks):
        t = blk.term
        if t.kind != "switch" or t.discr.kind not in ("copy", "move") or t.discr.place.proj:
            continue
        dl = t.discr.place.local
        src = None
        for s in blk.stmts:
            if s.kind == "=" and not s.place.proj and s.place.local == dl and s.rv.kind == "disc":
                src = s.rv.place
        if src is None or repr(src) != want and not same_place(body, src, place):
            continue
        if bi == store_bb or not body.dominates(bi, store_bb):
            continue
        found = True
        ok = set()
        armvals = {v for v, _ in t.arms}
        for v, tgt in t.arms:
            if 0 <= v < len(names) and store_bb in S.explore(body, tgt, {}, avoid=(bi,)).blocks:
                ok.add(names[v])
        if store_bb in S.explore(body, t.otherwise, {}, avoid=(bi,)).blocks:
            for i, n in enumerate(names):
                if i not in armvals:
                    ok.add(n)
        allowed &= ok
    return allowed, found


def same_place(body, a, b):
    """places equal up to copies of the same base reference"""
    if a.proj != b.proj:
        return False
    if a.local == b.local:
        return True
    du = defuse.DefUse(body)
    oa, ob = du.origin_local(a.local), du.origin_local(b.local)
    return oa == ob and oa[0] != "local"


def closure_true_variants(w, clo, adt):
    """variants v of adt for which the predicate closure can return true, judged by its
    discriminant switches on a `.state` place (all variants if it has none)"""
    body = clo.body
    names = variant_names(w, adt)
    allowed = set(names)
    for bi, blk in enumerate(body.blocks):
        t = blk.term
        if t.kind != "switch" or t.discr.kind not in ("copy", "move") or t.discr.place.proj:
            continue
        src = None
        for s in blk.stmts:
            if s.kind == "=" and not s.place.proj and s.place.local == t.discr.place.local \
                    and s.rv.kind == "disc":
                src = s.rv.place
        if src is None or not src.proj or src.proj[-1] != ".state":
            continue
        ok = set()
        armvals = {v for v, _ in t.arms}
        for v, tgt in t.arms:
            res = S.explore(body, tgt, {})
            if any(rv not in ("const:0", "bool:False") for _b, rv in res.returns):
                if 0 <= v < len(names):
                    ok.add(names[v])
        res = S.explore(body, t.otherwise, {})
        if any(rv not in ("const:0", "bool:False") for _b, rv in res.returns):
            for i, n in enumerate(names):
                if i not in armvals:
                    ok.add(n)
        allowed &= ok
    return allowed


def to_variants(f, du, op, adt_prefix):
    """set of variant names the stored operand may be (None = caller supplied / unknown)"""
    o = du.origin(op)
    out = set()

    def walk(o, depth=0):
        if o[0] == "agg" and o[1].startswith(adt_prefix + "::"):
            out.add(o[1].rsplit("::", 1)[1])
            return True
        if o[0] == "local" and depth < 4:
            # several definitions: all must be aggregates of the adt
            okk = True
            ds = du.defs.get(o[1], [])
            if not ds:
                return False
            for kind, _bi, x in ds:
                if kind == "stmt":
                    if x.rv.kind == "agg" and x.rv.agg[0] == "adt" and x.rv.agg[1] == adt_prefix:
                        out.add(x.rv.agg[2])
                    elif x.rv.kind == "use" and x.rv.ops[0].kind in ("copy", "move"):
                        okk = walk(du.origin(x.rv.ops[0]), depth + 1) and okk
                    else:
                        okk = False
                else:
                    okk = False
            return okk
        if o[0] == "field" and o[2][1:].isdigit() and o[1][0] == "local" and depth < 6:
            # tuple produced by a match: every definition of the tuple local is a tuple
            # aggregate; take the operand at that index
            idx = int(o[2][1:])
            ds = du.defs.get(o[1][1], [])
            okk = bool(ds)
            for kind, _bi, x in ds:
                if kind == "stmt" and x.rv.kind == "agg" and x.rv.agg[0] == "tuple" and \
                        idx < len(x.rv.ops):
                    okk = walk(du.origin(x.rv.ops[idx]), depth + 1) and okk
                else:
                    okk = False
            return okk
        if o[0] in ("field", "variant", "proj") and depth < 6:
            return walk(o[1], depth + 1)
        if o[0] == "agg" and o[1] == "tuple":
            okk = False
            for x in o[2]:
                if walk(x, depth + 1):
                    okk = True
            return okk
        return False
    okk = walk(o)
    return (out if okk and out else None), defuse.show(o)


def main(tier):
    chk = Check("C18", "other", tier)
    chk.explanation = (
        "Typestate-style rules over the MIR of zcash_pool_migration and the sqlite migration "
        "store. LIFE/STATUS classify every store to the lifecycle/status fields by the states the "
        "dominating tests admit and require forward moves only; GUARD proves by assume-analysis "
        "that next_broadcastable cannot offer a transaction when any one of its seven conditions "
        "fails; COLS compares the column sets of schema, INSERT and SELECT of the store. Not "
        "decided: liveness (never silently holding value), value-level save/load equality.")
    chk.trusted = ["rustc MIR", "variant order of the enums as declared", "SQL literal lexer"]
    chk.rule("LIFE", "lifecycle stores are forward moves for every admitted pre-state", floor=6)
    chk.rule("STATUS", "status stores are unreachable from a terminal status", floor=5)
    chk.rule("GUARD", "broadcast is offered only when all seven conditions hold", floor=9)
    chk.rule("COLS", "store schema / INSERT / SELECT column agreement", floor=8)
    chk.rule("DIRTY", "every state mutation of advance_migration marks the state dirty and a dirty "
                      "state is persisted before returning", floor=8)
    chk.rule("CHANGED", "the store's rollback persists whenever the rolled-back state differs", floor=1)
    chk.rule("TAKE", "hand-out for broadcast only from Proved", floor=1)
    chk.rule("READY", "the status view reports ready only with mined dependencies", floor=2)
    chk.rule("FIXPT", "the dead set is closed over dependents to a fixpoint", floor=1)
    chk.rule("SWEEP", "promotions precede every recorded determination in advance_migration", floor=1)
    chk.rule("control", "positive controls", floor=2)

    w = zf.World(extract.facts_dir("all"), ["zcash_pool_migration", "zcash_client_sqlite",
                                            "zcash_pool_migration_memory"])
    if TXS not in w.adts or ST not in w.adts:
        chk.infra("lifecycle enums not found")
    names = variant_names(w, TXS)
    if names != ["AwaitingSignature", "Signed", "Proved", "Broadcast", "Mined"]:
        chk.fail("LIFE", "enum-order", "MigrationTxState variants are %s: the lifecycle order the "
                 "rule assumes has changed" % names)

    # ------------------------------------------------------------------ LIFE / STATUS
    nstores = 0
    for f in sorted(w.fns.values(), key=lambda f: (f.span.file, f.span.line)):
        if is_test(f):
            continue
        body = f.body
        du = None
        ordn = {}
        for bi, blk in enumerate(body.blocks):
            for s in blk.stmts:
                if s.kind != "=" or s.ty not in (TXS, ST) or not s.place.proj or \
                        s.place.proj[-1] not in (".state", ".status"):
                    continue
                nstores += 1
                du = du or defuse.DefUse(body)
                fld = s.place.proj[-1]
                k0 = "%s/%s" % (f.p, fld)
                ordn[k0] = ordn.get(k0, 0) + 1
                key = "%s#%d" % (k0, ordn[k0])
                loc = s.span.loc()
                if s.ty == TXS:
                    life_store(chk, w, f, du, bi, s, key, loc)
                else:
                    status_store(chk, w, f, du, bi, s, key, loc)
    chk.analysed["lifecycle_and_status_stores"] = nstores

    guards(chk, w)
    take_guard(chk, w, names)
    ready_needs_deps(chk, w)
    dead_set_fixpoint(chk, w)
    sweep_order(chk, w)
    columns(chk, w)
    dirty_rules(chk, w)
    change_detect(chk, w)
    controls(chk, w)
    chk.finish()


def life_store(chk, w, f, du, bi, s, key, loc):
    body = f.body
    tos, txt = to_variants(f, du, s.rv.ops[0], TXS) if s.rv.kind == "use" else (None, repr(s.rv))
    if s.rv.kind == "agg" and s.rv.agg[0] == "adt":
        tos, txt = {s.rv.agg[2]}, s.rv.agg[2]
    base = defuse.strip_refs(du.origin_local(s.place.local))
    # a hypothetical copy, not the live state
    if _is_clone(base):
        chk.ok("LIFE", "%s: store into a cloned (hypothetical) state [%s]" % (f.p, loc))
        return
    frm, found = local_from_set(w, f, bi, s.place, TXS)
    how = "dominating tests" if found else "no test"
    # reference produced by find(closure): intersect with the predicate's admitted states
    clo = _find_closure(w, base)
    if clo is not None:
        cv = closure_true_variants(w, clo, TXS)
        if cv != set(RANK):
            frm &= cv
            how = "find predicate %s" % clo.p.rsplit("::", 1)[-1] + (" + tests" if found else "")
    if tos is None:
        chk.fail("LIFE", key, "lifecycle state overwritten with a caller-supplied / unknown value "
                 "(%s); admitted pre-states: %s" % (txt, sorted(frm)), loc)
        return
    back = sorted("%s->%s" % (a, b) for a in frm for b in tos if RANK[a] > RANK[b])
    if not back:
        chk.ok("LIFE", "%s: %s -> %s is forward-only (%s) [%s]"
               % (f.p, sorted(frm, key=RANK.get), sorted(tos), how, loc), sample=True)
        return
    name = f.p.rsplit("::", 1)[-1]
    if name == "truncate_to_height" and frm == {"Mined"} and tos == {"Broadcast"}:
        # must be under a comparison of the mined height with the rollback height
        cmp_ok = any(t.callee.indirect is None and re.search(r"PartialOrd>?::(gt|lt|ge|le)$",
                                                              t.callee.target_p())
                     and body.dominates(b2, bi) for b2, t in body.calls())
        if cmp_ok:
            chk.ok("LIFE", "%s: Mined -> Broadcast only under the mined-height > rollback-height "
                   "test (the property's rollback) [%s]" % (f.p, loc), sample=True)
            chk.exception("LIFE", key, "rollback un-mining: the one backward move the property allows")
            return
    if name.startswith("rebuild_expired_transfer"):
        same_base_txid = any(
            s2.kind == "=" and s2.place.proj and s2.place.proj[-1] == ".txid" and
            s2.place.local == s.place.local for blk in body.blocks for s2 in blk.stmts)
        state_test = any(
            blk.term.kind == "switch" and any(
                s2.kind == "=" and s2.rv.kind == "disc" and s2.rv.place.proj and
                s2.rv.place.proj[-1] == ".state" for s2 in blk.stmts)
            and body.dominates(b2, bi) for b2, blk in enumerate(body.blocks))
        if same_base_txid and state_test and "Mined" not in tos and "Broadcast" not in tos:
            chk.ok("LIFE", "%s: rebuild installs a different transaction (fresh txid stored on the "
                   "same row, state tested beforehand) [%s]" % (f.p, loc), sample=True)
            chk.exception("LIFE", key, "documented rebuild of an expired unmined transfer: a "
                                       "genuinely different transaction replaces the row")
            return
    chk.fail("LIFE", key, "lifecycle store admits backward moves %s (pre-states admitted by %s: %s; "
             "stored: %s)" % (back, how, sorted(frm, key=RANK.get), sorted(tos)), loc)


def _is_clone(o):
    while o and o[0] in ("field", "variant", "proj", "ref", "deref"):
        o = o[1]
    if o and o[0] == "call":
        if o[1].endswith("::clone"):
            return True
        # iterator chains over a clone: look at the receiver
        if o[2]:
            return _is_clone(defuse.strip_refs(o[2][0]))
    return False


def _find_closure(w, o):
    """closure Fn of the `find(pred)` call that produced the reference, if any"""
    seen = 0
    while o and seen < 16:
        seen += 1
        if o[0] == "call" and re.search(r"::(find|rfind)$", o[1]):
            for a in o[2]:
                a = defuse.strip_refs(a)
                if a[0] == "agg" and a[1].startswith("closure:"):
                    return w.fns.get(a[1][len("closure:"):])
            return None
        if o[0] in ("field", "variant", "proj", "ref", "deref"):
            o = o[1]
            continue
        if o[0] == "call" and o[2]:
            o = defuse.strip_refs(o[2][0])
            continue
        break
    return None


def status_store(chk, w, f, du, bi, s, key, loc):
    body = f.body
    tcalls = [(b2, t) for b2, t in body.calls() if t.callee.indirect is None and
              t.callee.target_p().endswith("::is_terminal")]
    guarded = False
    for b2, t in tcalls:
        if not body.dominates(b2, bi):
            continue
        res = S.after_call(body, b2, S.B(True))
        if res is not None and not res.too_big and bi not in res.blocks:
            guarded = True
    if guarded:
        chk.ok("STATUS", "%s: store to status unreachable when is_terminal() [%s]" % (f.p, loc),
               sample=True)
        return
    name = f.p.rsplit("::", 1)[-1]
    tos, txt = to_variants(f, du, s.rv.ops[0], ST) if s.rv.kind == "use" else (None, "")
    if name == "truncate_to_height" and tos == {"InProgress"}:
        # dominated by `self.status == Complete`
        eqs = [(b2, t) for b2, t in body.calls() if t.callee.indirect is None and
               re.search(r"MigrationStatus as core::cmp::PartialEq>::eq$", t.callee.target_p())
               and body.dominates(b2, bi)]
        okc = False
        for b2, t in eqs:
            o = [defuse.show(du.origin(a)) for a in t.args]
            res = S.after_call(body, b2, S.B(False))
            if any("Complete" in x for x in o) and res is not None and bi not in res.blocks:
                okc = True
        if okc:
            chk.ok("STATUS", "%s: Complete -> InProgress only when a rollback un-mined a transaction "
                   "[%s]" % (f.p, loc), sample=True)
            chk.exception("STATUS", key, "Complete is chain-derived: a rollback that un-mines a "
                                         "transaction revokes it (the property's rollback clause)")
            return
    chk.fail("STATUS", key, "store to the migration status is reachable from a terminal status "
             "(no dominating !is_terminal() test): terminal statuses could be left", loc)


# ---------------------------------------------------------------------- GUARD
def take_guard(chk, w, names):
    """A transaction is handed out for broadcast only from the state Proved: of the arms of the switch
    on the row's state in take_transaction_for_broadcast, exactly the Proved one can reach anything
    but an error return."""
    import assume as S2
    fs = [f for f in w.fns.values() if f.p.endswith("::take_transaction_for_broadcast") and
          "pool_migration::orchard_ironwood" in f.p and not f.is_closure() and not is_test(f)]
    if len(fs) != 1:
        chk.fail("TAKE", "missing", "take_transaction_for_broadcast not found (%d)" % len(fs))
        return
    f = fs[0]
    b, du = f.body, defuse.DefUse(f.body)
    sws = []
    for bi, blk in enumerate(b.blocks):
        t = blk.term
        if blk.cleanup or t.kind != "switch":
            continue
        o = du.origin(t.discr)
        if o[0] == "disc" and re.match(r"^state\(", defuse.show(o[1])):
            sws.append(bi)
    if len(sws) != 1:
        chk.fail("TAKE", "state-test", "expected one test of the row's state, found %d" % len(sws), f.span.loc())
        return
    t = b.blocks[sws[0]].term
    admitted = []
    arms = list(t.arms) + [("else", t.otherwise)]
    for v, tb in arms:
        if tb is None:
            continue
        res = S2.explore(b, tb, {}, limit=60000)
        rets = {rv for _b, rv in res.returns}
        if res.too_big or not rets <= {"variant:Err"}:
            if v == "else":
                admitted += [n for i, n in enumerate(names) if i not in [a for a, _x in t.arms]]
            elif isinstance(v, int) and v < len(names):
                admitted.append(names[v])
    if sorted(admitted) == ["Proved"]:
        chk.ok("TAKE", "take_transaction_for_broadcast goes on only from Proved; every other state returns an error",
               sample=True)
    else:
        chk.fail("TAKE", "admitted", "take_transaction_for_broadcast hands out a transaction whose state is %s: an "
                 "in-flight or unproved transaction can be handed out for broadcast" % sorted(admitted), f.span.loc())


def ready_needs_deps(chk, w):
    """The status view reports a step as ready only when the transaction's dependencies are mined:
    every `(true, Some(action), ..)` row of transaction_statuses lies on the true edge of deps_mined."""
    import guards as G
    n = 0
    for f in w.fns.values():
        if not re.search(r"MigrationState>::transaction_statuses(::\{closure#\d+\})*$", f.p) or is_test(f):
            continue
        b, du = f.body, defuse.DefUse(f.body)
        for bi, blk in enumerate(b.blocks):
            if blk.cleanup:
                continue
            for s in blk.stmts:
                if not (s.kind == "=" and s.rv.kind == "agg" and s.rv.agg[0] == "tuple" and len(s.rv.ops) == 3 and
                        s.rv.ops[0].kind == "const" and s.rv.ops[0].ty == "bool" and s.rv.ops[0].info.get("v")):
                    continue
                n += 1
                act = defuse.show(du.origin(s.rv.ops[1])).rsplit("::", 1)[-1].strip("{}")
                deps = False
                for sw, v, _tb in G.edge_conditions(b, bi):
                    o = du.origin(b.blocks[sw].term.discr)
                    if o[0] == "call" and o[1].endswith("::deps_mined") and G.truth(b.blocks[sw].term, v) is True:
                        deps = True
                if deps:
                    chk.ok("READY", "transaction_statuses: `ready, %s` only with the dependencies mined" % act, sample=(n == 1))
                else:
                    chk.fail("READY", "transaction_statuses/%s" % act, "a transaction is reported ready for %s without "
                             "its dependencies being tested as mined" % act, s.span.loc())
    if n < 2:
        chk.fail("READY", "missing", "expected the ready rows (Prove, Broadcast) of transaction_statuses, found %d" % n)


def dead_set_fixpoint(chk, w):
    """dead_set closes over dependents in whatever order the transactions are held: the pass that adds
    a transaction with a dead dependency is repeated until a pass adds nothing (the insertion sits in
    two nested loops and sets the flag whose being clear is the only way out of the outer one)."""
    fs = [f for f in w.fns.values() if re.search(r"MigrationState>::dead_set$", f.p) and not is_test(f)]
    if len(fs) != 1:
        chk.fail("FIXPT", "missing", "dead_set not found")
        return
    f = fs[0]
    b, du = f.body, defuse.DefUse(f.body)
    cyc = sqlfx.cyclic_blocks(b)
    ins = [bb for bb, t in b.calls() if not b.blocks[bb].cleanup and t.callee.indirect is None and
           t.callee.target_p().endswith("::insert") and bb in cyc]
    if not ins:
        chk.fail("FIXPT", "insert", "no insertion into the dead set inside a loop", f.span.loc())
        return
    ok = False
    why = "the closing pass is not repeated"
    for ib in ins:
        # loop headers: blocks that dominate the insertion and lie on a cycle with it
        hdrs = [h for h in (b.dominators().get(ib, set())) if h in cyc and ib in b.reachable(h) and h in b.reachable(ib)
                and any(p in b.reachable(h) and b.dominates(h, p) for p in b.preds().get(h, []) if p != h)]
        # a boolean flag set true after the insertion and tested on the way out
        flags = []
        for l, ds in du.defs.items():
            if b.local_ty(l) != "bool" or len(ds) < 2:
                continue
            sets_true = [bi for k, bi, x in ds if k == "stmt" and x.rv.kind == "use" and x.rv.ops[0].kind == "const" and
                         x.rv.ops[0].info.get("v")]
            if any(bi == ib or bi in b.reachable(ib) for bi in sets_true):
                tested = [sw for sw, blk in enumerate(b.blocks) if blk.term.kind == "switch" and sw in cyc and
                          (lambda r: r is not None and len(r) == 2 and r[1] == l)(
                              du.root_local(blk.term.discr.place) if blk.term.discr.kind in ("copy", "move") else None)
                          or (blk.term.kind == "switch" and sw in cyc and blk.term.discr.kind in ("copy", "move") and
                              not blk.term.discr.place.proj and du.single(blk.term.discr.place.local) is not None and
                              du.single(blk.term.discr.place.local)[0] == "stmt" and
                              du.single(blk.term.discr.place.local)[2].rv.kind in ("use", "un") and
                              du.single(blk.term.discr.place.local)[2].rv.ops[0].kind in ("copy", "move") and
                              du.single(blk.term.discr.place.local)[2].rv.ops[0].place.local == l)]
                if tested:
                    flags.append(l)
        depth = len(set(hdrs))
        if depth >= 2 and flags:
            ok = True
        else:
            why = "the insertion lies in %d nested loop(s) and %d growth flag(s) decide the exit" % (depth, len(flags))
    if ok:
        chk.ok("FIXPT", "dead_set repeats its closing pass until a pass adds nothing (fixpoint), whatever the order of "
               "the transactions", sample=True)
    else:
        chk.fail("FIXPT", "dead_set", "dead_set does not iterate to a fixpoint: %s — a dependent listed before its dead "
                 "dependency stays live" % why, f.span.loc())


def guards(chk, w):
    fs = [f for f in w.fns.values() if re.search(r"MigrationState>::next_broadcastable$", f.p)]
    if len(fs) != 1:
        chk.fail("GUARD", "next_broadcastable/missing", "next_broadcastable not found")
        return
    nb = fs[0]
    clos = [w.fns[c] for c in w.callees(nb.id) if w.fns[c].is_closure() and w.fns[c].parent == nb.id]
    # the filter predicate: the closure whose body reads `.state`
    filt = None
    for c in clos:
        if any(s.kind == "=" and s.rv.kind == "disc" and s.rv.place.proj and
               s.rv.place.proj[-1] == ".state" for blk in c.body.blocks for s in blk.stmts):
            filt = c
    if filt is None:
        chk.fail("GUARD", "next_broadcastable/filter", "filter predicate not found")
        return
    # it must be the predicate of Iterator::filter on self.transactions.iter()
    fcalls = S.find_calls(nb.body, r"Iterator::filter$|::filter$")
    if not any(filt.id in (t.callee.closures or []) for _b, t in fcalls):
        chk.fail("GUARD", "next_broadcastable/not-filter", "state predicate is not the filter of the "
                 "candidate iterator", nb.span.loc())
    body = filt.body
    FALSE = ("const:0", "bool:False")

    def only_false(res):
        return res is not None and not res.too_big and res.returns and \
            all(rv in FALSE for _b, rv in res.returns)

    # 1. state == Proved
    names = variant_names(w, TXS)
    okstate = False
    for bi, blk in enumerate(body.blocks):
        t = blk.term
        if t.kind == "switch" and any(s.kind == "=" and s.rv.kind == "disc" and s.rv.place.proj
                                      and s.rv.place.proj[-1] == ".state" for s in blk.stmts):
            armvals = {v for v, _ in t.arms}
            good = True
            for i, n in enumerate(names):
                tgt = dict(t.arms).get(i, t.otherwise)
                res = S.explore(body, tgt, {})
                if n != "Proved" and not only_false(res):
                    good = False
                if n == "Proved" and only_false(res):
                    good = False
            okstate = good
    if okstate:
        chk.ok("GUARD", "offered only in state Proved: every other variant forces `false`", sample=True)
    else:
        chk.fail("GUARD", "next_broadcastable/state", "a transaction not in state Proved can pass the "
                 "broadcast filter", filt.span.loc())

    du = defuse.DefUse(body)

    def guard(label, rx, fail_value, argcheck=None):
        calls = S.find_calls(body, rx)
        calls = [(b, t) for b, t in calls if argcheck is None or argcheck([defuse.show(du.origin(a))
                                                                           for a in t.args])]
        if len(calls) != 1:
            chk.fail("GUARD", "next_broadcastable/%s/missing" % label,
                     "guard %s not found in the broadcast filter (%d matches)" % (label, len(calls)),
                     filt.span.loc())
            return
        b, t = calls[0]
        res = S.after_call(body, b, S.B(fail_value))
        if only_false(res):
            chk.ok("GUARD", "%s: when it %s the filter returns false" %
                   (label, "holds" if fail_value else "fails"), sample=True)
        else:
            chk.fail("GUARD", "next_broadcastable/" + label, "the broadcast filter can return true "
                     "although guard %s is violated" % label, t.span.loc())

    guard("scheduled_height <= effective target", r"PartialOrd>?::le$", False,
          lambda a: "scheduled_height" in a[0] and "effective" in a[1])
    guard("not in the dead set", r"BTreeSet::<.*>::contains", True, lambda a: ".id" in a[1])
    guard("not set aside", r"core::slice::<impl \[.*\]>::contains$", True, lambda a: ".id" in a[1])
    guard("no broadcast failure reported", r"Option::<.*>::is_none$", False,
          lambda a: "broadcast_failure_at" in a[0])
    guard("dependencies mined", r"::deps_mined$", False, lambda a: "depends_on" in a[1])
    guard("not expired at the effective target", r"::is_expired$", True,
          lambda a: "effective" in a[1])
    # at most one: the result is min_by_key(..).map(id) of the filtered iterator
    mk = S.find_calls(nb.body, r"Iterator::min_by_key$|::min_by_key$")
    if mk and nb.output and nb.output.startswith("core::option::Option<"):
        chk.ok("GUARD", "at most one broadcast is offered: Option result of min_by_key over the filter")
    else:
        chk.fail("GUARD", "next_broadcastable/single", "result is not a single minimum of the "
                 "filtered candidates", nb.span.loc())
    # deps_mined: a dependency counts only when Mined, a missing one counts as not mined
    dm = [f for f in w.fns.values() if re.search(r"MigrationState>::deps_mined$", f.p)]
    okd = False
    if dm:
        for c in w.fns.values():
            if c.is_closure() and c.root == dm[0].id:
                tv = closure_true_variants(w, c, TXS)
                if tv == {"Mined"}:
                    okd = True
        uo = S.find_calls(w.fns[dm[0].id].body, r"unwrap_or$") + [
            (b, t) for c in w.fns.values() if c.is_closure() and c.root == dm[0].id
            for b, t in S.find_calls(c.body, r"Option::<T>::unwrap_or$")]
        dflt_false = any(a.kind == "const" and a.info.get("v") == 0 for _b, t in uo for a in t.args[1:])
        allc = any(re.search(r"::all$", t.callee.target_p()) for c in [dm[0]] for _b, t in c.body.calls()
                   if t.callee.indirect is None)
        if not (okd and dflt_false and allc) and _deps_mined_loop(w, dm[0]):
            chk.ok("GUARD", "deps_mined: a loop over the dependencies that goes on only past a found, Mined one; "
                   "`true` only after the last", sample=True)
        elif okd and dflt_false and allc:
            chk.ok("GUARD", "deps_mined: all dependencies, each Mined, unknown ids count as not mined",
                   sample=True)
        else:
            chk.fail("GUARD", "deps_mined/shape", "deps_mined no longer requires every dependency to "
                     "be Mined (mined-only=%s default-false=%s all=%s)" % (okd, dflt_false, allc),
                     dm[0].span.loc())
    else:
        chk.fail("GUARD", "deps_mined/missing", "deps_mined not found")


def _deps_mined_loop(w, f):
    """the explicit-loop form of deps_mined: `for dep in depends_on { match find(dep) { Some(t) if Mined => {}, _ =>
    return false } } true` - (1) an id that names no transaction returns false, (2) every state but Mined returns
    false, (3) `true` is returned only when the iteration over the parameter is exhausted"""
    import guards as G
    b = f.body
    du = defuse.DefUse(b)
    finds = [(bb, t) for bb, t in b.calls() if t.callee.indirect is None and not b.blocks[bb].cleanup and
             re.search(r"Iterator>?::find(::<.*>)?$", t.callee.target_p())]
    if len(finds) != 1:
        return False
    res = S.after_call(b, finds[0][0], S.E("Option", "None"))
    if res is None or not res.returns or {rv for _b, rv in res.returns} - {"bool:False", "const:0"}:
        return False
    variants = [v["name"] for v in (w.adts.get(TXS) or {"variants": []})["variants"]]
    if "Mined" not in variants:
        return False
    mined = variants.index("Mined")
    sws = []
    for bi, blk in enumerate(b.blocks):
        t = blk.term
        if blk.cleanup or t.kind != "switch" or t.discr is None or t.discr.kind not in ("copy", "move"):
            continue
        o = du.origin(t.discr)
        if o[0] == "disc" and defuse.show(o[1]).endswith(".state"):
            sws.append((bi, t))
    if len(sws) != 1:
        return False
    bi, t = sws[0]
    others = [tb for v, tb in list(t.arms) + [("else", t.otherwise)] if tb is not None and v != mined]
    if not others or mined not in [v for v, _tb in t.arms]:
        return False
    for tb in others:
        r = S.explore(b, tb, {})
        if not r.returns or {rv for _b, rv in r.returns} - {"bool:False", "const:0"}:
            return False
    # `true` only on the exhausted-iterator edge of the loop over the parameter
    trues = [x for x, blk in enumerate(b.blocks) if not blk.cleanup for st in blk.stmts
             if st.kind == "=" and st.place.local == 0 and not st.place.proj and
             not (st.rv.kind == "use" and st.rv.ops[0].kind == "const" and st.rv.ops[0].info.get("v") == 0)]
    if len(trues) != 1:
        return False
    for sw, v, _tb in G.edge_conditions(b, trues[0]):
        tm = b.blocks[sw].term
        o = du.origin(tm.discr) if tm.discr is not None and tm.discr.kind in ("copy", "move") else None
        if o and o[0] == "disc" and v == 0 and re.search(r"^next\(&.*into_iter\(arg1\)", defuse.show(o[1])):
            return True
    return False


def sweep_order(chk, w):
    """SWEEP: record_satisfiability seeds its dead set from the transactions that can never be mined and persists
    `Inherited` marks on everything depending on them. In advance_migration the in-flight sweep therefore
    applies its PROMOTIONS (mark_broadcast / mark_mined of what the scan has seen) before any determination is
    recorded: no promotion may still be reachable after a record_satisfiability call, or a transaction about to
    be promoted is counted as expired-unmined and its dependents are marked dead for good."""
    fs = [f for f in w.fns.values() if f.p.endswith("satisfiability::advance_migration") and not f.is_closure()]
    if len(fs) != 1:
        chk.fail("SWEEP", "missing", "advance_migration not found")
        return
    b = fs[0].body
    proms = [(bb, t) for bb, t in b.calls() if not b.blocks[bb].cleanup and t.callee.indirect is None and
             re.search(r"MigrationState>?::(mark_mined|mark_broadcast)$", t.callee.target_p())]
    recs = [(bb, t) for bb, t in b.calls() if not b.blocks[bb].cleanup and t.callee.indirect is None and
            t.callee.target_p().endswith("::record_satisfiability")]
    if not proms or not recs:
        chk.fail("SWEEP", "anchors", "promotions (%d) or record_satisfiability calls (%d) not found in advance_migration"
                 % (len(proms), len(recs)), fs[0].span.loc())
        return
    late = [(pb, pt) for pb, pt in proms if any(pb in b.reachable(rb) for rb, _rt in recs)]
    if not late:
        chk.ok("SWEEP", "advance_migration: all %d promotions (mark_broadcast / mark_mined) come before the first of the %d "
               "record_satisfiability calls on every path" % (len(proms), len(recs)), sample=True)
    else:
        chk.fail("SWEEP", "promotion-after-record", "%s is still reachable after record_satisfiability has run: a transaction "
                 "about to be promoted is treated as never-mined when the dead set is closed" %
                 late[0][1].callee.target_p().rsplit("::", 1)[-1], late[0][1].span.loc())


# ---------------------------------------------------------------------- COLS
def columns(chk, w):
    import sqlfx
    repo = extract.REPO
    path = "zcash_client_sqlite/src/pool_migration/store.rs"
    src = "\n".join(zf.source_lines(repo, path))
    if not src:
        chk.fail("COLS", "store/missing", "store.rs not found")
        return
    # cut the test module off
    cut = src.find("#[cfg(test)]\nmod tests")
    if cut > 0:
        src = src[:cut]
    lits = sqlfx.string_literals(src)
    tables = {}
    for l in lits:
        m = re.search(r"CREATE TABLE(?: IF NOT EXISTS)?\s+\{?(\w*)\}?\s*\((.*)\)\s*$", l.strip(), re.S)
        if m:
            body = m.group(2)
            cols = []
            depth = 0
            cur = ""
            for ch in body:
                if ch == "(":
                    depth += 1
                elif ch == ")":
                    depth -= 1
                if ch == "," and depth == 0:
                    cols.append(cur.strip())
                    cur = ""
                else:
                    cur += ch
            if cur.strip():
                cols.append(cur.strip())
            names = []
            for c in cols:
                first = c.split()[0] if c.split() else ""
                if first.upper() in ("FOREIGN", "PRIMARY", "UNIQUE", "CHECK", "CONSTRAINT"):
                    continue
                names.append(first.strip('"'))
            # table identity: first column set; name from the nearest fn
            tables[tuple(names)] = l
    inserts = []
    for l in lits:
        for m in re.finditer(r"INSERT(?: OR \w+)? INTO\s+\{?[\w.]*\}?\s*\(([^)]*)\)", l, re.S):
            inserts.append([c.strip() for c in m.group(1).split(",") if c.strip()])
    selects = [l for l in lits if re.search(r"\bSELECT\b", l)]
    sel_cols = set()
    for l in selects:
        for m in re.finditer(r"\b([a-z_][a-z_0-9]*)\b", l):
            sel_cols.add(m.group(1))
    chk.analysed["store_tables"] = len(tables)
    chk.analysed["store_inserts"] = len(inserts)
    if len(tables) < 5:
        chk.fail("COLS", "tables", "only %d CREATE TABLE statements recognised in the store" % len(tables))
        return
    for cols, _l in sorted(tables.items()):
        data_cols = [c for c in cols if c != "id"]
        # the INSERT that covers this table: the one whose columns are a subset with max overlap
        best = None
        for ins in inserts:
            if set(ins) <= set(cols) and (best is None or len(ins) > len(best)):
                best = ins
        label = "(%s, ...)" % ", ".join(cols[:3])
        if best is None:
            chk.fail("COLS", "insert/" + "-".join(cols[:3]), "no INSERT writes table %s" % label)
            continue
        missing_w = [c for c in data_cols if c not in best]
        # columns with a DEFAULT may be left out of the insert
        ddl = _l
        missing_w = [c for c in missing_w
                     if not re.search(r"\b%s\b[^,]*\bDEFAULT\b" % re.escape(c), ddl, re.S)]
        missing_r = [c for c in data_cols if c not in sel_cols]
        if missing_w or missing_r:
            chk.fail("COLS", "cols/" + "-".join(cols[:3]),
                     "table %s: columns never written %s, never read back %s — a saved migration "
                     "would not load back equal" % (label, missing_w, missing_r))
        else:
            chk.ok("COLS", "table %s: all %d columns are written by an INSERT and read by a SELECT"
                   % (label, len(cols)), sample=True)
    # partial unique index on non-terminal status, list derived from MigrationStatus::terminal()
    idx = [l for l in lits if re.search(r"CREATE UNIQUE INDEX", l) and "status NOT IN" in l]
    fsrc = src
    derived = re.search(r"fn terminal_status_sql_list\b.*?MigrationStatus::terminal\(\)", fsrc, re.S)
    if idx and derived and any("{" in l for l in idx):
        chk.ok("COLS", "one non-terminal migration per account: partial UNIQUE index on account_id "
               "WHERE status NOT IN (terminal list derived from MigrationStatus::terminal())",
               sample=True)
    else:
        chk.fail("COLS", "unique-index", "partial unique index for 'one non-terminal migration per "
                 "account' not found or its terminal list is no longer derived from "
                 "MigrationStatus::terminal()")


def controls(chk, w):
    # control 1: an unguarded Mined->Broadcast style store is flagged by the classifier
    names = variant_names(w, TXS)
    frm, tos = set(names), {"Broadcast"}
    back = [a for a in frm for b in tos if RANK[a] > RANK[b]]
    if back == ["Mined"]:
        chk.ok("control", "unguarded store of Broadcast admits Mined->Broadcast")
    else:
        chk.fail("control", "classifier", "control not flagged")
    # control 2: the broadcast filter, assuming deps_mined = TRUE, can return true
    fs = [f for f in w.fns.values() if re.search(r"MigrationState>::next_broadcastable$", f.p)]
    ok2 = False
    if fs:
        for c in w.fns.values():
            if c.is_closure() and c.parent == fs[0].id:
                calls = S.find_calls(c.body, r"::deps_mined$")
                if calls:
                    res = S.after_call(c.body, calls[0][0], S.B(True))
                    ok2 = any(rv not in ("const:0", "bool:False") for _b, rv in res.returns)
    if ok2:
        chk.ok("control", "assume-analysis sees a true return when the guard passes")
    else:
        chk.fail("control", "assume-true", "control not flagged")


# ---------------------------------------------------------------------- DIRTY
def _names(body, du, op, depth=0, acc=None):
    """debug names of the user variables an operand is computed from"""
    acc = acc if acc is not None else set()
    if depth > 10 or op is None or op.kind not in ("copy", "move"):
        return acc
    l = op.place.local
    nm = body.local_name(l)
    if nm and nm != "iter":        # `iter` is the hidden variable of a desugared for loop
        acc.add(nm)
        return acc
    d = du.single(l)
    if d is None:
        return acc
    kind, _bi, x = d
    if kind == "call":
        for a in x.args:
            _names(body, du, a, depth + 1, acc)
    else:
        rv = x.rv
        for o in rv.ops:
            _names(body, du, o, depth + 1, acc)
        if rv.kind in ("ref", "disc") and rv.place is not None:
            _names(body, du, zf.Op("copy", zf.Place([rv.place.local])), depth + 1, acc)
    return acc


def dirty_rules(chk, w):
    fs = [f for f in w.fns.values() if f.p.endswith("satisfiability::advance_migration")]
    if len(fs) != 1:
        chk.fail("DIRTY", "advance_migration/missing", "advance_migration not found")
        return
    f = fs[0]
    body = f.body
    du = defuse.DefUse(body)
    dl = [i for i, (_t, n) in enumerate(body.locals) if n == "dirty"]
    if len(dl) != 1:
        chk.fail("DIRTY", "flag/missing", "the dirty flag of advance_migration was not found (%d "
                 "candidates): the persistence discipline the rule checks has changed shape" % len(dl),
                 f.span.loc())
        return
    d = dl[0]
    true_blocks = set()
    or_blocks = {}       # block -> names of collections whose non-emptiness sets the flag
    for bi, blk in enumerate(body.blocks):
        for s in blk.stmts:
            if s.kind == "=" and not s.place.proj and s.place.local == d:
                if s.rv.kind == "use" and s.rv.ops[0].kind == "const" and s.rv.ops[0].info.get("v") == 1:
                    true_blocks.add(bi)
                elif s.rv.kind == "bin" and s.rv.op == "BitOr":
                    names = set()
                    for o in s.rv.ops:
                        if o.kind in ("copy", "move") and o.place.local != d:
                            # !X.is_empty()
                            dd = du.single(o.place.local)
                            if dd and dd[0] == "stmt" and dd[2].rv.kind == "un" and dd[2].rv.op == "Not":
                                src = du.single(dd[2].rv.ops[0].place.local)
                                if src and src[0] == "call" and src[2].callee.indirect is None and \
                                        src[2].callee.target_p().endswith("::is_empty"):
                                    names |= _names(body, du, src[2].args[0])
                    or_blocks[bi] = names
    # pushes per collection name
    pushes = {}
    for bb, t in body.calls():
        if t.callee.indirect is None and t.callee.target_p().endswith("::push") and t.args:
            for nm in _names(body, du, t.args[0]):
                pushes.setdefault(nm, []).append(bb)
    import sqlfx
    cyc = sqlfx.cyclic_blocks(body)
    muts = []
    for bb, t in body.calls():
        if t.callee.indirect is None and t.args:
            a = t.args[0]
            if a.kind in ("copy", "move") and not a.place.proj and body.local_ty(a.place.local).startswith(
                    "&mut zcash_pool_migration::engine::MigrationState"):
                muts.append((bb, t))
    if len(muts) < 6:
        chk.fail("DIRTY", "mutators", "only %d state mutations found in advance_migration" % len(muts),
                 f.span.loc())
    ordn = {}
    for bb, t in muts:
        name = t.callee.target_p().rsplit("::", 1)[-1]
        ordn[name] = ordn.get(name, 0) + 1
        key = "%s#%d" % (name, ordn[name])
        if t.target is None:
            continue
        # collections that "cover" this mutation
        cover = set()
        for nb, nt in body.calls():
            if nt.callee.indirect is None and re.search(r"Iterator>?::next$", nt.callee.target_p()) \
                    and body.dominates(nb, bb) and nb in cyc and bb in cyc and nb in body.reachable(bb):
                cover |= _names(body, du, nt.args[0])
        for sb, blk in enumerate(body.blocks):
            if blk.term.kind == "switch" and body.dominates(sb, bb) and sb != bb:
                dsw = blk.term.discr
                if dsw.kind in ("copy", "move") and not dsw.place.proj:
                    dd = du.single(dsw.place.local)
                    src = None
                    if dd and dd[0] == "stmt" and dd[2].rv.kind == "un" and dd[2].rv.op == "Not":
                        src = du.single(dd[2].rv.ops[0].place.local)
                        arm = dict(blk.term.arms).get(1, blk.term.otherwise)
                    elif dd and dd[0] == "call":
                        src = dd
                        arm = dict(blk.term.arms).get(0, blk.term.otherwise)
                    if src is not None and not (arm == bb or body.dominates(arm, bb)):
                        src = None
                    if src is not None:
                        if src and src[0] == "call" and src[2].callee.indirect is None and \
                                src[2].callee.target_p().endswith("::is_empty"):
                            for v in _names(body, du, src[2].args[0]):
                                cover.add(v)
                                # V non-empty implies X non-empty when every push to V is dominated
                                # by a push to X
                                for x, xs in pushes.items():
                                    if x != v and pushes.get(v) and all(
                                            any(body.dominates(pb, vb) for pb in xs) for vb in pushes[v]):
                                        cover.add(x)
        setters = set(true_blocks) | {b for b, names in or_blocks.items() if names & cover}
        res = S.explore(body, t.target, {}, avoid=tuple(setters))
        bad = [rv for _b, rv in res.returns if rv != "variant:Err"]
        if bad or res.too_big:
            chk.fail("DIRTY", "advance_migration/" + key, "after %s mutates the migration state a "
                     "successful return is reachable without marking the state dirty: the change "
                     "would live in memory only and be lost on the next load" % name, t.span.loc())
        else:
            chk.ok("DIRTY", "%s [%s]: every successful continuation marks the state dirty"
                   % (name, t.span.loc()), sample=True)
    # a dirty state is written before every successful return
    persist_sw = []
    for sb, blk in enumerate(body.blocks):
        ds = blk.term.discr if blk.term.kind == "switch" else None
        if ds is not None and ds.kind in ("copy", "move") and not ds.place.proj:
            o = du.origin(ds)
            if ds.place.local == d or o == ("local", d):
                arms = dict(blk.term.arms)
                tgt = blk.term.otherwise if 0 in arms else arms.get(1)
                res = S.explore(body, tgt, {}, avoid=(sb,))
                calls = [c.callee.target_p() for _b, c in res.calls if c.callee.indirect is None]
                first_write = any(c.endswith("::replace_migration") for c in calls[:3])
                if first_write:
                    persist_sw.append(sb)
    okret = True
    for rb in body.exits():
        # Ok returns only: skip blocks that only error paths reach
        if not any(body.dominates(sb, rb) for sb in persist_sw):
            # is this an error-only return? check whether an Ok aggregate/unknown reaches it
            preds_ok = True
            res = S.explore(body, 0, {}, avoid=tuple(persist_sw))
            if any(b == rb and rv != "variant:Err" for b, rv in res.returns):
                okret = False
    if persist_sw and okret:
        chk.ok("DIRTY", "every successful return of advance_migration passes an `if dirty` test whose "
               "true arm writes the state (%d such tests)" % len(persist_sw), sample=True)
    else:
        chk.fail("DIRTY", "advance_migration/persist", "a successful return of advance_migration is "
                 "reachable without passing the `if dirty { store.replace_migration(..) }` write",
                 f.span.loc())


# ---------------------------------------------------------------------- CHANGED
def change_detect(chk, w):
    """the sqlite store rolls a stored migration back by loading it, truncating the copy and writing
    it back if it changed: the change test must see everything truncation can change"""
    fs = [f for f in w.fns.values()
          if f.p == "zcash_client_sqlite::pool_migration::store::truncate_to_height"]
    ts = [f for f in w.fns.values() if re.search(r"MigrationState>::truncate_to_height$", f.p)]
    if len(fs) != 1 or len(ts) != 1:
        chk.fail("CHANGED", "anchors", "store::truncate_to_height / MigrationState::truncate_to_height "
                 "not found (%d, %d)" % (len(fs), len(ts)))
        return
    f, tr = fs[0], ts[0]
    written = set()
    for blk in tr.body.blocks:
        for s in blk.stmts:
            if s.kind == "=" and s.place.proj and s.place.proj[-1].startswith(".") and "*" in s.place.proj:
                written.add(s.place.proj[-1][1:])
    body = f.body
    du = defuse.DefUse(body)
    wr = S.find_calls(body, r"::replace_migration_row$")
    if not wr:
        chk.fail("CHANGED", "no-write", "store::truncate_to_height no longer writes the rolled-back "
                 "migration", f.span.loc())
        return
    wb = wr[0][0]
    # the controlling comparison
    ctrl = None
    for bb, t in body.calls():
        if t.callee.indirect is None and body.dominates(bb, wb) and t.dest is not None and \
                not t.dest.proj and body.local_ty(t.dest.local) == "bool":
            ctrl = (bb, t)
    if ctrl is None:
        chk.ok("CHANGED", "the rolled-back migration is written unconditionally")
        return
    bb, t = ctrl
    name = t.callee.target_p()
    if re.search(r"core::cmp::PartialEq::(eq|ne)$", t.callee.p or "") and \
            "MigrationState" in (t.callee.self_ty or ""):
        chk.ok("CHANGED", "store::truncate_to_height writes back iff the whole MigrationState differs "
               "(derived equality over all fields; truncation writes %s)" % sorted(written), sample=True)
        return
    g = w.fns.get(t.callee.target_id())
    if g is None:
        chk.fail("CHANGED", "predicate/unknown", "write-back is controlled by %s, which cannot be "
                 "analysed" % name, t.span.loc())
        return
    seen, _ = w.reach([g.id], stop=lambda x: x != g.id and not w.fns[x].is_closure())
    read = set()
    whole = False
    for x in seen:
        h = w.fns[x]
        for blk in h.body.blocks:
            for s in blk.stmts:
                if s.kind == "=":
                    for pl in [o.place for o in s.rv.ops if o.kind in ("copy", "move")] + \
                            ([s.rv.place] if s.rv.kind in ("ref", "disc") else []):
                        for p in pl.proj:
                            if p.startswith("."):
                                read.add(p[1:])
            tt = blk.term
            if tt.kind == "call" and tt.callee.indirect is None:
                read.add(tt.callee.target_p().rsplit("::", 1)[-1])     # getters
                if re.search(r"core::cmp::PartialEq::(eq|ne)$", tt.callee.p or "") and \
                        "MigrationState" in (tt.callee.self_ty or ""):
                    whole = True
    missing = sorted(x for x in written if x not in read)
    if whole or not missing:
        chk.ok("CHANGED", "the change test %s reads every field truncation can change %s"
               % (name.rsplit("::", 1)[-1], sorted(written)), sample=True)
    else:
        chk.fail("CHANGED", "predicate/" + name.rsplit("::", 1)[-1], "the change test that decides "
                 "whether the rolled-back migration is written ignores %s, which "
                 "MigrationState::truncate_to_height can change: such a rollback stays in memory and "
                 "the stored migration differs from the engine's state" % missing, t.span.loc())
