"""Shared pool-sibling rules (engine E5) used by C01, C05, C06, C14.

PS-1  consistent renaming between sibling code segments (lib/poolsib.py, source tokens)
PS-3  argument/parameter pool-tag agreement at calls whose callee has pool-tagged parameter
      names (MIR def-use origins + debug names; type-resolved callee)
"""
import re

import defuse
import extract
import poolsib

POOLS = {"S": "sapling", "O": "orchard", "I": "ironwood"}
NAMESPACE_DIRS = ["zcash_client_backend/src", "zcash_client_sqlite/src", "zcash_primitives/src",
                  "pczt/src", "zcash_keys/src", "components/zcash_protocol/src", "zcash_history/src",
                  "zcash_pool_migration/src", "zcash_transparent/src"]

# Deliberate Orchard-in-Ironwood uses: (function, identifier) -> reason.  Ironwood is an
# Orchard-shaped pool that reuses the Orchard keys, receivers and note types.
PS1_EXCEPTIONS = {
    ("build_proposed_transaction", "orchard"):
        "Ironwood spends are authorised by the Orchard FVK and Ironwood outputs are delivered to the "
        "recipient's Orchard receiver (`ufvk.orchard()`, `ua.orchard()`): there is no separate "
        "Ironwood key or receiver",
    ("build_proposed_transaction", "ORCHARD"):
        "KeyNotAvailable names the key that is missing, and the key that authorises an Ironwood "
        "spend is the Orchard key",
}

_AN = {}


def analyzer():
    if "a" not in _AN:
        _AN["a"] = poolsib.Analyzer(extract.REPO, poolsib.Family(POOLS), NAMESPACE_DIRS)
    return _AN["a"]


def ps1(chk, files, rule="PS-1", extra_exceptions=None):
    """run the consistent-renaming rule over `files`; every sibling pair examined is an
    obligation"""
    an = analyzer()
    exc = dict(PS1_EXCEPTIONS)
    exc.update(extra_exceptions or {})
    total_pairs = 0
    for rel in files:
        fnd, npairs, nsegs = an.file_pairs(rel)
        if fnd is None:
            chk.fail(rule, rel + "/missing", "anchored file %s not found" % rel)
            continue
        total_pairs += npairs
        bad = 0
        ordn = {}
        for x in fnd:
            key0 = "%s/%s/%s" % (rel, x["fn"], x["ident"])
            ordn[key0] = ordn.get(key0, 0) + 1
            key = "%s#%d" % (key0, ordn[key0])
            if (x["fn"], x["ident"]) in exc:
                chk.exception(rule, key, exc[(x["fn"], x["ident"])])
                continue
            bad += 1
            chk.fail(rule, key, x["msg"], "%s:%d" % (rel, x["line"]))
        for _ in range(max(npairs - bad, 0)):
            chk.obligations += 1
            chk.discharged += 1
        chk.rules[rule]["instances"] += max(npairs - bad, 0)
        chk.rules[rule]["discharged"] += max(npairs - bad, 0)
        chk.samples.append({"rule": rule, "obligation": "%s: %d sibling pairs over %d tagged segments "
                            "rename consistently" % (rel, npairs, nsegs), "result": "discharged"})
    chk.analysed.setdefault("ps1_sibling_pairs", 0)
    chk.analysed["ps1_sibling_pairs"] += total_pairs
    return total_pairs


def ps2(chk, files, rule="PS-2"):
    """Orchard and Ironwood sibling code must be the same code with the pool renamed"""
    an = analyzer()
    total = 0
    for rel in files:
        fnd, npairs = poolsib.untagged_differences(an, rel)
        if fnd is None:
            chk.fail(rule, rel + "/missing", "anchored file %s not found" % rel)
            continue
        total += npairs
        ordn = {}
        for x in fnd:
            k0 = "%s/%s/%s" % (rel, x["fn"], x["ident"])
            ordn[k0] = ordn.get(k0, 0) + 1
            chk.fail(rule, "%s#%d" % (k0, ordn[k0]), x["msg"], "%s:%d" % (rel, x["line"]))
        good = max(npairs - len(fnd), 0)
        chk.obligations += good
        chk.discharged += good
        chk.rules[rule]["instances"] += good
        chk.rules[rule]["discharged"] += good
        if npairs:
            chk.samples.append({"rule": rule, "obligation": "%s: %d Ironwood segments equal their Orchard "
                                "sibling up to the pool renaming" % (rel, npairs), "result": "discharged"})
    chk.analysed["ps2_sibling_pairs"] = chk.analysed.get("ps2_sibling_pairs", 0) + total
    return total


# ----------------------------------------------------------------------------- PS-3
_FAM = poolsib.Family(POOLS)


FN_NAMES = set()


def _extern_names(w):
    """names of external functions called from the workspace (their pool siblings count too)"""
    for g in w.fns.values():
        for _bb, t in g.body.calls():
            if t.callee.indirect is None:
                FN_NAMES.add(t.callee.target_p().rsplit("::", 1)[-1])


def name_tag(name):
    if not name:
        return None
    return _FAM.tag_of(name)


def origin_tags(body, o, depth=0, acc=None, argtags=None):
    """pool tags found in the names along an origin tree (local debug names, field names,
    callee names); argtags: tags bound to the body's arguments by a call site"""
    acc = acc if acc is not None else set()
    if not isinstance(o, tuple) or depth > 12:
        return acc
    k = o[0]
    if k == "local":
        t = name_tag(body.local_name(o[1]))
        if t:
            acc.add(t)
    elif k == "arg":
        t = name_tag(body.local_name(o[1] + 1))
        if t:
            acc.add(t)
        if argtags and o[1] in argtags:
            acc.update(argtags[o[1]])
    elif k == "field":
        t = name_tag(o[2][1:])
        if t:
            acc.add(t)
        origin_tags(body, o[1], depth + 1, acc, argtags)
    elif k == "call":
        last = o[1].rsplit("::", 1)[-1]
        t = name_tag(last)
        if t and FN_NAMES and not any(_FAM.rename(last, t, u) in FN_NAMES for u in POOLS if u != t):
            t = None     # a pool-named helper with no sibling for another pool serves them all
        if t:
            acc.add(t)
        # a tagged callee decides; otherwise look at its arguments
        if not t:
            for a in o[2]:
                origin_tags(body, a, depth + 1, acc, argtags)
    elif k in ("ref", "deref", "variant", "proj", "disc"):
        origin_tags(body, o[1], depth + 1, acc, argtags)
    elif k == "cast":
        origin_tags(body, o[2], depth + 1, acc, argtags)
    elif k in ("bin",):
        origin_tags(body, o[2], depth + 1, acc, argtags)
        origin_tags(body, o[3], depth + 1, acc, argtags)
    elif k == "un":
        origin_tags(body, o[2], depth + 1, acc, argtags)
    elif k == "agg":
        last = o[1].rsplit("::", 1)[-1]
        t = name_tag(last)
        if t and not o[1].startswith("closure:"):
            acc.add(t)
        for a in o[2]:
            origin_tags(body, a, depth + 1, acc, argtags)
    return acc


def chain_tags(body, du, op, depth=0, acc=None):
    """pool tags of the NAMED locals an operand is computed from (a named local decides; unnamed
    temporaries are looked through: copies, borrows, call arguments)"""
    acc = acc if acc is not None else set()
    if depth > 16 or op is None or op.kind not in ("copy", "move"):
        return acc
    nm = body.local_name(op.place.local)
    if nm and nm not in ("val", "residual", "iter", "e", "err", "acc", "self"):
        t = name_tag(nm)
        if t:
            acc.add(t)
        return acc
    d = du.single(op.place.local)
    if d is None:
        return acc
    kind, _bi, x = d
    import zf
    if kind == "call":
        for a in x.args:
            chain_tags(body, du, a, depth + 1, acc)
    else:
        for o in (x.rv.ops or []):
            chain_tags(body, du, o, depth + 1, acc)
        if x.rv.kind in ("ref", "raw", "disc") and x.rv.place is not None:
            chain_tags(body, du, zf.Op("copy", zf.Place([x.rv.place.local])), depth + 1, acc)
    return acc


def ps3(chk, w, in_scope, rule="PS-3", min_tagged_params=2):
    """every call (in functions selected by in_scope) to a workspace function that has at least
    `min_tagged_params` pool-tagged parameter names: the pool tag of each argument must equal the
    tag of the parameter it is bound to"""
    n = 0
    if not FN_NAMES:
        FN_NAMES.update(g.p.rsplit("::", 1)[-1] for g in w.fns.values() if not g.is_closure())
        _extern_names(w)
    for f in sorted(w.fns.values(), key=lambda f: f.p):
        if not in_scope(f):
            continue
        du = None
        ordn = {}
        for bb, t in f.body.calls():
            if t.callee.indirect is not None:
                continue
            tg = w.fns.get(t.callee.target_id())
            if tg is None:
                # trait method call through a type parameter: use the declared trait method's
                # parameter names if any impl is in the workspace
                cands = [w.fns[m] for m in w.trait_impls.get(t.callee.id, []) if m in w.fns]
                tg = cands[0] if cands else None
            if tg is None or not tg.argnames:
                continue
            ptags = [name_tag(a) for a in tg.argnames]
            if len([x for x in ptags if x]) < min_tagged_params:
                continue
            if len(ptags) != len(t.args):
                continue
            du = du or defuse.DefUse(f.body)
            k0 = "%s/%s" % (f.p, tg.p)
            ordn[k0] = ordn.get(k0, 0) + 1
            bad = []
            seen_tags = {}
            for i, (pt, a) in enumerate(zip(ptags, t.args)):
                if not pt:
                    continue
                at = origin_tags(f.body, du.origin(a))
                if not at:
                    at = chain_tags(f.body, du, a)
                if len(at) == 1:
                    (x,) = at
                    seen_tags.setdefault(x, []).append(i)
                    if x != pt:
                        bad.append("argument %d (%s) is %s-tagged but binds parameter `%s`"
                                   % (i, defuse.show(du.origin(a))[:60], POOLS[x], tg.argnames[i]))
            n += 1
            if bad:
                chk.fail(rule, "%s#%d" % (k0, ordn[k0]), "; ".join(bad), t.span.loc())
            else:
                chk.ok(rule, "%s -> %s: pool-tagged arguments bind the matching parameters [%s]"
                       % (f.p.rsplit("::", 1)[-1], tg.p.rsplit("::", 2)[-2] + "::" +
                          tg.p.rsplit("::", 1)[-1], t.span.loc()))
    return n


# ----------------------------------------------------------------------------- PS-4
def _closure_bindings(w, parent, clos):
    """call sites of closure `clos` in `parent`: list of (span, {closure arg index: tags})"""
    out = []
    du = defuse.DefUse(parent.body)
    for bb, t in parent.body.calls():
        if parent.body.blocks[bb].cleanup or t.callee.indirect is not None:
            continue
        if t.callee.target_id() != clos.id or len(t.args) != 2:
            continue
        tup = du.origin(t.args[1])
        if tup[0] == "agg" and tup[1] == "tuple":
            out.append((t.span, {i + 1: origin_tags(parent.body, a) for i, a in enumerate(tup[2])}))
    # handed to an Option/Result combinator: the closure's parameter is the receiver's payload
    for bb, t in parent.body.calls():
        if parent.body.blocks[bb].cleanup or t.callee.indirect is not None or len(t.args) < 2:
            continue
        if not re.search(r"^core::(option::Option::<T>|result::Result::<T, E>)::"
                         r"(map|map_or|map_or_else|and_then|is_some_and|is_none_or|is_ok_and|filter|"
                         r"inspect|then)$", t.callee.target_p()):
            continue
        for a in t.args[1:]:
            o = du.origin(a)
            if o[0] == "agg" and o[1] == "closure:" + clos.id:
                out.append((t.span, {1: origin_tags(parent.body, du.origin(t.args[0]))}))
    return out


def ps4(chk, w, in_scope, rule="PS-4"):
    """a call to a pool-generic workspace helper (no pool-tagged parameter name) must not mix
    operands of two different pools: every argument that carries exactly one pool tag carries the
    same one.  Closures are examined once per call site of the closure, with the tags the call
    site binds to the closure's parameters."""
    n = 0
    if not FN_NAMES:
        FN_NAMES.update(g.p.rsplit("::", 1)[-1] for g in w.fns.values() if not g.is_closure())
        _extern_names(w)
    for f in sorted(w.fns.values(), key=lambda f: f.p):
        root = w.fns.get(f.root) if f.is_closure() else f
        if root is None or not in_scope(root):
            continue
        contexts = [(None, None)]
        if f.is_closure():
            par = [g for g in w.fns.values() if f.id in w.callees(g.id) and
                   (g.id == f.root or g.root == f.root)]
            b = [x for g in par for x in _closure_bindings(w, g, f)]
            if b:
                contexts = b
        du = None
        ordn = {}
        for bb, t in f.body.calls():
            if f.body.blocks[bb].cleanup or t.callee.indirect is not None:
                continue
            tg = w.fns.get(t.callee.target_id())
            if tg is None or tg.is_closure() or not tg.argnames or len(t.args) < 2:
                continue
            if any(name_tag(a) for a in tg.argnames):
                continue
            du = du or defuse.DefUse(f.body)
            k0 = "%s/%s" % (f.p, tg.p)
            ordn[k0] = ordn.get(k0, 0) + 1
            for span, argtags in contexts:
                tags = {}
                for i, a in enumerate(t.args):
                    at = origin_tags(f.body, du.origin(a), argtags=argtags)
                    if len(at) == 1:
                        tags.setdefault(next(iter(at)), []).append(i)
                if len(tags) < 1 or sum(len(v) for v in tags.values()) < 2:
                    continue
                n += 1
                if len(tags) > 1:
                    chk.fail(rule, "%s#%d" % (k0, ordn[k0]), "the pool-generic helper %s receives "
                             "operands of different pools in one call: %s%s"
                             % (tg.p.rsplit("::", 1)[-1],
                                ", ".join("argument(s) %s %s" % (v, POOLS[k]) for k, v in sorted(tags.items())),
                                (" (closure invoked at %s)" % span.loc()) if span else ""), t.span.loc())
                else:
                    chk.ok(rule, "%s -> %s: all pool-tagged operands are %s [%s]"
                           % (f.p.rsplit("::", 1)[-1], tg.p.rsplit("::", 1)[-1],
                              POOLS[next(iter(tags))], t.span.loc()))
    return n
