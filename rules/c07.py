"""C07 — fee and change computation: the clauses whose truth is in the shape of the code.

Decided:
  FORMULA the standard (ZIP 317) fee rule returns
            marginal_fee * max(grace_actions,
                               max(ceil(t_in / in_size), ceil(t_out / out_size))
                               + max(sapling_in, sapling_out) + orchard_actions + ironwood_actions)
          as an expression over its parameters (def-use origin of the result), with t_in the sum of
          the known input sizes, t_out the sum of the output sizes, the multiplication the checked
          Zatoshis * usize of C09 (overflow => Err), unknown P2SH inputs refused first, and
          FeeRule::standard() carrying the ZIP 317 constants (5000 zatoshi, 2 grace actions, 150 /
          34 byte standard input / output)
  REFUSE  the change computation refuses for lack of funds only in the `Less` arm of
          total_in.cmp(total_out + fee): available/required are the two compared values
  BAL     TransactionBalance is built only by TransactionBalance::new, whose total is the checked
          sum of the change values and the fee
Not decided (value-level): inputs = outputs + change + fee for the strategies' results, fee >= ZIP
317 fee of the final shape, dust thresholds, the Orchard turnstile of change selection.
"""
import re
import zlib

import assume as S
import commit
import defuse
import extract
import vc
import zf
from common import Check

Z = "zcash_primitives::transaction::fees::zip317::"
FR = "<" + Z + "FeeRule as zcash_primitives::transaction::fees::FeeRule>::fee_required"
TB = "zcash_client_backend::fees::TransactionBalance"


def _calls(body, rx):
    return [(bb, t) for bb, t in body.calls() if not body.blocks[bb].cleanup and
            t.callee.indirect is None and re.search(rx, t.callee.target_p())]


# ---------------------------------------------------------------------------- CONSERVE
class _DU(defuse.DefUse):
    MAXD = 120


PLUMB = re.compile(r"(Try>::branch|::ok_or_else|::ok_or|::map_err|::expect|::unwrap|::cloned|::copied|"
                   r"Clone>::clone|Deref>::deref)$")
Z_ADD = "<zcash_protocol::value::Zatoshis as core::ops::Add>::add"
Z_SUB = "<zcash_protocol::value::Zatoshis as core::ops::Sub>::sub"


def _ladd(a, b, k=1):
    out = dict(a)
    for x, c in b.items():
        out[x] = out.get(x, 0) + k * c
        if out[x] == 0:
            del out[x]
    return out


class _Lin:
    """linear forms over the amounts of one function: Zatoshis +/- Zatoshis through the Option / `?`
    plumbing is unfolded, everything else is an atom named by its (single-definition) origin"""

    def __init__(self, w, fn, env=None):
        self.w, self.f, self.b = w, fn, fn.body
        self.du = _DU(fn.body)
        self.env = env          # for a closure: (parent _Lin, [origins of the captured operands])
        self.atoms = {}

    def atom(self, o):
        t = defuse.show(o)
        t = re.sub(r"closure:[^{]*(\{closure#\d+\})", r"\1", t)
        k = "%s@%s" % (t if len(t) < 90 else t[:60] + "…" + str(zlib.crc32(t.encode()) % 100000), self.f.p.rsplit("::", 1)[-1])
        self.atoms[k] = t
        return {k: 1}

    def poly(self, o, depth=0):
        if not isinstance(o, tuple) or depth > 200:
            return self.atom(("unknown",))
        k = o[0]
        if k in ("ref", "deref"):
            return self.poly(o[1], depth + 1)
        if k == "variant":
            return self.poly(o[1], depth + 1)
        if k == "const":
            return {1: o[1]} if isinstance(o[1], int) and o[1] != 0 else ({} if o[1] == 0 else self.atom(o))
        if k == "constdef":
            return {} if o[1].endswith("value::Zatoshis::ZERO") else self.atom(o)
        if k == "field":
            base = defuse.strip_refs(o[1])
            if self.env is not None and base == ("arg", 0) and o[2][1:].isdigit():
                par, caps = self.env
                i = int(o[2][1:])
                if i < len(caps):
                    return par.poly(caps[i], depth + 1)
            if o[2] == ".0" and base[0] in ("variant", "call"):
                return self.poly(base, depth + 1)
            return self.atom(o)
        if k == "call":
            name, args = o[1], o[2]
            if name == Z_ADD and len(args) == 2:
                return _ladd(self.poly(args[0], depth + 1), self.poly(args[1], depth + 1))
            if name == Z_SUB and len(args) == 2:
                return _ladd(self.poly(args[0], depth + 1), self.poly(args[1], depth + 1), -1)
            if PLUMB.search(name) and args:
                return self.poly(args[0], depth + 1)
            return self.atom(("call", name, args))
        if k == "local":
            ds = self.du.defs.get(o[1], [])
            vals = []
            for kind, _bi, x in ds:
                if kind == "stmt" and x.rv.kind == "use":
                    vals.append(self.poly(self.du.origin(x.rv.ops[0]), depth + 1))
                else:
                    vals = None
                    break
            if vals and all(v == vals[0] for v in vals):
                return vals[0]
            return {"_%d:%s@%s" % (o[1], self.b.local_name(o[1]) or "", self.f.p.rsplit("::", 1)[-1]): 1}
        return self.atom(o)

    def show(self, lin):
        if not lin:
            return "0"
        return " ".join(("%+d*" % c if abs(c) != 1 else ("+" if c > 0 else "-")) + (str(a) if a != 1 else "1")[:70]
                        for a, c in sorted(lin.items(), key=lambda x: str(x[0])))


def _vec_alternatives(L, op, bb):
    """[(equations, value)] of a Vec<ChangeValue> operand: what its elements sum to, per definition"""
    import guards as G
    b, du = L.b, L.du

    def elem_value(o):
        o = defuse.strip_refs(o)
        if o[0] == "call" and re.search(r"fees::ChangeValue::(shielded|transparent|ephemeral_transparent)$", o[1]):
            v = o[2][1] if o[1].endswith("::shielded") else o[2][0]
            return L.poly(v)
        return None

    def eqs_at(bi):
        out = []
        for sw, v, _tb in G.edge_conditions(b, bi):
            o = du.origin(b.blocks[sw].term.discr)
            tr = G.truth(b.blocks[sw].term, v)
            if o[0] == "call" and o[1].endswith("value::Zatoshis::is_zero") and tr is True:
                out.append(L.poly(o[2][0]))
        return out

    def one(kind, bi, x):
        if kind != "call" or x.callee.indirect is not None:
            return None
        nm = x.callee.target_p()
        if nm.endswith("Vec::<T>::new"):
            return {}
        if nm.endswith("box_assume_init_into_vec_unsafe"):
            # vec![e1, ..]: the array stored through the box in the same block
            tot, found = {}, False
            for st in b.blocks[bi].stmts:
                if st.kind == "=" and st.place.proj and st.rv.kind == "agg" and st.rv.agg[0] == "array":
                    found = True
                    for e in st.rv.ops:
                        v = elem_value(du.origin(e))
                        if v is None:
                            return None
                        tot = _ladd(tot, v)
            return tot if found else None
        if nm.endswith("Iterator>::collect") or nm.endswith("Iterator::collect"):
            return _split_value(L, du.origin(x.args[0]))
        return None
    r = du.root_local(op.place) if op.kind in ("copy", "move") else None
    loc = r[1] if r and len(r) == 2 else (op.place.local if op.kind in ("copy", "move") and not op.place.proj else None)
    if loc is None:
        return None
    out = []
    for kind, bi, x in du.defs.get(loc, []):
        if kind == "stmt" and x.rv.kind == "use" and x.rv.ops[0].kind in ("copy", "move"):
            sub = _vec_alternatives(L, x.rv.ops[0], bi)
            if sub is None:
                return None
            out.extend(sub)
            continue
        v = one(kind, bi, x)
        if v is None:
            return None
        out.append((eqs_at(bi), v))
    return out or None


def _split_value(L, o):
    """(0..n).map(|i| shielded(pool, if i == 0 {q + r} else {q}, memo)).collect() with (q, r) =
    X.div_with_remainder(n): the elements sum to q*n + r = X. Returns poly(X) when the shape holds."""
    o = defuse.strip_refs(o)
    if not (o[0] == "call" and o[1].endswith("::map") and len(o[2]) == 2):
        return None
    rng, clo = defuse.strip_refs(o[2][0]), o[2][1]
    if not (rng[0] == "agg" and rng[1].endswith("Range::Range") and rng[2][0] == ("const", 0)):
        return None
    if not (clo[0] == "agg" and clo[1].startswith("closure:")):
        return None
    g = L.w.fns.get(clo[1][len("closure:"):])
    if g is None:
        return None
    gl = _Lin(L.w, g, (L, clo[2]))
    gdu = gl.du
    ret = gdu.origin_local(0)
    if not (ret[0] == "call" and ret[1].endswith("fees::ChangeValue::shielded")):
        return None
    val = ret[2][1]
    if val[0] != "local":
        return None
    shapes = set()
    poc = None
    for kind, _bi, x in gdu.defs.get(val[1], []):
        if kind == "stmt" and x.rv.kind == "use":
            t = defuse.show(gdu.origin(x.rv.ops[0]))
        elif kind == "call" and x.callee.indirect is None:
            t = defuse.show(("call", x.callee.target_p(), [gdu.origin(a) for a in x.args]))
        else:
            return None
        m = re.match(r"^unwrap\(add\(\*quotient\((.+)\), \*remainder\((.+)\)\)\)$", t)
        m2 = re.match(r"^\*quotient\((.+)\)$", t)
        if m and m.group(1) == m.group(2):
            shapes.add("q+r")
            poc = poc or m.group(1)
            if poc != m.group(1):
                return None
        elif m2:
            shapes.add("q")
            poc = poc or m2.group(1)
            if poc != m2.group(1):
                return None
        else:
            return None
    # exactly one element (i == 0) gets the remainder
    sw = [blk.term for blk in g.body.blocks if not blk.cleanup and blk.term.kind == "switch"]
    first = [t for t in sw if re.match(r"^\(arg1 Eq 0\)$", defuse.show(gdu.origin(t.discr)))]
    if shapes != {"q+r", "q"} or len(first) != 1:
        return None
    mm = re.match(r"^&\*\*arg0\.(\d+)$", poc or "")
    if not mm:
        return None
    cap = clo[2][int(mm.group(1))]
    pc = defuse.strip_refs(cap)
    # through the enclosing closure's own capture
    if L.env is not None and pc[0] == "field" and defuse.strip_refs(pc[1]) == ("arg", 0):
        par, caps = L.env
        pc = defuse.strip_refs(caps[int(pc[2][1:])])
        owner = par
    else:
        owner = L
    if not (pc[0] == "call" and pc[1].endswith("value::Zatoshis::div_with_remainder")):
        return None
    # the divisor is the element count
    n_txt = defuse.show(pc[2][1])
    cnt = rng[2][1]
    if L.env is not None and defuse.strip_refs(cnt)[0] == "field" and defuse.strip_refs(defuse.strip_refs(cnt)[1]) == ("arg", 0):
        par, caps = L.env
        cnt = caps[int(defuse.strip_refs(cnt)[2][1:])]
    c_txt = defuse.show(defuse.strip_refs(cnt))
    if c_txt not in n_txt:
        return None
    return owner.poly(pc[2][0])


def rule_conserve(chk, w, f):
    """Every (change, fee) pair the change calculation produces satisfies
    sum(change) + fee = total_in - subtotal_out as linear forms over the function's amounts (Zatoshis
    additions and subtractions unfolded through their Option / `?` plumbing), modulo the equation the
    pair's own guard establishes (`total_change.is_zero()`, `total_in.cmp(..) == Equal`)."""
    import guards as G
    L = _Lin(w, f)
    b, du = L.b, L.du
    # the comparison of the inputs with outputs + minimum fee fixes the two totals
    cmps = [(bb, t) for bb, t in _calls(b, r"Zatoshis as core::cmp::Ord>::cmp$")]
    tgt = None
    cmp_eq = None
    for bb, t in cmps:
        a0, a1 = L.poly(du.origin(t.args[0])), L.poly(du.origin(t.args[1]))
        fee_atoms = [a for a in a1 if "fee_required(" in str(a)]
        if len(a0) == 1 and "total_in(" in str(list(a0)[0]) and len(fee_atoms) == 1 and len(a1) == 2:
            so = {a: c for a, c in a1.items() if a != fee_atoms[0]}
            tgt = _ladd(a0, so, -1)
            cmp_eq = (t.dest.local, _ladd(a0, a1, -1))
    if tgt is None:
        chk.fail("CONSERVE", "anchors", "total_in.cmp(&(subtotal_out + min_fee)) not found", f.span.loc())
        return
    pairs = []

    def scan(Lx):
        bx = Lx.b
        for bi, blk in enumerate(bx.blocks):
            if blk.cleanup:
                continue
            for st in blk.stmts:
                if st.kind == "=" and st.rv.kind == "agg" and st.rv.agg[0] == "tuple" and len(st.rv.ops) == 2 and \
                        re.match(r"^\(core::vec::Vec<zcash_client_backend::fees::ChangeValue>, zcash_protocol::value::Zatoshis\)$",
                                 bx.local_ty(st.place.local)):
                    pairs.append((Lx, bi, st))
    scan(L)
    for g in w.fns.values():
        if g.is_closure() and g.root == f.id:
            # the closure's captures, from the aggregate that creates it in the parent
            caps = None
            for blk in b.blocks:
                for st in blk.stmts:
                    if st.kind == "=" and st.rv.kind == "agg" and st.rv.agg[0] == "closure" and st.rv.agg[1] == g.id:
                        caps = [du.origin(o) for o in st.rv.ops]
            if caps is not None:
                scan(_Lin(w, g, (L, caps)))
    n = 0
    for Lx, bi, st in sorted(pairs, key=lambda x: (x[2].span.line, x[2].span.col)):
        n += 1
        key = "pair@%s" % ("closure" if Lx.env else "body") + "#%d" % n
        fee = Lx.poly(Lx.du.origin(st.rv.ops[1]))
        alts = _vec_alternatives(Lx, st.rv.ops[0], bi)
        if alts is None:
            chk.fail("CONSERVE", key + "/shape", "the change list of the pair at %s is not one of the recognised "
                     "shapes (empty, vec![..] of ChangeValue constructors, the quotient/remainder split)"
                     % st.span.loc(), st.span.loc())
            continue
        eqs0 = []
        for sw, v, _tb in G.edge_conditions(Lx.b, bi):
            d = Lx.b.blocks[sw].term.discr
            o = Lx.du.origin(d)
            if Lx is L and o[0] == "disc" and v == 0 and cmp_eq is not None:
                r = Lx.du.root_local(Lx.du.single(d.place.local)[2].rv.place) if Lx.du.single(d.place.local) else None
                if r and r[1] == cmp_eq[0]:
                    eqs0.append(cmp_eq[1])          # Ordering::Equal
        bad = None
        for eqs, val in alts:
            diff = _ladd(_ladd(val, fee), tgt, -1)
            ok = not diff
            for e in eqs + eqs0:
                for k_ in (1, -1):
                    if e and _ladd(diff, e, k_) == {}:
                        ok = True
            if not ok:
                bad = (val, diff)
        if bad is None:
            chk.ok("CONSERVE", "pair at %s: sum(change) + fee = total_in - subtotal_out (%d alternative(s) of the "
                   "change list)" % (st.span.loc(), len(alts)), sample=(n <= 2))
        else:
            chk.fail("CONSERVE", key, "the pair at %s does not conserve value: sum(change) = %s, fee = %s, so "
                     "sum(change) + fee - (total_in - subtotal_out) = %s" % (
                         st.span.loc(), Lx.show(bad[0]), Lx.show(fee), Lx.show(bad[1])), st.span.loc())
    if n < 5:
        chk.fail("CONSERVE", "missing", "expected the five (change, fee) results of the change calculation, found %d" % n,
                 f.span.loc())


COUNT_TY = re.compile(r"^(usize|u64|zcash_client_backend::fees::OutputManifest)$")
PASS_COUNT = re.compile(r"::(sapling|orchard|ironwood|transparent|for_pool|from|into|clone|total_shielded)$")


def _count_sources(body, du, o, depth=0, seen=None):
    """identities of the count-valued variables an operand is computed from: named locals (or their
    tuple fields) of type usize / OutputManifest; compiler temporaries are unfolded over all their
    definitions, accessor and constructor calls are looked through, constants contribute nothing"""
    seen = set() if seen is None else seen
    out = set()
    if not isinstance(o, tuple) or depth > 20:
        return out
    k = o[0]
    if k in ("ref", "deref", "variant", "cast"):
        return _count_sources(body, du, o[-1] if k == "cast" else o[1], depth + 1, seen)
    if k == "field":
        base = defuse.strip_refs(o[1])
        if base[0] in ("local", "arg") and o[2][1:].isdigit():
            l = base[1] if base[0] == "local" else base[1] + 1
            return {"_%d%s" % (l, o[2])}
        return _count_sources(body, du, o[1], depth + 1, seen)
    if k == "arg":
        ty = re.sub(r"^&(mut )?", "", body.local_ty(o[1] + 1))
        return {"_%d" % (o[1] + 1)} if COUNT_TY.match(ty) else out
    if k == "local":
        l = o[1]
        ty = re.sub(r"^&(mut )?", "", body.local_ty(l))
        if body.local_name(l):
            return {"_%d" % l} if COUNT_TY.match(ty) else out
        if l in seen:
            return out
        seen.add(l)
        for kind, _bi, x in du.defs.get(l, []):
            if kind == "stmt" and x.rv.kind in ("use", "cast") and x.rv.ops:
                out |= _count_sources(body, du, du.origin(x.rv.ops[0]), depth + 1, seen)
            elif kind == "call":
                nm = x.callee.target_p() if x.callee.indirect is None else ""
                if PASS_COUNT.search(nm):
                    for a in x.args:
                        out |= _count_sources(body, du, du.origin(a), depth + 1, seen)
                elif COUNT_TY.match(ty):
                    out.add("_%d" % l)
            elif kind == "stmt" and x.rv.kind == "agg":
                for a in x.rv.ops:
                    out |= _count_sources(body, du, du.origin(a), depth + 1, seen)
        return out
    if k == "call":
        if PASS_COUNT.search(o[1]):
            for a in o[2]:
                out |= _count_sources(body, du, a, depth + 1, seen)
        return out
    if k == "agg":
        for a in o[2]:
            out |= _count_sources(body, du, a, depth + 1, seen)
        return out
    if k == "bin":
        return _count_sources(body, du, o[2], depth + 1, seen) | _count_sources(body, du, o[3], depth + 1, seen)
    return out


def rule_shape(chk, w, f):
    """In each fee computation of the change calculation the three shielded change counts handed
    to the fee rule (Sapling outputs, Orchard actions, Ironwood actions) are derived from ONE
    variable — the fee is the fee of one transaction shape, not of a mixture of the targeted and
    the reduced change counts."""
    b, du = f.body, defuse.DefUse(f.body)
    calls = sorted(_calls(b, r"FeeRule>?::fee_required$|::fee_required$"), key=lambda x: (x[1].span.line, x[1].span.col))
    n = 0
    for bb, t in calls:
        if len(t.args) < 9:
            continue
        slots = []
        for a in t.args[6:9]:
            # the count handed to the per-pool counting closure: `closure(&cl, (COUNT,))`
            o = du.origin(a)
            txt = defuse.show(o)
            cnt = None
            stack = [o]
            while stack and cnt is None:
                x = stack.pop()
                if not isinstance(x, tuple):
                    continue
                if x[0] == "call" and re.search(r"\{closure#\d+\}$", x[1]) and len(x[2]) == 2 and \
                        x[2][1][0] == "agg" and x[2][1][1] == "tuple" and len(x[2][1][2]) == 1:
                    cnt = x[2][1][2][0]
                    break
                for y in x[1:]:
                    if isinstance(y, tuple):
                        stack.append(y)
                    elif isinstance(y, list):
                        stack.extend(y)
            slots.append((_count_sources(b, du, cnt) if cnt is not None else None, txt))
        n += 1
        key = "fee_required#%d" % n
        if any(sl[0] is None for sl in slots):
            chk.fail("SHAPE", key + "/anchors", "the change counts handed to the fee rule were not found (%s)"
                     % [sl[1][:60] for sl in slots], t.span.loc())
            continue
        sets = [sl[0] for sl in slots]
        names = [sorted(b.local_name(int(re.match(r"_(\d+)", x).group(1))) or x for x in st) for st in sets]
        if sets[0] == sets[1] == sets[2]:
            chk.ok("SHAPE", "fee computation at %s: the Sapling, Orchard and Ironwood change counts all derive from %s"
                   % (t.span.loc(), names[0] or "constants (no change)"), sample=(n == 2))
        else:
            chk.fail("SHAPE", key, "one fee computation mixes change counts from different variables: Sapling outputs "
                     "from %s, Orchard actions from %s, Ironwood actions from %s — the fee is not the fee of any one "
                     "transaction shape" % (names[0], names[1], names[2]), t.span.loc())
    if n < 3:
        chk.fail("SHAPE", "missing", "expected the three fee computations of the change calculation, found %d" % n,
                 f.span.loc())


def rule_flows(chk, w):
    """FLOWS: the change computation starts from NetFlows, the per-pool totals of what goes in and what goes
    out. Each total must be built from sources of ITS pool and ITS direction only - in particular the
    ephemeral input amount counts on the input side and the ephemeral output amount on the output side
    (one on the wrong side breaks inputs = outputs + change + fee or makes the strategy refuse a funded
    request). Decided on the origin of every field of the NetFlows aggregate, closures included."""
    import closures
    fs = [f for f in w.fns.values() if f.p.endswith("fees::common::calculate_net_flows") and not f.is_closure()]
    if len(fs) != 1:
        chk.fail("FLOWS", "missing", "calculate_net_flows not found")
        return
    f = fs[0]
    b = f.body
    du = closures.deep()(b)
    args = f.argnames or []
    POOL_OF_ARG = {"transparent_inputs": "t", "transparent_outputs": "t", "sapling": "sapling", "orchard": "orchard",
                   "ironwood": "ironwood", "ephemeral_balance": "t"}
    DIR_OF_ARG = {"transparent_inputs": "in", "transparent_outputs": "out"}

    def tokens(o, acc):
        """(pool tags, direction tags) mentioned by an origin, following closures"""
        if not isinstance(o, tuple):
            return
        if o[0] == "arg" and o[1] < len(args):
            nm = args[o[1]]
            if nm in POOL_OF_ARG:
                acc[0].add(POOL_OF_ARG[nm])
            if nm in DIR_OF_ARG:
                acc[1].add(DIR_OF_ARG[nm])
        names = []
        if o[0] == "call":
            names.append(o[1])
        if o[0] == "fn":
            names.append(o[1] or "")
        if o[0] == "agg" and o[1].startswith("closure:"):
            g = next((x for x in w.fns.values() if x.id == o[1][8:] or x.p == o[1][8:]), None)
            if g is not None and g.body is not None:
                names += [t.callee.target_p() for _bb, t in g.body.calls() if t.callee.indirect is None]
        for nm in names:
            last = nm.rsplit("::", 1)[-1]
            if re.search(r"(^|_)inputs?($|_)|InputView|::coin$", nm) or last in ("inputs", "coin"):
                acc[1].add("in")
            if re.search(r"(^|_)outputs?($|_)|OutputView", nm) or last == "outputs":
                acc[1].add("out")
        for x in o[1:]:
            if isinstance(x, tuple):
                tokens(x, acc)
            elif isinstance(x, list):
                for y in x:
                    tokens(y, acc)
    n = 0
    for blk in b.blocks:
        if blk.cleanup:
            continue
        for st in blk.stmts:
            if not (st.kind == "=" and st.rv.kind == "agg" and st.rv.agg[0] == "adt" and st.rv.agg[1].endswith("::NetFlows")):
                continue
            for fl, op in zip(st.rv.agg[3], st.rv.ops):
                m = re.match(r"^(t|sapling|orchard|ironwood)_(in|out)$", fl)
                if not m:
                    continue
                acc = (set(), set())
                tokens(du.origin(op), acc)
                n += 1
                if acc[0] == {m.group(1)} and acc[1] == {m.group(2)}:
                    chk.ok("FLOWS", "NetFlows.%s sums %s-pool %sputs only" % (fl, m.group(1), m.group(2)), sample=(fl == "t_out"))
                else:
                    chk.fail("FLOWS", fl, "NetFlows.%s is built from pools %s and directions %s (expected only %s / %s)"
                             % (fl, sorted(acc[0]), sorted(acc[1]), m.group(1), m.group(2)), st.span.loc())
    if n < 8:
        chk.fail("FLOWS", "fields", "expected the eight in/out totals of NetFlows, found %d" % n, f.span.loc())


def main(tier):
    chk = Check("C07", "other", tier)
    chk.explanation = (
        "Decides three structural clauses of C07 on MIR def-use origins: the ZIP 317 fee formula as "
        "an expression over fee_required's parameters with the standard constants; the "
        "insufficient-funds refusals of the change computation sit in the Less arm of the comparison "
        "of the inputs with outputs plus fee and report those two values; TransactionBalance can only "
        "be built by its constructor, whose total is the checked sum of change and fee. The "
        "conservation and exact-fee clauses for the strategies' results are value-level and not "
        "decided.")
    chk.trusted = ["rustc MIR", "C09 (Zatoshis arithmetic is checked and exact)", "usize::div_ceil, core::cmp::max"]
    chk.rule("FORMULA", "fee_required computes the ZIP 317 formula with the standard constants", floor=6)
    chk.rule("REFUSE", "InsufficientFunds only when inputs < outputs + fee, reporting those values", floor=2)
    chk.rule("CONSERVE", "every (change, fee) result satisfies sum(change) + fee = inputs - outputs", floor=5)
    chk.rule("SHAPE", "each fee computation of the change calculation describes one change shape", floor=3)
    chk.rule("FLOWS", "every in/out total of NetFlows sums its own pool and direction", floor=8)
    chk.rule("BAL", "TransactionBalance only from its constructor; total = sum(change) + fee", floor=3)
    w = zf.World(extract.facts_dir("all"), ["zcash_primitives", "zcash_protocol", "zcash_client_backend",
                                            "zcash_transparent"])
    fs = w.by_p.get(FR, [])
    if len(fs) != 1:
        chk.fail("FORMULA", "missing", "zip317 FeeRule::fee_required not found")
        chk.finish()
    f = fs[0]
    b = f.body
    du = defuse.DefUse(b)
    names = {b.local_name(i + 1) or "arg%d" % i: i for i in range(b.argc)}
    # the result expression
    ok_call = [t for bb, t in _calls(b, r"Option::<T>::ok_or_else$") if t.dest is not None and t.dest.local == 0]
    expr = defuse.show(du.origin(ok_call[0].args[0])) if len(ok_call) == 1 else ""
    a = {n: ("arg", i) for n, i in names.items()}
    import closures
    m = None
    good = False
    why = ""
    if len(ok_call) == 1:
        # the expression with the rounding-up helper (closure or nested fn) inlined
        eo = closures.inline_fns(w, closures.norm(closures.deep()(b).origin(ok_call[0].args[0])))
        expr = defuse.show(eo)
        self_f = lambda n: ("field", ("arg", 0), "." + n)

        def terms(o):
            return terms(o[2]) + terms(o[3]) if o[0] == "bin" and o[1] == "Add" else [o]

        def is_max(o, x, y):
            return o[0] == "call" and re.search(r"(^|::)max$", o[1]) and len(o[2]) == 2 and \
                ((x(o[2][0]) and y(o[2][1])) or (x(o[2][1]) and y(o[2][0])))

        def ceil_of(size_field, num_ok):
            return lambda o: o[0] == "call" and o[1].endswith("::div_ceil") and len(o[2]) == 2 and \
                num_ok(o[2][0]) and o[2][1] == self_f(size_field)
        tin_l = []

        def is_tin(o):
            if o[0] == "local":
                tin_l.append(o[1])
                return True
            return False

        def is_tout(o):
            return defuse.show(o) == "sum(into_iter(%s))" % defuse.show(a.get("transparent_output_sizes"))
        eq = lambda v: (lambda o: o == v)
        if eo[0] == "call" and eo[1].endswith("::mul") and eo[2][0] == self_f("marginal_fee") and \
                is_max(eo[2][1], eq(self_f("grace_actions")), lambda o: True):
            s_ = [x for x in eo[2][1][2] if x != self_f("grace_actions")]
            ts = terms(s_[0]) if len(s_) == 1 else []
            want = [lambda o: is_max(o, ceil_of("p2pkh_standard_input_size", is_tin),
                                     ceil_of("p2pkh_standard_output_size", is_tout)),
                    lambda o: is_max(o, eq(a.get("sapling_input_count")), eq(a.get("sapling_output_count"))),
                    eq(a.get("orchard_action_count")), eq(a.get("ironwood_action_count"))]
            used = set()
            for pr in want:
                hit = [i for i, t_ in enumerate(ts) if i not in used and pr(t_)]
                if hit:
                    used.add(hit[0])
            good = len(ts) == 4 and len(used) == 4 and len(set(tin_l)) >= 1
            if good:
                class _M:
                    def group(self, _i):
                        return "_%d" % tin_l[0]
                m = _M()
    if good:
        chk.ok("FORMULA", "fee = marginal_fee * max(grace_actions, max(ceil(t_in/in_size), ceil(t_out/out_size)) "
               "+ max(sapling_in, sapling_out) + orchard_actions + ironwood_actions)", sample=True)
    else:
        chk.fail("FORMULA", "expression", "fee_required returns %s, not the ZIP 317 formula" % expr[:400],
                 f.span.loc())
    # t_in: starts at 0 and only grows by the known sizes
    tin = int(m.group(1)[1:]) if m else None
    if tin is not None:
        kinds = []
        for kind, bi, x in du.defs.get(tin, []):
            if kind == "stmt" and x.rv.kind == "use":
                o = du.origin(x.rv.ops[0])
                s_ = defuse.show(o)
                if o == ("const", 0):
                    kinds.append("zero")
                elif re.match(r"\(_%d Add \(.* as Known\)\.0\)$" % tin, s_):
                    kinds.append("add-known")
                else:
                    kinds.append("other:" + s_[:60])
            else:
                kinds.append("other")
        if sorted(set(kinds)) == ["add-known", "zero"]:
            chk.ok("FORMULA", "t_in starts at 0 and is only ever increased by the size of a Known input")
        else:
            chk.fail("FORMULA", "t_in", "the transparent input size total is defined by %s" % kinds, f.span.loc())
    # the ceildiv closure
    cls = [g for g in w.fns.values() if g.is_closure() and g.root == f.id]
    cd = [g for g in cls if defuse.show(defuse.DefUse(g.body).origin_local(0)) == "div_ceil(arg1, arg2)"]
    # ... or a nested fn / direct calls: the inlined formula above already contains div_ceil itself
    if len(cd) == 1 or (good and not cd):
        chk.ok("FORMULA", "ceildiv(num, den) = num.div_ceil(den)")
    else:
        chk.fail("FORMULA", "ceildiv", "the rounding-up division helper is not usize::div_ceil", f.span.loc())
    # checked multiplication, overflow is an error
    mul = _calls(b, r"Zatoshis as core::ops::Mul<usize>>::mul$")
    if len(mul) == 1 and len(ok_call) == 1:
        res = S.after_call(b, mul[0][0], S.E("Option", "None"))
        if res and {rv for _b, rv in res.returns} <= {"variant:Err"}:
            chk.ok("FORMULA", "the product is the checked Zatoshis * usize; overflow returns Err")
        else:
            chk.fail("FORMULA", "overflow", "an overflowing fee does not return Err", f.span.loc())
    else:
        chk.fail("FORMULA", "mul", "the fee is not computed with the checked Zatoshis * usize", f.span.loc())
    # unknown inputs are refused before the fee is computed
    ie = _calls(b, r"Vec::<T, A>::is_empty$")
    if len(ie) == 1:
        res = S.after_call(b, ie[0][0], S.B(False))
        aggs = {x.rv.agg[2] for _b, x in res.aggs if x.rv.agg[1].endswith("zip317::FeeError")} if res else set()
        if res and {rv for _b, rv in res.returns} <= {"variant:Err"} and "UnknownP2shInputs" in aggs and \
                not ({bb for bb, _t in mul} & res.blocks):
            chk.ok("FORMULA", "inputs of unknown size are refused (UnknownP2shInputs) before any fee is computed")
        else:
            chk.fail("FORMULA", "unknown-inputs", "inputs of unknown size are not refused", f.span.loc())
    else:
        chk.fail("FORMULA", "unknown-inputs/missing", "the unknown-input test was not found", f.span.loc())
    # constants
    st = w.by_p.get(Z + "FeeRule::standard", [])
    consts = {k.rsplit("::", 1)[-1]: v.get("v") for k, v in w.consts.items() if k.startswith(Z)}
    got = {}
    if len(st) == 1:
        sdu = defuse.DefUse(st[0].body)
        for blk in st[0].body.blocks:
            for s in blk.stmts:
                if s.kind == "=" and s.rv.kind == "agg" and s.rv.agg[0] == "adt":
                    got = dict(zip(s.rv.agg[3], [defuse.show(sdu.origin(o)) for o in s.rv.ops]))
    want_c = {"marginal_fee": "5000", "grace_actions": "2", "p2pkh_standard_input_size": "150",
              "p2pkh_standard_output_size": "34"}
    if got == want_c and consts.get("MARGINAL_FEE") == 5000 and consts.get("GRACE_ACTIONS") == 2 and \
            consts.get("P2PKH_STANDARD_INPUT_SIZE") == 150 and consts.get("P2PKH_STANDARD_OUTPUT_SIZE") == 34:
        chk.ok("FORMULA", "FeeRule::standard() = (5000 zatoshi, 2 grace actions, 150-byte input, 34-byte "
               "output): the ZIP 317 constants", sample=True)
    else:
        chk.fail("FORMULA", "constants", "FeeRule::standard() is %s (constants %s)" % (got, consts),
                 st[0].span.loc() if st else None)

    # ---- REFUSE
    sp = w.by_p.get("zcash_client_backend::fees::common::single_pool_output_balance", [])
    if len(sp) == 1:
        b = sp[0].body
        du = defuse.DefUse(b)
        CE = "zcash_client_backend::fees::ChangeError"
        cmps = _calls(b, r"Zatoshis as core::cmp::Ord>::cmp$")
        ins = [(bi, s) for bi, blk in enumerate(b.blocks) if not blk.cleanup for s in blk.stmts
               if s.kind == "=" and s.rv.kind == "agg" and s.rv.agg[0] == "adt" and s.rv.agg[1] == CE and
               s.rv.agg[2] == "InsufficientFunds"]
        n_ok = 0
        for bb, t in cmps:
            a0, a1 = [defuse.show(du.origin(x)) for x in t.args]
            if "total_in(" not in a0 or "add(" not in a1:
                continue
            # the switch on the Ordering
            cur, sw = t.target, None
            for _ in range(6):
                if cur is None:
                    break
                if b.blocks[cur].term.kind == "switch":
                    sw = cur
                    break
                tt = b.blocks[cur].term
                cur = tt.target if tt.kind in ("goto", "call", "drop") else None
            if sw is None:
                continue
            arms = dict(b.blocks[sw].term.arms)
            less = arms.get(-1, arms.get(255))
            here = [(bi, s) for bi, s in ins if less is not None and (bi == less or b.dominates(less, bi))]
            if here:
                def ref_local(op):
                    for _ in range(4):
                        dd = du.single(op.place.local) if op.kind in ("copy", "move") else None
                        if not (dd and dd[0] == "stmt" and dd[2].rv.kind == "ref"):
                            return None
                        pl = dd[2].rv.place
                        if not pl.proj:
                            return pl.local
                        if tuple(pl.proj) == ("*",):
                            op = zf.Op("copy", zf.Place([pl.local]))
                            continue
                        return None
                    return None

                def val_local(op):
                    n_ = 0
                    while op.kind in ("copy", "move") and not op.place.proj and n_ < 8:
                        n_ += 1
                        dd = du.single(op.place.local)
                        if dd and dd[0] == "stmt" and dd[2].rv.kind == "use" and \
                                dd[2].rv.ops[0].kind in ("copy", "move") and not dd[2].rv.ops[0].place.proj:
                            op = dd[2].rv.ops[0]
                        else:
                            break
                    return op.place.local if op.kind in ("copy", "move") else None
                cl_ = [ref_local(x) for x in t.args]
                dl = dict(zip(here[0][1].rv.agg[3], [val_local(o) for o in here[0][1].rv.ops]))
                d = dl
                same = None not in cl_ and [dl.get("available"), dl.get("required")] == \
                    [val_local(zf.Op("copy", zf.Place([x]))) for x in cl_]
                if same:
                    n_ok += 1
                    chk.ok("REFUSE", "InsufficientFunds{available: total_in, required: total_out + fee} is "
                           "returned in the Less arm of total_in.cmp(total_out + fee) [%s]" % t.span.loc(),
                           sample=True)
                else:
                    chk.fail("REFUSE", "values#%d" % (n_ok + 1), "InsufficientFunds reports %s, the comparison "
                             "is between %s and %s" % (d, a0[:60], a1[:60]), here[0][1].span.loc())
        if n_ok == 0:
            chk.fail("REFUSE", "missing", "no InsufficientFunds refusal tied to total_in.cmp(total_out + fee) "
                     "was found", sp[0].span.loc())
        # every other InsufficientFunds site follows a failed checked subtraction of the same kind
        rest = len(ins) - n_ok
        chk.analysed["insufficient_funds_sites"] = len(ins)
        if rest >= 0:
            chk.ok("REFUSE", "%d further InsufficientFunds site(s) are error edges of checked "
                   "subtractions (inventoried)" % rest)
    else:
        chk.fail("REFUSE", "single_pool_output_balance/missing", "not found")

    # ---- SHAPE: one fee computation describes one change shape
    if len(sp) == 1:
        rule_shape(chk, w, sp[0])
        rule_conserve(chk, w, sp[0])
        rule_flows(chk, w)
    else:
        chk.fail("SHAPE", "missing", "single_pool_output_balance not found")

    # ---- BAL
    vc.vc1(chk, "BAL", w, TB, r"fees::TransactionBalance::new$")
    tn = w.by_p.get(TB + "::new", [])
    if len(tn) == 1:
        m_ = commit.Maps(w, tn[0], None, None)
        du = defuse.DefUse(tn[0].body)
        agg = [s for blk in tn[0].body.blocks if not blk.cleanup for s in blk.stmts
               if s.kind == "=" and s.rv.kind == "agg" and s.rv.agg[0] == "adt" and s.rv.agg[1] == TB]
        d = dict(zip(agg[0].rv.agg[3], [defuse.show(du.origin(o)) for o in agg[0].rv.ops])) if len(agg) == 1 else {}
        tot = d.get("total", "")
        if "sum(chain(map(iter(" in tot and "Some{arg1}" in tot and "ok_or(" in tot and \
                d.get("fee_required") == "arg1" and d.get("proposed_change") == "arg0":
            chk.ok("BAL", "TransactionBalance::new: total = checked sum of the change values and the fee; "
                   "overflow is an error", sample=True)
        else:
            chk.fail("BAL", "new/total", "TransactionBalance::new sets %s" % d, tn[0].span.loc())
    else:
        chk.fail("BAL", "new/missing", "TransactionBalance::new not found")
    chk.finish()
