"""C15 WF - the ranges update_chain_tip builds are ordered (start <= end) on every path.

ScanRange::from_parts panics on an inverted range, and a panic inside a tip update means the queue
never learns about the new tip. For every from_parts call of update_chain_tip and of the closures it
hands to Option combinators, `start <= end` is proved from difference constraints x - y <= k collected
along every path that leads to the call:
  * comparisons tested on the way (in the function itself and, for closures, on every path of the
    creating function up to the combinator that receives the closure),
  * what a combinator guarantees about the closure's parameter (`opt.filter(p).map(f)`, `map_or_else`:
    f is given the payload, and p held for it),
  * arithmetic facts: x.saturating_sub(c) lies in [x - c, x]; min(a, b) is below both.
Values are compared as origin expressions rewritten into the outermost function's terms (captured
variables and parameters substituted), with `+ constant` folded into an offset.
"""
import re

import closures
import defuse

CMP = {"lt": "Lt", "le": "Le", "gt": "Gt", "ge": "Ge", "eq": "Eq", "ne": "Ne"}
NEG = {"Lt": "Ge", "Le": "Gt", "Gt": "Le", "Ge": "Lt", "Eq": "Ne", "Ne": "Eq"}


class Fn:
    def __init__(self, f, parent=None):
        self.f, self.parent = f, parent
        self.du = closures.deep()(f.body)
        self.caps = []        # captured values, in the PARENT's local terms
        self.params = []      # parameter values, in the parent's local terms
        self.site = None      # block of the parent's call that receives the closure
        self.param_facts = [] # comparisons (origin, truth) in the parent's terms known about the parameters

    def to_root(self, o):
        """an origin of this function rewritten in the outermost function's terms"""
        o = closures.norm(o)
        if self.parent is None:
            return o
        return self.parent.to_root(closures.subst(o, self.caps, self.params))


def lin(o):
    """(symbol, offset) of an integer-valued origin; conversions are transparent"""
    k = 0
    while isinstance(o, tuple):
        if o[0] == "cast":
            o = o[2]
        elif o[0] == "call" and re.search(r"::(from|into|clone)$", o[1]) and len(o[2]) == 1:
            o = closures.norm(o[2][0])
        elif o[0] == "call" and re.search(r"::add$", o[1]) and len(o[2]) == 2 and o[2][1][0] == "const" and \
                isinstance(o[2][1][1], int):
            k += o[2][1][1]
            o = closures.norm(o[2][0])
        elif o[0] == "bin" and o[1] == "Add" and o[3][0] == "const" and isinstance(o[3][1], int):
            k += o[3][1]
            o = o[2]
        else:
            break
    return (defuse.show(o), k, o)


class Facts:
    def __init__(self):
        self.d = {}

    def add(self, a, b, k):
        """a - b <= k"""
        if a == b:
            return
        if k < self.d.get((a, b), 1 << 60):
            self.d[(a, b)] = k

    def learn_term(self, o):
        """arithmetic facts about the sub-terms of an origin"""
        if not isinstance(o, tuple):
            return
        if o[0] == "call" and o[1].endswith("::saturating_sub") and len(o[2]) == 2 and o[2][1][0] == "const":
            s_, x = defuse.show(o), lin(closures.norm(o[2][0]))
            self.add(s_, x[0], x[1])                      # s <= x
            self.add(x[0], s_, o[2][1][1] - x[1])         # x - c <= s
        if o[0] == "call" and re.search(r"(^|::)min$", o[1]) and len(o[2]) == 2:
            m = defuse.show(o)
            for a in o[2]:
                x = lin(closures.norm(a))
                self.add(m, x[0], x[1])                   # min <= a
        if o[0] == "call" and re.search(r"(^|::)max$", o[1]) and len(o[2]) == 2:
            m = defuse.show(o)
            for a in o[2]:
                x = lin(closures.norm(a))
                self.add(x[0], m, -x[1])                  # a <= max
        for x in o[1:]:
            if isinstance(x, tuple):
                self.learn_term(x)
            elif isinstance(x, list):
                for y in x:
                    self.learn_term(y)

    def learn_cmp(self, op, a, b):
        """a op b with a, b = lin() results"""
        (sa, ka, oa), (sb, kb, ob) = a, b
        self.learn_term(oa)
        self.learn_term(ob)
        if op == "Le":
            self.add(sa, sb, kb - ka)
        elif op == "Lt":
            self.add(sa, sb, kb - ka - 1)
        elif op == "Ge":
            self.add(sb, sa, ka - kb)
        elif op == "Gt":
            self.add(sb, sa, ka - kb - 1)
        elif op == "Eq":
            self.add(sa, sb, kb - ka)
            self.add(sb, sa, ka - kb)

    def entails_le(self, a, b):
        """a <= b ?"""
        (sa, ka, oa), (sb, kb, ob) = a, b
        self.learn_term(oa)
        self.learn_term(ob)
        if sa == sb:
            return ka <= kb
        nodes = {x for p in self.d for x in p} | {sa, sb}
        dist = {n: (0 if n == sa else 1 << 60) for n in nodes}
        # a - b <= k is an edge b -> a with weight k; shortest path from ... use Bellman-Ford on "x - y <= k": y --k--> x
        # we need the tightest bound on sa - sb: shortest path from sb to sa
        dist = {n: (0 if n == sb else 1 << 60) for n in nodes}
        for _ in range(len(nodes)):
            ch = False
            for (x, y), k in self.d.items():
                if dist[y] + k < dist[x]:
                    dist[x] = dist[y] + k
                    ch = True
            if not ch:
                break
        return dist[sa] <= kb - ka


def cmp_of(o):
    """(op, a, b) of a comparison origin"""
    if o[0] == "bin" and o[1] in NEG:
        return o[1], o[2], o[3]
    if o[0] == "call" and len(o[2]) == 2:
        m = re.search(r"::(lt|le|gt|ge|eq|ne)$", o[1])
        if m:
            return CMP[m.group(1)], o[2][0], o[2][1]
    if o[0] == "un" and o[1] == "Not":
        c = cmp_of(o[2])
        if c:
            return NEG[c[0]], c[1], c[2]
    return None


def paths_to(b, target, limit=400):
    """decision lists [(switch block, value)] of the loop-free paths entry -> target; None when cyclic / too many"""
    out = []

    def go(x, taken, seen):
        if len(out) > limit:
            raise ValueError
        if x == target:
            out.append(taken)
            return
        if x in seen:
            return              # a cycle: that way round adds no new facts
        seen = seen | {x}
        t = b.blocks[x].term
        if t.kind == "switch":
            arms = [(v, tb) for v, tb in list(t.arms) + [("else", t.otherwise)] if tb is not None]
            for v, tb in arms:
                if tb == target or target in b.reachable(tb):
                    go(tb, taken + [(x, v)], seen)
            return
        for y in t.succs():
            if not b.blocks[y].cleanup and (y == target or target in b.reachable(y)):
                go(y, taken, seen)
    try:
        go(0, [], frozenset())
    except (ValueError, RecursionError):
        return None
    return out


def decision_facts(fn, b, taken, facts, some_of=None):
    """add the comparisons decided along a path; returns False when the path contradicts `some_of` being Some"""
    import guards
    for sw, v in taken:
        tm = b.blocks[sw].term
        if tm.discr is None or tm.discr.kind not in ("copy", "move"):
            continue
        o = fn.to_root(fn.du.origin(tm.discr))
        if o[0] == "disc" and some_of is not None and closures.norm(o[1]) == some_of:
            vals = [a for a, _t in tm.arms]
            is_some = (v == 1) or (v == "else" and vals == [0])
            if not is_some:
                return False
            continue
        tr = guards.truth(tm, v)
        c = cmp_of(o)
        if tr is None or c is None:
            continue
        op = c[0] if tr else NEG[c[0]]
        facts.learn_cmp(op, lin(closures.norm(c[1])), lin(closures.norm(c[2])))
    return True


def _copy_facts(f):
    g = Facts()
    g.d = dict(f.d)
    return g


def _strip_filters(w, fn, recv):
    """(receiver without filter layers, [comparison origins that hold for its payload]) - in fn's local terms"""
    preds = []
    r = closures.norm(recv)
    while r[0] == "call" and r[1].endswith("::filter") and len(r[2]) == 2:
        preds.append(r[2][1])
        r = closures.norm(r[2][0])
    payload = ("field", ("variant", r, "Some"), ".0")
    facts = []
    for cl in preds:
        res = closures.closure_result(w, cl, [payload])
        if res is not None:
            facts.append(closures.norm(res))
    return r, payload, facts


def build(w, root):
    nodes = {root.id: Fn(root)}
    order = [nodes[root.id]]
    i = 0
    while i < len(order):
        F = order[i]
        i += 1
        b = F.f.body
        for bi, blk in enumerate(b.blocks):
            if blk.cleanup:
                continue
            for st in blk.stmts:
                if not (st.kind == "=" and st.rv.kind == "agg" and st.rv.agg[0] == "closure"):
                    continue
                g = w.fns.get(st.rv.agg[1]) or next((x for x in w.fns.values() if x.p == st.rv.agg[1]), None)
                if g is None or g.body is None or g.id in nodes:
                    continue
                K = Fn(g, F)
                K.caps = [F.du.origin(op) for op in st.rv.ops]
                L = st.place.local
                # the call that receives the closure
                for cb, t in b.calls():
                    if b.blocks[cb].cleanup or t.callee.indirect is not None:
                        continue
                    idx = [j for j, a in enumerate(t.args) if a.kind in ("copy", "move") and
                           (a.place.local == L or (F.du.root_local(a.place) or (None, None))[1] == L)]
                    if not idx:
                        continue
                    name = t.callee.target_p()
                    while re.search(r"::<[^<>]*>", name):
                        name = re.sub(r"::<[^<>]*>", "", name)
                    K.site = cb
                    K.comb = name.rsplit("::", 1)[-1]
                    takes_payload = (K.comb in ("map", "and_then", "filter", "is_some_and", "inspect") and idx[0] == 1) or \
                        (K.comb in ("map_or_else", "map_or") and idx[0] == 2)
                    if takes_payload and "Option" in name:
                        r, payload, pf = _strip_filters(w, F, F.du.origin(t.args[0]))
                        K.recv = r
                        K.params = [payload]
                        K.param_facts = pf
                    else:
                        K.recv = None
                    break
                nodes[g.id] = K
                order.append(K)
    return order


def contexts(K, cache):
    """[Facts] - one per way of reaching the closure (or the function entry)"""
    if K.f.id in cache:
        return cache[K.f.id]
    if K.parent is None:
        cache[K.f.id] = [Facts()]
        return cache[K.f.id]
    P = K.parent
    out = []
    paths = paths_to(P.f.body, K.site) if K.site is not None else [[]]
    if paths is None:
        paths = [[]]
    some_of = P.to_root(K.recv) if getattr(K, "recv", None) is not None else None
    for ctx in contexts(P, cache):
        for taken in paths:
            f = _copy_facts(ctx)
            if not decision_facts(P, P.f.body, taken, f, some_of):
                continue
            for c in K.param_facts:
                cm = cmp_of(P.to_root(c))
                if cm:
                    f.learn_cmp(cm[0], lin(closures.norm(cm[1])), lin(closures.norm(cm[2])))
            out.append(f)
    cache[K.f.id] = out[:200] or [Facts()]
    return cache[K.f.id]


def alternatives(w, F, o):
    """[(value origin in F's local terms, [comparison origins that hold with it])] for a range bound"""
    o = closures.norm(o)
    if o[0] == "call" and o[1].endswith("::unwrap_or") and len(o[2]) == 2:
        r, payload, pf = _strip_filters(w, F, o[2][0])
        return [(closures.norm(o[2][1]), []), (payload, pf)]
    return [(o, [])]


def check(w, root):
    """[(site description, ok?, detail)]"""
    order = build(w, root)
    cache = {}
    res = []
    for F in order:
        b = F.f.body
        for bb, t in b.calls():
            if b.blocks[bb].cleanup or t.callee.indirect is not None or \
                    not t.callee.target_p().endswith("ScanRange::from_parts"):
                continue
            ro = closures.norm(F.du.origin(t.args[0]))
            prio = defuse.show(F.du.origin(t.args[1])).rsplit("::", 1)[-1].replace("{}", "")
            if not (ro[0] == "agg" and ro[1].endswith("Range") and len(ro[2]) == 2):
                res.append((prio, t, False, "the range is not built from two bounds here: %s" % defuse.show(ro)[:80]))
                continue
            paths = paths_to(b, bb) or [[]]
            bad = None
            n_alt = 0
            for s_o, s_facts in alternatives(w, F, ro[2][0]):
                e_root = F.to_root(ro[2][1])
                ends = [closures.norm(x) for x in e_root[2]] if e_root[0] == "call" and re.search(r"(^|::)min$", e_root[1]) \
                    else [e_root]
                for ctx in contexts(F, cache):
                    for taken in paths:
                        f = _copy_facts(ctx)
                        if not decision_facts(F, b, taken, f):
                            continue
                        for c in s_facts:
                            cm = cmp_of(F.to_root(c))
                            if cm:
                                f.learn_cmp(cm[0], lin(closures.norm(cm[1])), lin(closures.norm(cm[2])))
                        n_alt += 1
                        s_l = lin(F.to_root(s_o))
                        for e in ends:
                            if not f.entails_le(s_l, lin(e)) and bad is None:
                                bad = "start %s%s is not known to be <= end %s%s" % (
                                    s_l[0][:70], "%+d" % s_l[1] if s_l[1] else "", lin(e)[0][:70],
                                    "%+d" % lin(e)[1] if lin(e)[1] else "")
            res.append((prio, t, bad is None, bad or "%d path alternative(s)" % n_alt))
    return res
