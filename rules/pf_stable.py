"""Stable aliases of the reviewed panic sites that sit inside closures (lib/panics.py, _stable_key): the same
review applies when the code moves between the function and its closures, as long as the site keeps its place
among the same-kind sites of that function family. Generated once from the pinned tree; a site whose exact key
is listed is matched by that key first."""
ALIAS = {
    '<zcash_client_backend::scan::CompactDecryptor as zcash_client_backend::scan::Decryptor<D, Output>>::batch_decrypt::{closure#0}::{closure#0}/bounds:index#1':
        '<zcash_client_backend::scan::CompactDecryptor as zcash_client_backend::scan::Decryptor<D, Output>>::batch_decrypt//bounds:index@1',
    '<zcash_client_backend::scan::FullDecryptor as zcash_client_backend::scan::Decryptor<D, Output>>::batch_decrypt::{closure#0}::{closure#0}/bounds:index#1':
        '<zcash_client_backend::scan::FullDecryptor as zcash_client_backend::scan::Decryptor<D, Output>>::batch_decrypt//bounds:index@1',
    '<zcash_primitives::transaction::txid::BlockTxCommitmentDigester as zcash_primitives::transaction::TransactionDigest<zcash_primitives::transaction::Authorized>>::digest_ironwood::{closure#0}/unwrap:expect:Result#1':
        '<zcash_primitives::transaction::txid::BlockTxCommitmentDigester as zcash_primitives::transaction::TransactionDigest<zcash_primitives::transaction::Authorized>>::digest_ironwood//unwrap:expect:Result@1',
    '<zcash_primitives::transaction::txid::BlockTxCommitmentDigester as zcash_primitives::transaction::TransactionDigest<zcash_primitives::transaction::Authorized>>::digest_ironwood::{closure#1}/unwrap:expect:Result#1':
        '<zcash_primitives::transaction::txid::BlockTxCommitmentDigester as zcash_primitives::transaction::TransactionDigest<zcash_primitives::transaction::Authorized>>::digest_ironwood//unwrap:expect:Result@2',
    '<zcash_primitives::transaction::txid::BlockTxCommitmentDigester as zcash_primitives::transaction::TransactionDigest<zcash_primitives::transaction::Authorized>>::digest_orchard::{closure#0}/unwrap:expect:Result#1':
        '<zcash_primitives::transaction::txid::BlockTxCommitmentDigester as zcash_primitives::transaction::TransactionDigest<zcash_primitives::transaction::Authorized>>::digest_orchard//unwrap:expect:Result@1',
    '<zcash_primitives::transaction::txid::BlockTxCommitmentDigester as zcash_primitives::transaction::TransactionDigest<zcash_primitives::transaction::Authorized>>::digest_orchard::{closure#1}/unwrap:expect:Result#1':
        '<zcash_primitives::transaction::txid::BlockTxCommitmentDigester as zcash_primitives::transaction::TransactionDigest<zcash_primitives::transaction::Authorized>>::digest_orchard//unwrap:expect:Result@2',
    '<zcash_primitives::transaction::txid::TxIdDigester as zcash_primitives::transaction::TransactionDigest<A>>::digest_ironwood::{closure#0}/unwrap:expect:Result#1':
        '<zcash_primitives::transaction::txid::TxIdDigester as zcash_primitives::transaction::TransactionDigest<A>>::digest_ironwood//unwrap:expect:Result@1',
    '<zcash_primitives::transaction::txid::TxIdDigester as zcash_primitives::transaction::TransactionDigest<A>>::digest_orchard::{closure#0}/unwrap:expect:Result#1':
        '<zcash_primitives::transaction::txid::TxIdDigester as zcash_primitives::transaction::TransactionDigest<A>>::digest_orchard//unwrap:expect:Result@1',
    'zcash_address::kind::unified::private::SealedContainer::parse_items::read_receiver::{closure#0}/unwrap:expect:Result#1':
        'zcash_address::kind::unified::private::SealedContainer::parse_items::read_receiver//unwrap:expect:Result@1',
    'zcash_client_backend::scanning::compact::<impl zcash_client_backend::scanning::PositionTracker>::for_compact_block::tree_sizes_around::{closure#0}::{closure#1}/unwrap:expect:Result#1':
        'zcash_client_backend::scanning::compact::<impl zcash_client_backend::scanning::PositionTracker>::for_compact_block::tree_sizes_around//unwrap:expect:Result@1',
    'zcash_client_backend::scanning::compact::<impl zcash_client_backend::scanning::PositionTracker>::for_compact_block::tree_sizes_around::{closure#1}/unwrap:unwrap:Result#1':
        'zcash_client_backend::scanning::compact::<impl zcash_client_backend::scanning::PositionTracker>::for_compact_block::tree_sizes_around//unwrap:unwrap:Result@1',
    'zcash_client_backend::scanning::find_received::{closure#1}::{closure#0}/index-call:Index<I>>#1':
        'zcash_client_backend::scanning::find_received//index-call:Index<I>>@1',
    'zcash_primitives::transaction::components::sapling::read_v5_bundle::{closure#3}/unwrap:unwrap:Option#1':
        'zcash_primitives::transaction::components::sapling::read_v5_bundle//unwrap:unwrap:Option@1',
    'zcash_primitives::transaction::txid::to_hash::{closure#0}/unwrap:expect:Result#1':
        'zcash_primitives::transaction::txid::to_hash//unwrap:expect:Result@1',
    'zcash_primitives::transaction::txid::to_hash_v6::{closure#0}/unwrap:expect:Result#1':
        'zcash_primitives::transaction::txid::to_hash_v6//unwrap:expect:Result@1',
    'zcash_primitives::transaction::txid::to_hash_v6::{closure#1}/unwrap:expect:Result#1':
        'zcash_primitives::transaction::txid::to_hash_v6//unwrap:expect:Result@2',
}


def extend(reviewed):
    for k, v in list(reviewed.items()):
        if k in ALIAS:
            reviewed.setdefault(ALIAS[k], v)
