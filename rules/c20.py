"""C20 — chain-history tree: node records, combination rule, tree bookkeeping (structural clauses).

Decided (each is a necessary condition of the property, read off the MIR):
  SEQ     NodeData / V2 / V3 / Entry writers and readers perform the same wire operations on the
          same fields in the same order; every struct field is on the wire exactly once
  UNB     every counter is written and read with the *_unbounded CompactSize codec
  TABLE   CompactSize::write_unbounded and read_unbounded agree row by row (tag, payload width,
          value range) over the whole u64 range (abstract interpretation of both bodies)
  BUF     the scratch buffers of to_bytes / combine hold the longest record
  COMBINE combine_inner of every version: start_* from the left child, end_* from the right,
          counters and work summed, commitment = the hash argument, inner version recursed
  HASH    Version::combine hashes write(left) || write(right) under "ZcashHistory" || branch id
          (LE) and hands (hash, left, right) to combine_inner; Version::hash likewise
  NODE    combine_nodes links (left, right) in argument order; the four call sites pass the
          left-hand (earlier) subtree first
  COUNT   push/pop are inverse on (stored_count, key); append_leaf reports exactly the links it
          pushed; truncate_leaf reports exactly the number of pops it performed
  ROOT    every Ok return of append_leaf / truncate_leaf follows a store to self.root
  VIEW    the tree's storage is touched only by its accessors; a missing entry is an
          ExpectedInMemory error, never a default
  RANGE   NodeData::read rejects exactly the height ranges on which leaf_count would panic
  PF      no class-A panic site is reachable from the parsing entry points
  PS      V2 (Orchard) and V3 (Ironwood) sibling code renames consistently
Not decided: that the append / truncate algorithms produce the same root as a from-scratch
rebuild for every length (an inductive argument over peak configurations).
"""
import re

import absint as A
import assume as S
import codec
import defuse
import extract
import panics
import ps_rules
import sqlfx
import zf
from common import Check

H = "zcash_history::"
ND = {"V1": H + "node_data::NodeData", "V2": H + "node_data::V2", "V3": H + "node_data::V3"}
TREE = H + "tree::Tree::<V>::"
WIDTH = {"u8": 1, "u16": 2, "u32": 4, "u64": 8, "i32": 4, "i64": 8}


def ops_of(seq):
    return [(f, e) for _p, f, e in seq]


def dedupe(seq):
    out = []
    for x in seq:
        if not out or out[-1] != x:
            out.append(x)
    return out


def fields_of(w, adt):
    info = w.adts.get(adt)
    if not info:
        return None
    return [(f["name"], f["ty"]) for f in info["variants"][0]["fields"]]


def enc_size(w, adt, field, enc, sizes):
    """maximum number of bytes an encoding puts on the wire"""
    if enc == "raw":
        ty = dict(fields_of(w, adt)).get(field, "")
        m = re.match(r"\[u8; (\d+)\]$", ty)
        return int(m.group(1)) if m else None
    if enc.startswith("int:"):
        return WIDTH.get(enc.rsplit(":", 1)[-1])
    if enc.startswith("u256:"):
        return 32
    if enc.startswith("cs:"):
        return 9
    if enc.startswith("nested:"):
        return sizes.get(enc.split(":", 1)[1])
    return None


def exclusive_regions(body, sb):
    """arm value -> blocks reachable from that arm's target and from no other arm's target"""
    t = body.blocks[sb].term
    arms = list(t.arms) + [("otherwise", t.otherwise)]
    reach = {v: body.reachable(tb) | {tb} for v, tb in arms if tb is not None}
    out = {}
    for v in reach:
        others = set()
        for u in reach:
            if u != v:
                others |= reach[u]
        out[v] = reach[v] - others
    return out


def before(body, a, b):
    """program point a = (bb, idx) precedes b in every execution that reaches b"""
    if a[0] == b[0]:
        return a[1] < b[1]
    return body.dominates(a[0], b[0]) and a[0] not in body.reachable(b[0])


def rule_seq(chk, w):
    """SEQ + UNB + BUF over the node-data records"""
    sizes = {}
    seqs = {}
    for ver, adt in ND.items():
        short = adt.rsplit("::", 1)[-1]
        try:
            wf, rf = w.fn(adt + "::write"), w.fn(adt + "::read")
        except KeyError:
            chk.fail("SEQ", "%s/missing" % short, "writer or reader of %s not found" % adt)
            continue
        wo, ro = ops_of(codec.writer_ops(w, wf)), ops_of(codec.reader_ops(w, rf))
        seqs[ver] = (wo, ro)
        if wo == ro and wo:
            chk.ok("SEQ", "%s: write and read perform the same %d wire operations in the same "
                   "order: %s" % (short, len(wo), ", ".join("%s=%s" % x for x in wo)), sample=True)
        else:
            diff = [(i, a, b) for i, (a, b) in enumerate(zip(wo + [None] * len(ro), ro + [None] * len(wo)))
                    if a != b and (a or b)][:3]
            chk.fail("SEQ", "%s/sequence" % short, "%s::write and ::read disagree on the wire "
                     "format (position, written, read): %s" % (short, diff), wf.span.loc())
        if any(e.startswith("unknown") or f == "?" for f, e in wo + ro):
            chk.fail("SEQ", "%s/unrecognised" % short, "a wire operation of %s could not be "
                     "classified: %s" % (short, [x for x in wo + ro if x[0] == "?" or
                                                 x[1].startswith("unknown")]), wf.span.loc())
        # every field on the wire exactly once (the branch id is supplied by the caller)
        flds = fields_of(w, adt) or []
        for name, ty in flds:
            if name == "consensus_branch_id":
                continue
            nw = len([1 for f, _e in wo if f == name])
            nr = len([1 for f, _e in ro if f == name])
            if nw == 1 and nr == 1:
                chk.ok("SEQ", "%s.%s is written once and read once" % (short, name))
            else:
                chk.fail("SEQ", "%s/field/%s" % (short, name), "field %s.%s is written %d time(s) "
                         "and read %d time(s): the record does not round-trip"
                         % (short, name, nw, nr), wf.span.loc())
            # counters
            if ty == "u64":
                encs = {e for f, e in wo + ro if f == name}
                if encs == {"cs:unbounded"}:
                    chk.ok("UNB", "%s.%s uses CompactSize::{write,read}_unbounded on both sides"
                           % (short, name), sample=True)
                else:
                    chk.fail("UNB", "%s/%s" % (short, name), "counter %s.%s is encoded as %s: values "
                             "beyond the compact-size bound would be rejected or mangled"
                             % (short, name, sorted(encs)), wf.span.loc())
        # size of the longest record
        tot = 0
        for f, e in wo:
            n = enc_size(w, adt, f, e, sizes)
            if n is None:
                tot = None
                break
            tot += n
        sizes[short] = tot
        sizes["NodeData" if ver == "V1" else ver] = tot
    return seqs, sizes


def rule_buf(chk, w, sizes):
    mx = w.consts.get(H + "node_data::MAX_NODE_DATA_SIZE", {}).get("v")
    me = w.consts.get(H + "entry::MAX_ENTRY_SIZE", {}).get("v")
    longest = max([v for v in sizes.values() if v is not None] or [0])
    if None in sizes.values() or not sizes or mx is None or me is None:
        chk.fail("BUF", "sizes", "record sizes could not be computed: %s (MAX=%s)" % (sizes, mx))
        return
    if longest <= mx:
        chk.ok("BUF", "longest node record is %d bytes <= MAX_NODE_DATA_SIZE = %d" % (longest, mx),
               sample=True)
    else:
        chk.fail("BUF", "MAX_NODE_DATA_SIZE", "the longest node record takes %d bytes but "
                 "MAX_NODE_DATA_SIZE is %d: to_bytes/combine panic on it" % (longest, mx))
    if longest + 9 <= me:
        chk.ok("BUF", "longest entry is %d bytes <= MAX_ENTRY_SIZE = %d" % (longest + 9, me))
    else:
        chk.fail("BUF", "MAX_ENTRY_SIZE", "longest entry %d > MAX_ENTRY_SIZE %d" % (longest + 9, me))
    for fn, mult in (("version::Version::to_bytes", 1), ("version::Version::combine", 2)):
        try:
            f = w.fn(H + fn)
        except KeyError:
            chk.fail("BUF", fn + "/missing", "%s not found" % fn)
            continue
        bufs = [int(m.group(1)) for ty, _n in f.body.locals
                for m in [re.match(r"\[u8; (\d+)\]$", ty)] if m and int(m.group(1)) > 64]
        need = mult * longest
        if bufs and min(bufs) >= need:
            chk.ok("BUF", "%s writes %d record(s) into a %d-byte buffer (needs %d)"
                   % (fn.rsplit("::", 1)[-1], mult, min(bufs), need))
        else:
            chk.fail("BUF", fn, "%s writes %d record(s) of up to %d bytes into a buffer of %s bytes"
                     % (fn, mult, longest, bufs), f.span.loc())


# ------------------------------------------------------------------------------- Entry
def _variant_names(w, adt):
    info = w.adts.get(adt)
    return [v["name"] for v in info["variants"]] if info else []


def _call_defining(body, du, op):
    """(bb, term) of the call whose result an operand is a pure copy of"""
    if op.kind not in ("copy", "move"):
        return None
    r = du.root_local(op.place)
    if not r or len(r) != 2:
        return None
    d = du.single(r[1])
    if d and d[0] == "call":
        return d[1], d[2]
    return None


def _link_helper_call(w, body, du, op):
    """(block, call) when the operand is the `?`-payload of a call to a workspace helper that performs exactly one
    read_exact into a 4-byte buffer and returns Ok(EntryLink::Stored(u32::from_le_bytes(buffer)))"""
    hops = 0
    while op is not None and op.kind in ("copy", "move") and hops < 10:
        hops += 1
        d = du.single(op.place.local)
        if d is None:
            return None
        kind, bi, x = d
        if kind == "stmt" and x.rv.kind == "use":
            op = x.rv.ops[0]
            continue
        if kind == "call" and x.callee.indirect is None and x.callee.target_p().endswith("Try>::branch"):
            op = x.args[0]
            continue
        if kind == "call" and x.callee.indirect is None:
            g = w.fns.get(x.callee.target_id())
            if g is None or g.body is None or g.crate.name != "zcash_history":
                return None
            gb = g.body
            calls = [t for bb, t in gb.calls() if not gb.blocks[bb].cleanup and t.callee.indirect is None]
            reads = [t for t in calls if codec.READ_EXACT.search(t.callee.target_p())]
            ints = [t for t in calls if codec.INT_FROM.search(t.callee.target_p())]
            stored = [st for blk in gb.blocks if not blk.cleanup for st in blk.stmts
                      if st.kind == "=" and st.rv.kind == "agg" and st.rv.agg[0] == "adt" and st.rv.agg[2] == "Stored"]
            bufs = [ty for ty, _n in gb.locals if ty == "[u8; 4]"]
            if len(reads) == 1 and len(ints) == 1 and len(stored) == 1 and bufs and \
                    codec.INT_FROM.search(ints[0].callee.target_p()).group(1) == "u32" and \
                    codec.INT_FROM.search(ints[0].callee.target_p()).group(2) == "le":
                return (bi, x)
            return None
        return None
    return None


def rule_entry(chk, w):
    try:
        wf, rf = w.fn(H + "entry::Entry::<V>::write"), w.fn(H + "entry::Entry::<V>::read")
    except KeyError:
        chk.fail("SEQ", "Entry/missing", "Entry::write or Entry::read not found")
        return
    names = _variant_names(w, H + "EntryKind")
    wo, ro = ops_of(codec.writer_ops(w, wf)), dedupe(ops_of(codec.reader_ops(w, rf)))
    if [x for x in wo if x[0] != "#tag"] == ro and ro:
        chk.ok("SEQ", "Entry: after the kind tag, write and read perform %s"
               % ", ".join("%s=%s" % x for x in ro), sample=True)
    else:
        chk.fail("SEQ", "Entry/sequence", "Entry::write performs %s but Entry::read performs %s"
                 % (wo, ro), wf.span.loc())
    # writer: variant -> tag, and the order of the two links
    wb, rb = wf.body, rf.body
    wdu, rdu = defuse.DefUse(wb), defuse.DefUse(rb)
    wtags, wlinks = {}, []
    for bi, blk in enumerate(wb.blocks):
        t = blk.term
        if blk.cleanup or t.kind != "switch":
            continue
        o = wdu.origin(t.discr)
        if not (o[0] == "disc" and o[1][0] == "field" and o[1][2] == ".kind"):
            continue
        for v, region in exclusive_regions(wb, bi).items():
            if v == "otherwise" or not isinstance(v, int) or v >= len(names):
                continue
            ints = []
            for rbk in sorted(region):
                tt = wb.blocks[rbk].term
                if tt.kind != "call" or tt.callee.indirect is not None or \
                        not codec.WRITE_ALL.search(tt.callee.target_p()):
                    continue
                a = defuse.strip_refs(wdu.origin(tt.args[1]))
                if a[0] == "agg" and a[1] == "array" and all(x[0] == "const" for x in a[2]):
                    wtags.setdefault(names[v], []).append(tuple(x[1] for x in a[2]))
                elif a[0] == "call" and codec.INT_TO.search(a[1]):
                    ints.append((rbk, defuse.show(a[2][0])))
            if names[v] == "Node":
                ints = sorted(ints, key=lambda x, _all=list(ints): len([1 for y in _all if wb.dominates(y[0], x[0])]))
                wlinks = [s for _b, s in ints]
    # reader: tag -> variant, and which read feeds which link
    rtags, rlinks_ok = {}, None
    for bi, blk in enumerate(rb.blocks):
        t = blk.term
        if blk.cleanup or t.kind != "switch":
            continue
        o = rdu.origin(t.discr)
        if not (o[0] == "proj" and o[1][0] == "local" and rb.local_ty(o[1][1]) == "[u8; 1]"):
            continue
        for v, region in exclusive_regions(rb, bi).items():
            for rbk in sorted(region):
                for s in rb.blocks[rbk].stmts:
                    if s.kind == "=" and s.rv.kind == "agg" and s.rv.agg[0] == "adt" and \
                            s.rv.agg[1] == H + "EntryKind":
                        rtags.setdefault(s.rv.agg[2], []).append((v,))
                        if s.rv.agg[2] == "Node" and len(s.rv.ops) == 2:
                            calls = []
                            for op in s.rv.ops:
                                d = rdu.single(op.place.local) if op.kind in ("copy", "move") else None
                                inner = d[2].rv.ops[0] if d and d[0] == "stmt" and d[2].rv.kind == "agg" \
                                    and d[2].rv.agg[2] == "Stored" else None
                                calls.append(_call_defining(rb, rdu, inner) if inner is not None else None)
                            if all(calls) and all(codec.INT_FROM.search(c[1].callee.target_p())
                                                  for c in calls):
                                rlinks_ok = before(rb, (calls[0][0], 0), (calls[1][0], 0))
                            elif not any(calls):
                                # ... or each link comes (through `?`) from a helper that reads one stored link
                                hc = [_link_helper_call(w, rb, rdu, op) for op in s.rv.ops]
                                if all(hc):
                                    rlinks_ok = before(rb, (hc[0][0], 0), (hc[1][0], 0))
    if wtags and wtags == rtags and set(wtags) == set(names) and \
            len({x for v in wtags.values() for x in v}) == len(names) and \
            all(len(v) == 1 for v in wtags.values()):
        chk.ok("SEQ", "Entry kind tags agree: %s" % ", ".join("%s=%s" % (k, v[0][0])
                                                              for k, v in sorted(wtags.items())),
               sample=True)
    else:
        chk.fail("SEQ", "Entry/tags", "Entry::write tags kinds as %s but Entry::read maps tags to "
                 "kinds as %s (kinds: %s)" % (wtags, rtags, names), wf.span.loc())
    want = ["((*arg0.kind as Node).0 as Stored).0", "((*arg0.kind as Node).1 as Stored).0"]
    if wlinks == want and rlinks_ok:
        chk.ok("SEQ", "Entry links: left is written first and the first value read becomes the "
               "left link")
    else:
        chk.fail("SEQ", "Entry/link-order", "Entry::write emits %s and Entry::read %s the first "
                 "value to the left link" % (wlinks, "assigns" if rlinks_ok else "does not assign"),
                 wf.span.loc())


# ------------------------------------------------------------------------------- CompactSize
U64MAX = 2 ** 64 - 1


def _single_interval(iset):
    iv = getattr(iset, "ivs", None)
    if iv is None:
        iv = getattr(iset, "intervals", None)
    if iv is not None and len(iv) == 1:
        return tuple(iv[0])
    return None


def rule_table(chk, w):
    try:
        wr = w.fn("zcash_encoding::CompactSize::write_unbounded")
        rd = w.fn("zcash_encoding::CompactSize::read_unbounded")
    except KeyError:
        chk.fail("TABLE", "missing", "CompactSize::{write,read}_unbounded not found")
        return
    # writer rows: value range -> (tag, payload width)
    it = A.Interp(w, lambda f: False, {})
    it.analyse(wr)
    vk = A.p_key(A.p_sym(("arg", 1)))
    rows = {}
    bad = []
    for s in it.sites:
        if s.kind in ("panic", "maywrap"):
            bad.append("%s at line %d" % (s.kind, s.span.line))
        if s.kind != "unmodelled":
            continue
        if not codec.WRITE_ALL.search(s.callee):
            bad.append("unrecognised call %s" % s.callee)
            continue
        rng = _single_interval(s.state.facts.get(vk)) if s.state.facts.get(vk) is not None else None
        a = s.args[1] if len(s.args) > 1 else None
        inner = a.val if isinstance(a, A.ARef) else a
        row = rows.setdefault(rng, {"order": []})
        if isinstance(inner, A.AStruct) and list(inner.fields) == ["0"]:
            b = inner.fields["0"]
            one = _single_interval(b.set) if isinstance(b, A.AInt) else None
            if one and one[0] == one[1]:
                row["tag"] = one[0]
                row["order"].append("tag")
            elif isinstance(b, A.AInt) and b.lin is not None and A.p_key(b.lin) == vk:
                row["tag"] = "value"
                row["order"].append("tag")
            else:
                bad.append("first byte for %s is %r" % (rng, b))
        elif isinstance(inner, A._Bytes) and inner.meth == "to_le_bytes":
            src = inner.src
            if isinstance(src, A.AInt) and src.lin is not None and A.p_key(src.lin) == vk:
                row["width"] = WIDTH.get(inner.ity)
                row["order"].append("payload")
            else:
                bad.append("payload for %s is not the value itself: %r" % (rng, src))
        else:
            bad.append("unrecognised write for %s: %r" % (rng, inner))
    if it.undecided:
        bad.append("undecided: %s" % it.undecided)
    wtable = {}
    for rng, row in rows.items():
        if rng is None:
            bad.append("a write whose value range is unknown")
            continue
        if row.get("tag") == "value" and row["order"] == ["tag"]:
            wtable[rng] = ("value", 0)
        elif isinstance(row.get("tag"), int) and row.get("width") and row["order"] == ["tag", "payload"]:
            wtable[rng] = (row["tag"], row["width"])
        else:
            bad.append("row %s is %s" % (rng, row))
    # the rows partition the u64 range
    cover = sorted(wtable)
    contiguous = bool(cover) and cover[0][0] == 0 and cover[-1][1] == U64MAX and \
        all(cover[i][1] + 1 == cover[i + 1][0] for i in range(len(cover) - 1))
    if bad or not contiguous:
        chk.fail("TABLE", "writer", "CompactSize::write_unbounded is not a tag/width table over the "
                 "whole u64 range: rows %s; %s" % (wtable, bad), wr.span.loc())
        return
    chk.ok("TABLE", "write_unbounded rows: %s" % ", ".join(
        "[%d,%d] -> %s" % (r[0], r[1], "the byte itself" if t == "value" else "tag %d + %d bytes LE" % (t, n))
        for r, (t, n) in sorted(wtable.items())), sample=True)
    # reader rows: tag range -> (payload width, accepted value range)
    it2 = A.Interp(w, lambda f: False, {})
    it2.record_aggs = {"core::result::Result"}
    it2.analyse(rd)
    rbad = ["%s at line %d" % (s.kind, s.span.line) for s in it2.sites if s.kind in ("panic", "maywrap")]
    if it2.undecided:
        rbad.append("undecided: %s" % it2.undecided)
    rtable = []
    for s in it2.sites:
        if s.kind != "enum-agg" or s.variant != "Ok":
            continue
        facts = {A.p_str(dict(k)): v for k, v in s.state.facts.items()}
        flag = [(k, v) for k, v in facts.items() if k.startswith("site@")]
        val = s.payload.get("0")
        if len(flag) != 1 or not isinstance(val, A.AInt) or val.lin is None:
            rbad.append("Ok at line %d: flag facts %s value %r" % (s.span.line, flag, val))
            continue
        fk, fr = flag[0]
        fr = _single_interval(fr)
        vs = A.p_str(val.lin)
        vr = _single_interval(val.set)
        if vs == fk:
            rtable.append((fr, 0, vr))
        else:
            m = re.match(r"from_le_bytes\((\w+),opaque\(\[u8; (\d+)\]\)\)$", vs)
            if not m or WIDTH.get(m.group(1)) != int(m.group(2)):
                rbad.append("Ok at line %d returns %s" % (s.span.line, vs))
                continue
            rtable.append((fr, int(m.group(2)), vr))
    if rbad:
        chk.fail("TABLE", "reader", "CompactSize::read_unbounded is not a tag/width table: %s" % rbad,
                 rd.span.loc())
        return
    chk.ok("TABLE", "read_unbounded rows: %s" % ", ".join(
        "flag %s -> %d payload bytes, values %s" % (f, n, v) for f, n, v in sorted(rtable, key=str)),
        sample=True)
    # agreement, row by row
    for rng, (tag, n) in sorted(wtable.items()):
        key = "row/%s" % ("value" if tag == "value" else tag)
        if tag == "value":
            m = [r for r in rtable if r[1] == 0 and r[0] and r[0][0] <= rng[0] and rng[1] <= r[0][1]]
        else:
            m = [r for r in rtable if r[0] == (tag, tag) and r[1] == n]
        if not m:
            chk.fail("TABLE", key, "values %s are written as %s but no reader row takes that form "
                     "(reader rows: %s)" % (rng, "one byte" if tag == "value" else
                                            "tag %d + %d bytes" % (tag, n), rtable), rd.span.loc())
            continue
        acc = m[0][2]
        if acc and acc[0] <= rng[0] and rng[1] <= acc[1]:
            chk.ok("TABLE", "values [%d,%d]: written form is read back as the same value (reader "
                   "accepts %s)" % (rng[0], rng[1], acc), sample=True)
        else:
            chk.fail("TABLE", key, "values %s are written with %s but the reader accepts only %s in "
                     "that form: some written counters do not parse back" % (rng, (tag, n), acc),
                     rd.span.loc())
    # the payload buffer decoded is the one the preceding read filled
    du = defuse.DefUse(rd.body)
    n = 0
    for bb, t in rd.body.calls():
        if t.callee.indirect is None and codec.INT_FROM.search(t.callee.target_p()):
            r = du.root_local(t.args[0].place) if t.args[0].kind in ("copy", "move") else None
            buf = r[1] if r and len(r) == 2 else codec._buffer_local(rd.body, t.args[0], du)
            filled = [b2 for b2, t2 in rd.body.calls() if t2.callee.indirect is None and
                      codec.READ_EXACT.search(t2.callee.target_p()) and
                      codec._buffer_local(rd.body, t2.args[1], du) == buf and rd.body.dominates(b2, bb)]
            n += 1
            if buf is not None and filled:
                chk.ok("TABLE", "payload decoded at line %d comes from the buffer read just before"
                       % t.span.line)
            else:
                chk.fail("TABLE", "reader/buffer#%d" % n, "from_le_bytes decodes a buffer that no "
                         "dominating read_exact filled", t.span.loc())
    return wtable, rtable


# ------------------------------------------------------------------------------- combination rule
def _is_field_of(o, argi, path):
    """origin o is `(*arg<argi>)<path>` (path = '.a.b')"""
    return defuse.show(o) in ("*arg%d%s" % (argi, path), "arg%d%s" % (argi, path))


def rule_combine(chk, w):
    """combine_inner(commitment, left, right) of every version, field by field, from the field
    names and types of the record (ZIP 221: start_* of the left child, end_* of the right child,
    totals added, commitment = the hash of the children)"""
    for ver, adt in ND.items():
        short = adt.rsplit("::", 1)[-1]
        try:
            f = w.fn(adt + "::combine_inner")
        except KeyError:
            chk.fail("COMBINE", "%s/missing" % short, "%s::combine_inner not found" % adt)
            continue
        du = defuse.DefUse(f.body)
        aggs = [s for blk in f.body.blocks if not blk.cleanup for s in blk.stmts
                if s.kind == "=" and s.rv.kind == "agg" and s.rv.agg[0] == "adt" and s.rv.agg[1] == adt]
        if len(aggs) != 1:
            chk.fail("COMBINE", "%s/shape" % short, "%s::combine_inner builds %d records"
                     % (short, len(aggs)), f.span.loc())
            continue
        s = aggs[0]
        ftys = dict(fields_of(w, adt))
        for name, op in zip(s.rv.agg[3], s.rv.ops):
            o = du.origin(op)
            txt = defuse.show(o)
            ty = ftys.get(name, "")
            key = "%s/%s" % (short, name)
            if name == "subtree_commitment":
                good, want = (o == ("arg", 0)), "the commitment argument"
            elif name == "consensus_branch_id" or name.startswith("start_"):
                good, want = _is_field_of(o, 1, "." + name), "left.%s" % name
            elif name.startswith("end_"):
                good, want = _is_field_of(o, 2, "." + name), "right.%s" % name
            elif ty in ND.values():
                good = (o[0] == "call" and o[1] == ty + "::combine_inner" and len(o[2]) == 3 and
                        o[2][0] == ("arg", 0) and
                        defuse.show(o[2][1]) == "&*arg1.%s" % name and
                        defuse.show(o[2][2]) == "&*arg2.%s" % name)
                want = "%s::combine_inner(commitment, &left.%s, &right.%s)" % (ty.rsplit("::", 1)[-1],
                                                                                name, name)
            elif ty == "u64" or ty.endswith("U256"):
                parts = None
                if o[0] == "bin" and o[1] == "Add":
                    parts = (o[2], o[3])
                elif o[0] == "call" and re.search(r"ops::(arith::)?Add.*::add$|::add$", o[1]) and len(o[2]) == 2:
                    parts = (o[2][0], o[2][1])
                good = bool(parts) and {defuse.show(parts[0]), defuse.show(parts[1])} == \
                    {"*arg1.%s" % name, "*arg2.%s" % name}
                want = "left.%s + right.%s" % (name, name)
            else:
                good, want = False, "a rule for this kind of field (none is known)"
            if good:
                chk.ok("COMBINE", "%s.%s = %s" % (short, name, want), sample=(name.endswith("_tx")))
            else:
                chk.fail("COMBINE", key, "combined %s.%s is %s, expected %s" % (short, name, txt, want),
                         s.span.loc())
        missing = [n for n in ftys if n not in s.rv.agg[3]]
        if missing:
            chk.fail("COMBINE", "%s/missing-fields" % short, "fields %s not set" % missing, s.span.loc())
    # the trait impls delegate with the arguments in order, and read the heights of their own record
    for v, adt in ND.items():
        impl = "<%sversion::%s as %sversion::Version>::" % (H, v, H)
        path = {"V1": "", "V2": ".v1", "V3": ".v2.v1"}[v]
        try:
            ci = w.fn(impl + "combine_inner")
        except KeyError:
            chk.fail("COMBINE", "%s/impl-missing" % v, "Version impl for %s not found" % v)
            continue
        du = defuse.DefUse(ci.body)
        o = du.origin_local(0)
        if o[0] == "call" and o[1] == adt + "::combine_inner" and \
                [defuse.show(a) for a in o[2]] in (["arg0", "arg1", "arg2"], ["arg0", "&*arg1", "&*arg2"]):
            chk.ok("COMBINE", "%s::combine_inner delegates (commitment, left, right) in order" % v)
        else:
            chk.fail("COMBINE", "%s/delegate" % v, "%s::combine_inner returns %s" % (v, defuse.show(o)),
                     ci.span.loc())
        for acc, fld in (("start_height", "start_height"), ("end_height", "end_height"),
                         ("consensus_branch_id", "consensus_branch_id")):
            try:
                g = w.fn(impl + acc)
            except KeyError:
                chk.fail("COMBINE", "%s/%s/missing" % (v, acc), "accessor missing")
                continue
            o = defuse.DefUse(g.body).origin_local(0)
            if _is_field_of(o, 0, "%s.%s" % (path, fld)):
                chk.ok("COMBINE", "%s::%s reads %s.%s" % (v, acc, path or "self", fld))
            else:
                chk.fail("COMBINE", "%s/%s" % (v, acc), "%s::%s returns %s" % (v, acc, defuse.show(o)),
                         g.span.loc())
        for rw, n in (("write", 2), ("read", 2)):
            try:
                g = w.fn(impl + rw)
            except KeyError:
                chk.fail("COMBINE", "%s/%s/missing" % (v, rw), "missing")
                continue
            o = defuse.DefUse(g.body).origin_local(0)
            if o[0] == "call" and o[1] == adt + "::" + rw and \
                    [defuse.show(a).lstrip("&*") for a in o[2]] == ["arg0", "arg1"]:
                chk.ok("COMBINE", "%s::%s delegates to %s::%s" % (v, rw, adt.rsplit("::", 1)[-1], rw))
            else:
                chk.fail("COMBINE", "%s/%s" % (v, rw), "%s::%s returns %s" % (v, rw, defuse.show(o)),
                         g.span.loc())


def _calls(body, rx):
    return [(bb, t) for bb, t in body.calls()
            if not body.blocks[bb].cleanup and t.callee.indirect is None and
            re.search(rx, t.callee.target_p())]


def rule_hash(chk, w):
    V = H + "version::"
    try:
        cb, hs = w.fn(V + "Version::combine"), w.fn(V + "Version::hash")
        pz, bp = w.fn(V + "personalization"), w.fn(V + "blake2b_personal")
        tb = w.fn(V + "Version::to_bytes")
    except KeyError as e:
        chk.fail("HASH", "missing", "hashing helper not found: %s" % e)
        return
    # combine: write(left) then write(right) into one cursor over one buffer
    b = cb.body
    du = defuse.DefUse(b)
    wr = _calls(b, r"Version::write$")
    okw = False
    if len(wr) == 2:
        wr = sorted(wr, key=lambda x, _all=list(wr): len([1 for y in _all if b.dominates(y[0], x[0])]))
        a0 = [defuse.show(defuse.strip_refs(du.origin(t.args[0]))) for _bb, t in wr]
        c0 = [defuse.show(du.origin(t.args[1])) for _bb, t in wr]
        okw = a0 == ["arg0", "arg1"] and c0[0] == c0[1] and before(b, (wr[0][0], 0), (wr[1][0], 0))
    if okw:
        chk.ok("HASH", "combine serialises left, then right, into the same cursor", sample=True)
    else:
        chk.fail("HASH", "combine/order", "combine does not serialise (left, right) in that order "
                 "into one cursor: %s" % [(defuse.show(du.origin(t.args[0])), t.span.line)
                                          for _bb, t in wr], cb.span.loc())
    bpc = _calls(b, r"::blake2b_personal$")
    okh = False
    if len(bpc) == 1:
        t = bpc[0][1]
        p = defuse.strip_refs(du.origin(t.args[0]))
        d = defuse.strip_refs(du.origin(t.args[1]))
        pers_ok = p[0] == "call" and p[1].endswith("::personalization") and \
            defuse.show(p[2][0]) == "consensus_branch_id(&*arg0)"
        data_ok = False
        if d[0] == "call" and d[1].endswith("::index") and len(d[2]) == 2:
            rng = d[2][1]
            buf = defuse.strip_refs(d[2][0])
            curs = [c for c in _calls(b, r"Cursor::<T>::new$")]
            cbuf = None
            if len(curs) == 1:
                o = defuse.strip_refs(du.origin(curs[0][1].args[0]))
                if o[0] == "call" and o[1].endswith("::index_mut") and \
                        "RangeFull" in defuse.show(o[2][1]):
                    cbuf = defuse.strip_refs(o[2][0])
            upto = None
            if rng[0] == "agg" and rng[1].endswith("RangeTo::RangeTo"):
                upto = rng[2][0]
            elif rng[0] == "agg" and rng[1].endswith("Range::Range") and rng[2][0] == ("const", 0):
                upto = rng[2][1]
            data_ok = cbuf is not None and buf == cbuf and upto is not None and \
                re.match(r"\(?position\(&new\(", defuse.show(upto)) is not None and \
                all(before(b, (x[0], 0), (bb2, 0)) for x in wr
                    for bb2, _t in _calls(b, r"Cursor::<T>::position$"))
        okh = pers_ok and data_ok
    if okh:
        chk.ok("HASH", "combine hashes buffer[..cursor position] under personalization(branch id "
               "of the left child)", sample=True)
    else:
        chk.fail("HASH", "combine/input", "combine does not hash exactly the bytes written, under "
                 "the left child's branch id", cb.span.loc())
    ci = _calls(b, r"Version::combine_inner$")
    if len(ci) == 1 and ci[0][1].dest is not None and ci[0][1].dest.local == 0 and \
            [defuse.show(defuse.strip_refs(du.origin(a)))[:17] for a in ci[0][1].args] == \
            ["blake2b_personal(", "arg0", "arg1"]:
        chk.ok("HASH", "combine returns combine_inner(hash, left, right)")
    else:
        chk.fail("HASH", "combine/result", "combine does not return combine_inner(hash, left, right)",
                 cb.span.loc())
    # personalization = "ZcashHistory" || branch id LE
    b = pz.body
    du = defuse.DefUse(b)
    cps = _calls(b, r"::copy_from_slice$")
    got = set()
    for _bb, t in cps:
        dst = defuse.strip_refs(du.origin(t.args[0]))
        src = defuse.strip_refs(du.origin(t.args[1]))
        if dst[0] == "call" and dst[1].endswith("::index_mut"):
            got.add((defuse.show(dst[2][1]).split("::")[-1], defuse.show(src)))
    want = {("RangeTo{12}", repr('b"ZcashHistory"')), ("Range{12, 16}", "to_le_bytes(arg0)")}
    ret_ok = defuse.show(du.origin_local(0)).startswith("_") and b.local_ty(0) == "[u8; 16]"
    if got == want and ret_ok and len(cps) == 2:
        chk.ok("HASH", 'personalization(id) = "ZcashHistory" || id (4 bytes LE)', sample=True)
    else:
        chk.fail("HASH", "personalization", "personalization() fills %s (expected %s)" % (sorted(got),
                                                                                         sorted(want)),
                 pz.span.loc())
    # blake2b_personal = BLAKE2b-256 with that personalisation over the input
    b = bp.body
    du = defuse.DefUse(b)
    cps = _calls(b, r"::copy_from_slice$")
    chain = defuse.show(defuse.strip_refs(du.origin(cps[0][1].args[1]))) if len(cps) == 1 else ""
    wantc = "as_bytes(&finalize(&*update(&to_state(&*personal(&*hash_length(&new(), 32), &*arg0)), &*arg1)))"
    if chain.replace("_12", "&new()") == wantc and b.local_ty(0) == "[u8; 32]":
        chk.ok("HASH", "blake2b_personal = BLAKE2b(32 bytes, personal = arg0)(arg1)")
    else:
        chk.fail("HASH", "blake2b_personal", "digest is %s" % chain, bp.span.loc())
    # Version::hash
    o = defuse.show(defuse.DefUse(hs.body).origin_local(0))
    if o == "blake2b_personal(&personalization(consensus_branch_id(&*arg0)), &*deref(&to_bytes(&*arg0)))":
        chk.ok("HASH", "hash(data) = blake2b_personal(personalization(branch id), to_bytes(data))")
    else:
        chk.fail("HASH", "hash", "Version::hash returns %s" % o, hs.span.loc())
    o = defuse.show(defuse.DefUse(tb.body).origin_local(0))
    if re.match(r"to_vec\(&\*index\(&_\d+, core::ops::Range::Range\{0, \(position\(&new\(&\*index_mut\(&_\d+, "
                r"core::ops::RangeFull::RangeFull\{\}\)\)\) as usize\)\}\)\)$", o) and \
            len(_calls(tb.body, r"Version::write$")) == 1:
        chk.ok("HASH", "to_bytes(data) = buffer[0..cursor position] after write(data)")
    else:
        chk.fail("HASH", "to_bytes", "Version::to_bytes returns %s" % o, tb.span.loc())


# ------------------------------------------------------------------------------- tree bookkeeping
class DefUseL(defuse.DefUse):
    """origin trees whose call nodes remember the local they define (4th element), so that two
    vectors created by identical expressions stay distinct"""

    def origin_local(self, local, depth=0):
        o = defuse.DefUse.origin_local(self, local, depth)
        if o[0] == "call":
            return o + (local,)
        return o


def _find(o, pred, depth=0):
    """first sub-tree of an origin satisfying pred (pre-order)"""
    if not isinstance(o, tuple) or depth > 30:
        return None
    if pred(o):
        return o
    for x in o[1:]:
        if isinstance(x, tuple):
            r = _find(x, pred, depth + 1)
            if r is not None:
                return r
        elif isinstance(x, list):
            for y in x:
                r = _find(y, pred, depth + 1)
                if r is not None:
                    return r
    return None


def _is_call(o, rx):
    return isinstance(o, tuple) and o and o[0] == "call" and re.search(rx, o[1]) is not None


def _vec_id(o):
    """identity of the vector behind `&mut v`: the local its creating call defines"""
    o = defuse.strip_refs(o)
    if o[0] == "call" and len(o) > 3:
        return ("vec", o[3])
    if o[0] == "local":
        return ("vec", o[1])
    return None


def _link_class(o):
    """what a link passed to resolve_link is: ('pop', vec) | ('next', vec) | ('acc', local) |
    ('stored-of-item',) | ('other', text)"""
    p = _find(o, lambda x: _is_call(x, r"Vec::<T, A>::pop$"))
    if p is not None:
        return ("pop", _vec_id(p[2][0]))
    n = _find(o, lambda x: _is_call(x, r"Iterator>?::next$"))
    if o[0] == "agg" and o[1].endswith("EntryLink::Stored") and n is not None:
        return ("stored-of-item",)
    if n is not None:
        v = _find(n, lambda x: _is_call(x, r"IntoIterator>::into_iter$") and
                  _vec_id(x[2][0]) is not None and not _is_call(defuse.strip_refs(x[2][0]), r"::(skip|into_iter)$"))
        return ("next", _vec_id(v[2][0]) if v else None)
    if o[0] == "local":
        return ("acc", o[1])
    return ("other", defuse.show(o)[:60])


def _resolved_link(o):
    """the link argument of the resolve_link call inside the origin of an IndexedNode"""
    c = _find(o, lambda x: _is_call(x, r"::resolve_link$"))
    return c[2][1] if c is not None and len(c[2]) == 2 else None


def _assigned_from_call(body, du, local, call_dest):
    """local is assigned (somewhere) from the result local of a given call"""
    for kind, _bi, x in du.defs.get(local, []):
        if kind == "stmt" and x.rv.kind == "use" and x.rv.ops[0].kind in ("copy", "move"):
            r = du.root_local(x.rv.ops[0].place)
            if r and len(r) == 2 and r[1] == call_dest:
                return True
        if kind == "call" and x.dest.local == call_dest:
            return True
    return False


def rule_node(chk, w):
    try:
        cn = w.fn(H + "tree::combine_nodes")
    except KeyError:
        chk.fail("NODE", "combine_nodes/missing", "combine_nodes not found")
        return
    du = defuse.DefUse(cn.body)
    ent = [s for blk in cn.body.blocks if not blk.cleanup for s in blk.stmts
           if s.kind == "=" and s.rv.kind == "agg" and s.rv.agg[0] == "adt" and
           s.rv.agg[1] == H + "entry::Entry"]
    got = {}
    if len(ent) == 1:
        got = {n: defuse.show(du.origin(o)) for n, o in zip(ent[0].rv.agg[3], ent[0].rv.ops)}
    want = {"kind": H + "EntryKind::Node{arg0.link, arg1.link}",
            "data": "combine(&*arg0.node.data, &*arg1.node.data)"}
    if got == want:
        chk.ok("NODE", "combine_nodes(l, r) = Entry{Node(l.link, r.link), V::combine(l.data, r.data)}",
               sample=True)
    else:
        chk.fail("NODE", "combine_nodes/shape", "combine_nodes builds %s" % got, cn.span.loc())
    # call sites
    sites = []
    for name in ("append_leaf", "truncate_leaf", "new"):
        try:
            f = w.fn(TREE + name)
        except KeyError:
            chk.fail("NODE", "%s/missing" % name, "Tree::%s not found" % name)
            continue
        b = f.body
        dul = DefUseL(b)
        gp = _calls(b, r"::get_peaks$")
        peaks_vec = _vec_id(dul.origin(gp[0][1].args[2])) if len(gp) == 1 else None
        n = 0
        for bb, t in sorted(_calls(b, r"::combine_nodes$"), key=lambda x: (x[1].span.line, x[1].span.col)):
            n += 1
            key = "%s/combine_nodes#%d" % (name, n)
            ls = [_resolved_link(dul.origin(a)) for a in t.args]
            if None in ls:
                chk.fail("NODE", key, "an argument of combine_nodes is not the resolution of a link",
                         t.span.loc())
                continue
            lc, rc = _link_class(ls[0]), _link_class(ls[1])
            # is the combined node pushed as a generated node that becomes the accumulator?
            pg = [t2 for _b2, t2 in _calls(b, r"::push_generated$")
                  if (lambda r: r and len(r) == 2 and r[1] == t.dest.local)(
                      dul.root_local(t2.args[1].place) if t2.args[1].kind in ("copy", "move") else None)]
            sites.append((name, lc, rc))
            if pg:
                # bagging: the accumulated root is the LEFT argument, the next peak the right
                acc_ok = lc[0] == "acc" and _assigned_from_call(b, dul, lc[1], pg[0].dest.local)
                right_ok = rc[0] in ("pop", "next", "stored-of-item") and rc != lc
                if acc_ok and right_ok:
                    chk.ok("NODE", "Tree::%s bags peaks as combine_nodes(accumulated root, next "
                           "peak) [%s]" % (name, t.span.loc()), sample=True)
                else:
                    chk.fail("NODE", key, "bagging in Tree::%s calls combine_nodes(%s, %s): the "
                             "accumulated root must be the left argument" % (name, lc, rc), t.span.loc())
            else:
                # merging equal-sized subtrees on append: the old peak is LEFT of the new subtree
                if lc[0] == "pop" and rc[0] == "pop" and lc[1] is not None and lc[1] == peaks_vec and \
                        rc[1] is not None and rc[1] != lc[1]:
                    chk.ok("NODE", "Tree::%s merges as combine_nodes(peak from get_peaks, subtree "
                           "from the merge stack) [%s]" % (name, t.span.loc()), sample=True)
                else:
                    chk.fail("NODE", key, "merge in Tree::%s calls combine_nodes(%s, %s); the existing "
                             "peak (vector filled by get_peaks = %s) must be the left argument"
                             % (name, lc, rc, peaks_vec), t.span.loc())
    # get_peaks: left subtree before right subtree
    try:
        g = w.fn(TREE + "get_peaks")
        b = g.body
        du = defuse.DefUse(b)
        rec = sorted(_calls(b, r"::get_peaks$"), key=lambda x: len([1 for y in _calls(b, r"::get_peaks$")
                                                                   if b.dominates(y[0], x[0])]))
        side = []
        for _bb, t in rec:
            o = du.origin(t.args[1])
            c = _find(o, lambda x: _is_call(x, r"IndexedNode::<'_, V>::(left|right)$"))
            side.append(c[1].rsplit("::", 1)[-1] if c else "?")
        if side == ["left", "right"] and before(b, (rec[0][0], 0), (rec[1][0], 0)):
            chk.ok("NODE", "get_peaks visits the left child before the right child")
        else:
            chk.fail("NODE", "get_peaks/order", "get_peaks recurses into %s" % side, g.span.loc())
    except KeyError:
        chk.fail("NODE", "get_peaks/missing", "get_peaks not found")
    return sites


def _count_accesses(body, field):
    """(reads, stores) of (*self).<field> as program points"""
    reads, stores = [], []
    want = ("*", "." + field)

    def is_f(pl):
        return pl is not None and pl.local == 1 and tuple(pl.proj[:2]) == want

    for bi, blk in enumerate(body.blocks):
        if blk.cleanup:
            continue
        for si, s in enumerate(blk.stmts):
            if s.kind != "=":
                continue
            if is_f(s.place):
                stores.append((bi, si))
            for op in (s.rv.ops or []):
                if op.kind in ("copy", "move") and is_f(op.place):
                    reads.append((bi, si))
            if s.rv.kind in ("ref", "raw") and is_f(s.rv.place):
                reads.append((bi, si))
        t = blk.term
        if t.kind == "call":
            for op in t.args:
                if op.kind in ("copy", "move") and is_f(op.place):
                    reads.append((bi, len(blk.stmts)))
    return reads, stores


def _vec_literals(body):
    """dest local of a vec![..] -> element operands"""
    out = {}
    for bi, blk in enumerate(body.blocks):
        t = blk.term
        if t.kind == "call" and t.callee.indirect is None and t.dest is not None and \
                t.callee.target_p().endswith("box_assume_init_into_vec_unsafe"):
            for s in blk.stmts:
                if s.kind == "=" and s.rv.kind == "agg" and s.rv.agg[0] == "array":
                    out[t.dest.local] = list(s.rv.ops)
    return out


def _copied_local(du, op):
    """the local an operand is a plain copy of, through single-definition temporaries"""
    n = 0
    while op is not None and op.kind in ("copy", "move") and not op.place.proj and n < 12:
        n += 1
        d = du.single(op.place.local)
        if d is None or d[0] != "stmt" or d[2].rv.kind != "use":
            return op.place.local
        op = d[2].rv.ops[0]
    return None


def rule_count(chk, w):
    # push / pop
    for name, op, keyfn in (("push", "Add", "insert"), ("pop", "Sub", "remove")):
        try:
            f = w.fn(TREE + name)
        except KeyError:
            chk.fail("COUNT", "%s/missing" % name, "Tree::%s not found" % name)
            continue
        b = f.body
        du = defuse.DefUse(b)
        reads, stores = _count_accesses(b, "stored_count")
        early = [(s, r) for s in stores for r in reads
                 if s != r and ((s[0] == r[0] and s[1] < r[1]) or
                                (s[0] != r[0] and r[0] in b.reachable(s[0])))]
        vals = []
        for bi, si in stores:
            vals.append(defuse.show(du.origin(b.blocks[bi].stmts[si].rv.ops[0]))
                        if b.blocks[bi].stmts[si].rv.ops else "?")
        kc = _calls(b, r"BTreeMap::<K, V, A>::%s$" % keyfn)
        keys = [defuse.show(defuse.strip_refs(du.origin(t.args[1]))) for _bb, t in kc]
        maps = [defuse.show(du.origin(t.args[0])) for _bb, t in kc]
        cnt = "*arg0.stored_count"
        want_val = "(%s %s 1)" % (cnt, op)
        want_key = cnt if name == "push" else want_val
        good = len(stores) == 1 and vals == [want_val] and not early and keys == [want_key] and \
            maps == ["&*arg0.stored"]
        if name == "push":
            ret = defuse.show(du.origin_local(0))
            good = good and ret == H + "EntryLink::Stored{%s}" % cnt
        if good:
            chk.ok("COUNT", "Tree::%s: %s key %s, then stored_count := %s (all reads see the value "
                   "on entry)" % (name, keyfn, want_key.replace("*arg0.", ""),
                                  want_val.replace("*arg0.", "")), sample=True)
        else:
            chk.fail("COUNT", name, "Tree::%s: keys %s on %s, stored_count := %s, reads after the "
                     "update: %s (expected key %s, value %s)" % (name, keys, maps, vals, early,
                                                                want_key, want_val), f.span.loc())
    # push_generated returns the index of the element it pushed
    try:
        f = w.fn(TREE + "push_generated")
        b = f.body
        du = defuse.DefUse(b)
        ret = defuse.show(du.origin_local(0))
        vp, vl = _calls(b, r"Vec::<T, A>::push$"), _calls(b, r"Vec::<T, A>::len$")
        if ret == H + "EntryLink::Generated{((len(&*arg0.generated) as u32) Sub 1)}" and \
                len(vp) == 1 and len(vl) == 1 and before(b, (vp[0][0], 0), (vl[0][0], 0)) and \
                defuse.show(du.origin(vp[0][1].args[0])) == "&*arg0.generated":
            chk.ok("COUNT", "push_generated returns Generated(len - 1) after the push")
        else:
            chk.fail("COUNT", "push_generated", "push_generated returns %s" % ret, f.span.loc())
    except KeyError:
        chk.fail("COUNT", "push_generated/missing", "not found")
    # append_leaf: the returned vector holds exactly the links produced by self.push
    try:
        f = w.fn(TREE + "append_leaf")
        b = f.body
        du = defuse.DefUse(b)
        oks = [s for blk in b.blocks if not blk.cleanup for s in blk.stmts
               if s.kind == "=" and s.place.local == 0 and s.rv.kind == "agg" and s.rv.agg[2] == "Ok"]
        rv = None
        if len(oks) == 1 and oks[0].rv.ops[0].kind in ("copy", "move"):
            r = du.root_local(oks[0].rv.ops[0].place)
            rv = r[1] if r and len(r) == 2 else None
        pushes = {t.dest.local: t for _bb, t in _calls(b, r"Tree::<V>::push$")}
        added = []      # operands added to rv
        for op in _vec_literals(b).get(rv, []):
            added.append(op)
        for _bb, t in _calls(b, r"Vec::<T, A>::push$"):
            d = du.single(t.args[0].place.local) if t.args[0].kind in ("copy", "move") else None
            if d and d[0] == "stmt" and d[2].rv.kind == "ref" and d[2].rv.place.local == rv and \
                    not d[2].rv.place.proj:
                added.append(t.args[1])
        srcs = []
        for op in added:
            r = du.root_local(op.place) if op.kind in ("copy", "move") else None
            srcs.append(r[1] if r and len(r) == 2 else None)
        if rv is not None and pushes and sorted(x for x in srcs if x is not None) == sorted(pushes) \
                and None not in srcs:
            chk.ok("COUNT", "append_leaf returns exactly the %d link(s) it obtained from self.push "
                   "(one per stored node)" % len(pushes), sample=True)
        else:
            chk.fail("COUNT", "append_leaf/appended", "append_leaf stores nodes at %s but reports %s"
                     % (sorted(pushes), srcs), f.span.loc())
    except KeyError:
        chk.fail("COUNT", "append_leaf/missing", "not found")
    # truncate_leaf: the reported count is the number of pops
    try:
        f = w.fn(TREE + "truncate_leaf")
        b = f.body
        du = defuse.DefUse(b)
        cyc = sqlfx.cyclic_blocks(b)
        pops = _calls(b, r"Tree::<V>::pop$")
        oks = [(bi, s) for bi, blk in enumerate(b.blocks) if not blk.cleanup for s in blk.stmts
               if s.kind == "=" and s.place.local == 0 and s.rv.kind == "agg" and s.rv.agg[2] == "Ok"]
        n_ok = 0
        for bb, t in pops:
            mine = [(bi, s) for bi, s in oks if bi in b.reachable(bb) or bi == bb]
            if bb not in cyc:
                # one pop on a path that reports 1 and meets no other pop
                others = [b2 for b2, _t in pops if b2 != bb and (b2 in b.reachable(bb))]
                vals = {defuse.show(du.origin(s.rv.ops[0])) for _bi, s in mine}
                if not others and vals == {"1"}:
                    n_ok += 1
                    chk.ok("COUNT", "truncate_leaf: the single pop on the odd-leaf path is reported as 1")
                else:
                    chk.fail("COUNT", "truncate_leaf/pop-once", "a single pop is reported as %s (other "
                             "pops after it: %d)" % (sorted(vals), len(others)), t.span.loc())
            else:
                # a pop inside `for _ in 0..n`, with Ok(n) and n not modified in between
                rng = [(b2, s) for b2, blk in enumerate(b.blocks) for s in blk.stmts
                       if s.kind == "=" and s.rv.kind == "agg" and s.rv.agg[0] == "adt" and
                       s.rv.agg[1].endswith("ops::Range") and b.dominates(b2, bb)]
                good = False
                if len(rng) == 1 and len(mine) == 1:
                    lo, hi = rng[0][1].rv.ops
                    rop = mine[0][1].rv.ops[0]
                    n_local = _copied_local(du, hi)
                    if lo.kind == "const" and lo.info.get("v") == 0 and n_local is not None and \
                            n_local == _copied_local(du, rop):
                        late = [d for d in du.defs.get(n_local, []) if d[1] in b.reachable(rng[0][0])]
                        nxt = [b2 for b2, _t in _calls(b, r"Range<A>>::next$") if b2 in cyc]
                        good = not late and bool(nxt)
                if good:
                    n_ok += 1
                    chk.ok("COUNT", "truncate_leaf: pops run in `for _ in 0..n` and Ok(n) is returned "
                           "with n unchanged", sample=True)
                else:
                    chk.fail("COUNT", "truncate_leaf/pop-loop", "the looped pop is not bounded by the "
                             "reported count", t.span.loc())
        if len(pops) < 2:
            chk.fail("COUNT", "truncate_leaf/pops", "expected the odd-leaf pop and the pop loop, found "
                     "%d pop call(s)" % len(pops), f.span.loc())
    except KeyError:
        chk.fail("COUNT", "truncate_leaf/missing", "not found")


def _parity(o, truth):
    """('odd'|'even', x) when the comparison `o`, taken with the given truth, tests the lowest bit of x"""
    if not (isinstance(o, tuple) and o[0] == "bin" and o[1] in ("Ne", "Eq")):
        return None
    for a, c in ((o[2], o[3]), (o[3], o[2])):
        if c[0] == "const" and c[1] in (0, 1) and a[0] == "bin" and \
                ((a[1] == "BitAnd" and ("const", 1) in (a[2], a[3])) or (a[1] == "Rem" and a[3] == ("const", 2))):
            x = a[3] if a[2] == ("const", 1) else a[2]
            odd = (c[1] == 1) == (o[1] == "Eq")
            if not truth:
                odd = not odd
            return ("odd" if odd else "even", x)
    return None


def rule_parity(chk, w):
    """COUNT (which removal applies): the last leaf of an MMR hangs directly under the root, so that
    removing it is "drop the root, promote its left child", exactly when the number of leaves is odd; for
    an even count the last leaf sits inside a complete subtree that has to be taken apart. The one-pop
    shortcut of truncate_leaf must therefore be selected by the parity of the ROOT's leaf_count and the
    general path by its complement."""
    import guards

    class Deep(defuse.DefUse):
        MAXD = 60
    try:
        f = w.fn(TREE + "truncate_leaf")
    except KeyError:
        return
    b = f.body
    du = Deep(b)
    cyc = sqlfx.cyclic_blocks(b)
    for bb, t in _calls(b, r"Tree::<V>::pop$"):
        got = []
        for sw, v, _tb in guards.edge_conditions(b, bb):
            tm = b.blocks[sw].term
            tr = guards.truth(tm, v)
            if tr is None or tm.discr is None or tm.discr.kind not in ("copy", "move"):
                continue
            pr = _parity(du.origin(tm.discr), tr)
            if pr:
                got.append((pr[0], defuse.show(defuse.strip_refs(pr[1]))))
        want = "even" if bb in cyc else "odd"
        root_count = [x for k, x in got if k == want and
                      re.search(r"leaf_count\(.*resolve_link\(&\*arg0, \*arg0\.root\)", x)]
        what = "the pop loop of the general path" if bb in cyc else "the one-pop shortcut"
        if root_count:
            chk.ok("COUNT", "truncate_leaf: %s runs only when the root's leaf_count is %s" % (what, want), sample=True)
        else:
            chk.fail("COUNT", "truncate_leaf/parity/%s" % want, "%s is not selected by the root's leaf_count being "
                     "%s (tests found: %s)" % (what, want, got or "none"), t.span.loc())


def rule_root(chk, w):
    for name in ("append_leaf", "truncate_leaf"):
        try:
            f = w.fn(TREE + name)
        except KeyError:
            chk.fail("ROOT", "%s/missing" % name, "not found")
            continue
        b = f.body
        stores = [bi for bi, blk in enumerate(b.blocks) if not blk.cleanup for s in blk.stmts
                  if s.kind == "=" and s.place.local == 1 and tuple(s.place.proj) == ("*", ".root")]
        oks = [(bi, s) for bi, blk in enumerate(b.blocks) if not blk.cleanup for s in blk.stmts
               if s.kind == "=" and s.place.local == 0 and s.rv.kind == "agg" and s.rv.agg[2] == "Ok"]
        if not oks:
            chk.fail("ROOT", "%s/no-ok" % name, "no Ok return found", f.span.loc())
        n = 0
        for bi, s in oks:
            n += 1
            if any(b.dominates(sb, bi) for sb in stores):
                chk.ok("ROOT", "Tree::%s: the Ok return at %s follows a store to self.root"
                       % (name, s.span.loc()), sample=True)
            else:
                chk.fail("ROOT", "%s/ok#%d" % (name, n), "Tree::%s can return Ok without updating "
                         "self.root" % name, s.span.loc())
        # on every error return the stored map may have changed but the root must not: no store
        # to root reaches an Err return
        errs = [bi for bi, t in _calls(b, r"FromResidual.*::from_residual$")]
        late = [e for e in errs for sb in stores if e in b.reachable(sb)]
        if late:
            chk.fail("ROOT", "%s/err-after-root" % name, "an error return is reachable after "
                     "self.root was replaced", f.span.loc())
        else:
            chk.ok("ROOT", "Tree::%s: no error return after self.root was replaced" % name)
    # truncate's odd-leaf path: new root is the left child of the old root
    try:
        f = w.fn(TREE + "truncate_leaf")
        b = f.body
        du = defuse.DefUse(b)
        cyc = sqlfx.cyclic_blocks(b)
        pops = [bb for bb, _t in _calls(b, r"Tree::<V>::pop$") if bb not in cyc]
        okp = False
        for bi, blk in enumerate(b.blocks):
            for s in blk.stmts:
                if s.kind == "=" and s.place.local == 1 and tuple(s.place.proj) == ("*", ".root") and \
                        any(bi == p or bi in b.reachable(p) for p in pops) and \
                        not any(bi in b.reachable(c) for c in cyc):
                    o = defuse.show(du.origin(s.rv.ops[0]))
                    lefts = [defuse.show(du.origin(t.args[0])) for _b, t in _calls(b, r"Entry::<V>::left$")]
                    okp = re.match(r"\(branch\(left\(&\*\(branch\(.*\) as Continue\)\.0\.node\)\) as "
                                   r"Continue\)\.0$", o) is not None and \
                        lefts == ["&*(branch(resolve_link(&*arg0, *arg0.root)) as Continue).0.node"]
        if okp:
            chk.ok("ROOT", "truncate_leaf (odd leaf count): the new root is the old root's left child")
        else:
            chk.fail("ROOT", "truncate_leaf/odd-root", "after removing a lone last leaf the root is "
                     "not set to the old root's left child", f.span.loc())
    except KeyError:
        pass


FIELD_ACCESS = {
    # field -> functions (last path segment) that may write it / borrow it mutably
    "stored": {"push", "pop", "new", "populate"},
    "generated": {"push_generated"},
    "stored_count": {"push", "pop", "new", "populate"},
    "root": {"append_leaf", "truncate_leaf", "new", "populate"},
}


def _resolve_link_match(b, du):
    """resolve_link written with an explicit match on the look-up result: the matched option is defined by the two
    look-ups only, Some(node) builds Ok(IndexedNode{node, link: the parameter}) and nothing else is returned as Ok,
    None returns Err(ExpectedInMemory(the parameter)); no defaulting call"""
    import guards
    if [t for _bb, t in b.calls() if not b.blocks[_bb].cleanup and t.callee.indirect is None and
            re.search(r"unwrap_or|or_insert|or_default|::entry$", t.callee.target_p())]:
        return False
    nodes = [(bi, s) for bi, blk in enumerate(b.blocks) if not blk.cleanup for s in blk.stmts
             if s.kind == "=" and s.rv.kind == "agg" and s.rv.agg[0] == "adt" and s.rv.agg[1].endswith("IndexedNode")]
    errs = [(bi, s) for bi, blk in enumerate(b.blocks) if not blk.cleanup for s in blk.stmts
            if s.kind == "=" and s.rv.kind == "agg" and s.rv.agg[0] == "adt" and s.rv.agg[2] == "ExpectedInMemory"]
    if len(nodes) != 1 or len(errs) != 1:
        return False
    m = dict(zip(nodes[0][1].rv.agg[3], nodes[0][1].rv.ops))
    no = defuse.strip_refs(du.origin(m["node"])) if "node" in m else None
    lo = defuse.strip_refs(du.origin(m["link"])) if "link" in m else None
    if not (no and no[0] == "field" and no[1][0] == "variant" and no[1][2].endswith("Some") and no[1][1][0] == "local"
            and lo == ("arg", 1)):
        return False
    opt = no[1][1][1]
    ds = du.defs.get(opt, [])
    if len(ds) != 2 or not all(k == "call" and re.search(r"::get$", x.callee.target_p()) for k, _bi, x in ds):
        return False
    if defuse.strip_refs(du.origin(errs[0][1].rv.ops[0])) != ("arg", 1):
        return False
    # the Err is built on the None edge of that option, the node on its Some edge
    def edge(bi, some):
        for sw, v, _tb in guards.edge_conditions(b, bi):
            o = du.origin(b.blocks[sw].term.discr)
            if o == ("disc", ("local", opt)):
                vals = [a for a, _t in b.blocks[sw].term.arms]
                is_some = v == 1 or (v == "else" and vals == [0])
                is_none = v == 0 or (v == "else" and vals == [1])
                return is_some if some else is_none
        return False
    return edge(nodes[0][0], True) and edge(errs[0][0], False)


def rule_view(chk, w):
    tree_ty = re.compile(r"^(&(mut )?)?" + re.escape(H) + r"tree::Tree<")
    n = 0
    for f in sorted(w.fns.values(), key=lambda f: f.p):
        if not f.p.startswith(H) or f.derived:
            continue
        b = f.body
        last = f.p.rsplit("::", 1)[-1]
        for bi, blk in enumerate(b.blocks):
            if blk.cleanup:
                continue
            for s in blk.stmts:
                if s.kind != "=":
                    continue
                places = []
                if tree_ty.match(b.local_ty(s.place.local)) and s.place.proj:
                    places.append(("store", s.place))
                if s.rv.kind in ("ref", "raw") and tree_ty.match(b.local_ty(s.rv.place.local)) and \
                        "mut" in (s.rv.op or "mut" if s.ty.startswith("&mut") else ""):
                    places.append(("mut-borrow", s.rv.place))
                for how, pl in places:
                    flds = [p[1:] for p in pl.proj if p.startswith(".")]
                    if not flds or flds[0] not in FIELD_ACCESS:
                        continue
                    if f.p.endswith("::invalid") and how == "store":
                        continue
                    n += 1
                    if last in FIELD_ACCESS[flds[0]]:
                        chk.ok("VIEW", "Tree.%s %s in %s" % (flds[0], how, last))
                    else:
                        chk.fail("VIEW", "%s/%s/%s" % (f.p, flds[0], how), "Tree.%s is modified in %s; "
                                 "only %s may" % (flds[0], f.p, sorted(FIELD_ACCESS[flds[0]])),
                                 s.span.loc())
    # resolve_link: Some(entry) -> Ok(IndexedNode{entry, link}); None -> Err(ExpectedInMemory(link))
    try:
        f = w.fn(TREE + "resolve_link")
        b = f.body
        du = defuse.DefUse(b)
        ret = du.origin_local(0)
        shape = ret[0] == "call" and ret[1].endswith("::ok_or") and \
            defuse.show(ret[2][1]) == H + "Error::ExpectedInMemory{arg1}" and \
            ret[2][0][0] == "call" and ret[2][0][1].endswith("Option::<T>::map")
        gets = sorted(defuse.show(du.origin(t.args[0])) + " @ " + defuse.show(du.origin(t.args[1]))
                      for _bb, t in _calls(b, r"::get$"))
        want = sorted(["&*arg0.stored @ &(arg1 as Stored).0",
                       "&*deref(&*arg0.generated) @ ((arg1 as Generated).0 as usize)"])
        others = [t.callee.target_p() for _bb, t in b.calls()
                  if not b.blocks[_bb].cleanup and t.callee.indirect is None and
                  re.search(r"unwrap_or|or_insert|or_default|::entry$", t.callee.target_p())]
        # what is mapped is the look-up result itself, in both arms
        mp = _calls(b, r"Option::<T>::map$")
        if len(mp) == 1 and mp[0][1].args[0].kind in ("copy", "move"):
            src = _copied_local(du, mp[0][1].args[0])
            ds = du.defs.get(src, [])
            if not ds or not all(k == "call" and re.search(r"::get$", x.callee.target_p())
                                 for k, _bi, x in ds):
                others.append("the mapped option is not the plain look-up result")
        else:
            others.append("no single Option::map")
        cl = [g for g in w.fns.values() if g.is_closure() and g.root == f.id]
        cl_ok = False
        if len(cl) == 1:
            cdu = defuse.DefUse(cl[0].body)
            aggs = [s for blk in cl[0].body.blocks for s in blk.stmts
                    if s.kind == "=" and s.rv.kind == "agg" and s.rv.agg[0] == "adt" and
                    s.rv.agg[1].endswith("IndexedNode")]
            if len(aggs) == 1:
                m = {n_: defuse.show(cdu.origin(o)) for n_, o in zip(aggs[0].rv.agg[3], aggs[0].rv.ops)}
                cl_ok = m.get("node", "").lstrip("&*") == "arg1" and m.get("link", "").startswith("*") and \
                    "arg0" in m.get("link", "")
        if not (shape and cl_ok) and gets == want and _resolve_link_match(b, du):
            chk.ok("VIEW", "resolve_link: Stored(i) -> stored[i], Generated(i) -> generated[i] (matched: Some(node) => "
                   "Ok(IndexedNode{node, link}), None => Err(ExpectedInMemory(link)))", sample=True)
        elif shape and gets == want and not others and cl_ok:
            chk.ok("VIEW", "resolve_link: Stored(i) -> stored[i], Generated(i) -> generated[i]; a "
                   "missing entry is Err(ExpectedInMemory(link))", sample=True)
        else:
            chk.fail("VIEW", "resolve_link/shape", "resolve_link returns %s with look-ups %s%s"
                     % (defuse.show(ret)[:120], gets, "" if cl_ok else " (node/link pairing changed)"),
                     f.span.loc())
    except KeyError:
        chk.fail("VIEW", "resolve_link/missing", "not found")
    # the operations reach storage only through resolve_link
    for name in ("append_leaf", "truncate_leaf", "get_peaks", "root_node"):
        try:
            f = w.fn(TREE + name)
        except KeyError:
            chk.fail("VIEW", name + "/missing", "not found")
            continue
        direct = [t.span.loc() for _bb, t in _calls(f.body, r"BTreeMap::<K, V, A>::|Vec::<T, A>::get|slice::<impl \[T\]>::get")]
        if direct:
            chk.fail("VIEW", name + "/direct", "Tree::%s looks entries up without resolve_link at %s"
                     % (name, direct), f.span.loc())
        else:
            chk.ok("VIEW", "Tree::%s reads entries only through resolve_link" % name)
    return n


def rule_range(chk, w):
    try:
        rd = w.fn(ND["V1"] + "::read")
        lc = w.fn(H + "entry::Entry::<V>::leaf_count")
    except KeyError:
        chk.fail("RANGE", "missing", "NodeData::read or Entry::leaf_count not found")
        return False
    b = rd.body
    du = defuse.DefUse(b)
    tests = _calls(b, r"Option::<T>::is_none$")
    good = False
    if len(tests) == 1:
        bb, t = tests[0]
        o = defuse.strip_refs(du.origin(t.args[0]))
        txt = defuse.show(o)
        m = re.match(r"and_then\(checked_sub\(_(\d+)\.end_height, _(\d+)\.start_height\), closure:(.*)\{\}\)$", txt)
        res = S.after_call(b, bb, S.B(True))
        rets = {rv for _bb, rv in res.returns} if res is not None else {"?"}
        # the closure adds one, checked
        cl_ok = False
        if m:
            cl = [g for g in w.fns.values() if g.is_closure() and g.root == rd.id]
            cl_ok = len(cl) == 1 and defuse.show(defuse.DefUse(cl[0].body).origin_local(0)) == \
                "checked_add(arg1, 1)"
        # both heights have been read when the test runs
        data = int(m.group(1)) if m and m.group(1) == m.group(2) else None
        sub = _calls(b, r"::checked_sub$")
        set_before = False
        if data is not None and len(sub) == 1:
            st = {}
            for bi, blk in enumerate(b.blocks):
                for si, s in enumerate(blk.stmts):
                    if s.kind == "=" and s.place.local == data and s.place.proj and \
                            s.place.proj[-1] in (".start_height", ".end_height"):
                        st.setdefault(s.place.proj[-1], []).append((bi, si))
            set_before = all(len(st.get(k, [])) == 1 and before(b, st[k][0], (sub[0][0], 10 ** 6))
                             for k in (".start_height", ".end_height"))
        # the Ok return is dominated by the test
        oks = [bi for bi, blk in enumerate(b.blocks) if not blk.cleanup for s in blk.stmts
               if s.kind == "=" and s.place.local == 0 and s.rv.kind == "agg" and s.rv.agg[2] == "Ok"]
        dom = bool(oks) and all(b.dominates(bb, x) for x in oks)
        good = bool(m) and cl_ok and set_before and dom and rets <= {"variant:Err"} and \
            res is not None and not res.too_big
        if good:
            chk.ok("RANGE", "NodeData::read returns Err whenever end_height - start_height + 1 is "
                   "not representable, after both heights are read and before any Ok", sample=True)
        else:
            chk.fail("RANGE", "read/test", "NodeData::read does not reject unrepresentable height "
                     "ranges: test %s, closure ok %s, heights read first %s, dominates Ok %s, returns "
                     "when unrepresentable %s" % (txt[:100], cl_ok, set_before, dom, sorted(rets)),
                     rd.span.loc())
    else:
        chk.fail("RANGE", "read/missing-test", "NodeData::read has %d is_none test(s) on the height "
                 "range" % len(tests), rd.span.loc())
    # leaf_count computes the same expression through the version accessors
    o = defuse.show(defuse.DefUse(lc.body).origin_local(0))
    cl = [g for g in w.fns.values() if g.is_closure() and g.root == lc.id]
    same = re.match(r"expect\(and_then\(checked_sub\(end_height\(&\*arg0\.data\), start_height\(&\*arg0\.data\)\), "
                    r"closure:.*\{\}\), ", o) is not None and len(cl) == 1 and \
        defuse.show(defuse.DefUse(cl[0].body).origin_local(0)) == "checked_add(arg1, 1)"
    if same:
        chk.ok("RANGE", "leaf_count = end_height - start_height + 1, checked: exactly the expression "
               "NodeData::read validates")
    else:
        chk.fail("RANGE", "leaf_count/expr", "Entry::leaf_count computes %s" % o[:140], lc.span.loc())
    return good and same


REVIEWED = {
    # key -> (reason, guards)
}


def rule_pf(chk, w, guards):
    ents = []
    for n in (H + "entry::Entry::<V>::from_bytes", H + "entry::Entry::<V>::read",
              H + "version::Version::from_bytes", ND["V1"] + "::from_bytes",
              ND["V1"] + "::read", ND["V2"] + "::read", ND["V3"] + "::read",
              "zcash_encoding::CompactSize::read_unbounded"):
        try:
            ents.append(w.fn(n))
        except KeyError:
            chk.fail("PF", "entry/%s" % n, "parsing entry point %s not found" % n)
    sites, parent, reached = panics.reachable_sites(w, ents)
    chk.analysed["functions_reachable_from_parsers"] = len(reached)
    chk.analysed["parser_entry_points"] = len(ents)
    # all three versions' readers are in the closure (the trait call is resolved by impl)
    for v in ND.values():
        if not any(w.fns[r].p == v + "::read" for r in reached):
            chk.fail("PF", "closure/%s" % v, "%s::read is not in the analysed call closure" % v)
        else:
            chk.ok("PF", "%s::read is in the call closure of the parsing entry points" % v.rsplit("::", 1)[-1])
    for f, s, key in sites:
        key = panics.resolve_key(REVIEWED, key, s)
        if s["cls"] != "A":
            continue
        auto = panics.auto_discharge(f, s)
        loc = s["span"].loc()
        if auto:
            chk.ok("PF", "%s [%s]: %s" % (key, loc, auto), sample=True)
        elif key in REVIEWED and all(guards.get(g) for g in REVIEWED[key][1]):
            chk.ok("PF", "%s [%s]: reviewed — %s" % (key, loc, REVIEWED[key][0]))
            chk.exception("PF", key, REVIEWED[key][0])
        else:
            chk.fail("PF", key, "panic site (%s %s) reachable from a parsing entry point"
                     % (s["kind"], s["detail"]), loc,
                     [w.fns[x].p for x in w.path_to(parent, f.id)])
    # class-B sites in the parsers (arithmetic overflow in debug builds): none expected
    nb = [key for _f, s, key in sites if s["cls"] == "B"]
    if nb:
        chk.fail("PF", "class-B", "arithmetic that can overflow while parsing: %s" % nb)
    else:
        chk.ok("PF", "no unchecked arithmetic on parsed values in the parsers")


def main(tier):
    chk = Check("C20", "other", tier)
    chk.explanation = (
        "Decides the structural clauses of C20 on the MIR of zcash_history and zcash_encoding: "
        "writer/reader wire-operation sequences of the three node-data versions and of Entry are "
        "equal and cover every field; counters use the unbounded CompactSize codec, whose writer "
        "and reader tables are shown to agree over the whole u64 range by abstract interpretation; "
        "scratch buffers hold the longest record; combine_inner follows the start/end/sum rule "
        "field by field; Version::combine hashes left||right under the ZcashHistory||branch-id "
        "personalisation; combine_nodes and its four call sites keep left/right order; push/pop "
        "are inverse and the counts reported by append_leaf/truncate_leaf are the pushes/pops "
        "performed; every Ok return follows a root update; storage is reached only through "
        "resolve_link, which reports a missing entry as an error; NodeData::read rejects the "
        "ranges leaf_count panics on; parsers have no reachable panic site. NOT decided: that the "
        "append/truncate algorithms yield the root of a from-scratch rebuild for every length.")
    chk.trusted = ["rustc MIR", "blake2b_simd computes BLAKE2b", "BTreeMap/Vec behave as specified",
                   "the start_/end_/sum reading of ZIP 221 encoded in rule COMBINE"]
    chk.assumptions = ["Entries handed to Tree::new are the peaks/extra nodes of a well-formed "
                       "array representation (documented precondition)"]
    chk.rule("SEQ", "writer and reader perform the same wire operations; every field once", floor=25)
    chk.rule("UNB", "counters use the unbounded CompactSize codec on both sides", floor=5)
    chk.rule("TABLE", "CompactSize writer/reader tables agree over the u64 range", floor=9)
    chk.rule("BUF", "scratch buffers hold the longest record", floor=4)
    chk.rule("COMBINE", "combine_inner field rule for all versions; impl delegation", floor=38)
    chk.rule("HASH", "combine/hash input, order and personalisation", floor=7)
    chk.rule("NODE", "combine_nodes left/right order at every call site", floor=6)
    chk.rule("COUNT", "push/pop inverse; reported counts equal performed pushes/pops", floor=8)
    chk.rule("ROOT", "root updated before every Ok, never before an Err", floor=6)
    chk.rule("VIEW", "storage access discipline; missing entry is an error", floor=17)
    chk.rule("RANGE", "read rejects the height ranges leaf_count panics on", floor=2)
    chk.rule("PF", "no class-A panic site reachable from the parsers", floor=6)
    chk.rule("PS-1", "V2/V3 sibling code renames consistently", floor=1)
    chk.rule("control", "positive controls", floor=3)

    w = zf.World(extract.facts_dir("all"), ["zcash_history", "zcash_encoding"])
    chk.analysed["functions"] = len([f for f in w.fns.values() if f.p.startswith(H)])
    seqs, sizes = rule_seq(chk, w)
    rule_entry(chk, w)
    rule_buf(chk, w, sizes)
    tables = rule_table(chk, w)
    rule_combine(chk, w)
    rule_hash(chk, w)
    rule_node(chk, w)
    rule_count(chk, w)
    rule_parity(chk, w)
    rule_root(chk, w)
    rule_view(chk, w)
    g_range = rule_range(chk, w)
    rule_pf(chk, w, {"G-range": g_range})
    ps_rules.ps1(chk, ["zcash_history/src/node_data.rs", "zcash_history/src/version.rs"])

    # ------------------------------------------------------------------ controls
    # 1: the bounded CompactSize reader does not accept the top writer row
    try:
        rdb = w.fn("zcash_encoding::CompactSize::read")
        it = A.Interp(w, lambda f: f.p == "zcash_encoding::CompactSize::read_unbounded", {})
        it.record_aggs = {"core::result::Result"}
        it.analyse(rdb)
        top = 0
        for s in it.sites:
            if s.kind == "enum-agg" and s.variant == "Ok" and s.fn.p == rdb.p:
                v = s.payload.get("0")
                if isinstance(v, A.AInt) and v.set.ivs:
                    top = max(top, v.set.ivs[-1][1])
        if 0 < top < 2 ** 32:
            chk.ok("control", "the bounded CompactSize::read is seen to accept at most %d: it would "
                   "fail rule UNB/TABLE for counters" % top)
        else:
            chk.fail("control", "bounded-reader", "control not flagged (top=%s)" % top)
    except KeyError:
        chk.fail("control", "bounded-reader/missing", "CompactSize::read not found")
    # 2: sequence comparison flags a reordered reader
    if seqs.get("V1"):
        wo, ro = seqs["V1"]
        sw = list(ro)
        if len(sw) > 2:
            sw[1], sw[2] = sw[2], sw[1]
        if sw != wo:
            chk.ok("control", "a reader with two fields swapped differs from the writer sequence")
        else:
            chk.fail("control", "seq-swap", "control not flagged")
    # 3: `before` is order-sensitive on push (the key read precedes the counter update)
    try:
        f = w.fn(TREE + "push")
        reads, stores = _count_accesses(f.body, "stored_count")
        if reads and stores and all(not before(f.body, s, r) or s == r for s in stores for r in reads) \
                and any(before(f.body, r, s) for s in stores for r in reads):
            chk.ok("control", "program-point order distinguishes read-before-update in Tree::push")
        else:
            chk.fail("control", "order", "control not flagged")
    except KeyError:
        chk.fail("control", "order/missing", "Tree::push not found")
    chk.finish()
