"""C14 — built transactions contain what was requested and pay exactly the fee (structural).

  GUARD  in build_internal and both build_for_pczt implementations the balance test on
         (value_balance - fee) compared with zero returns InsufficientFunds on Less and
         ChangeRequired on Greater, and — like check_version_compatibility — precedes every
         bundle-building step: assuming the check fails, no builder `build` is reachable
  SUM    value_balance adds the transparent, Sapling, Orchard and Ironwood builders' balances
  PS-1/PS-3  pool uniformity of the builder; each pool's count reaches the matching slot of
         FeeRule::fee_required in every get_fee copy
  SIGN   transparent signing: the index given to the sighash, the coin whose value / script_pubkey
         is committed to and the position that receives the signature are the same enumeration
         element; signatures are zipped back onto the inputs in order
Not decided: decryptability of outputs, signature validity, equality of the fee VALUE.
"""
import re

import assume as S
import defuse
import extract
import ps_rules
import zf
from common import Check

FILES = ["zcash_primitives/src/transaction/builder.rs", "zcash_transparent/src/builder.rs",
         "zcash_primitives/src/transaction/fees.rs", "pczt/src/roles/creator/mod.rs"]
BUILD_FNS = [r"^zcash_primitives::transaction::builder::Builder::<P, U>::build_internal$",
             r"^zcash_primitives::transaction::builder::Builder::<P, U>::build_for_pczt$",
             r"^zcash_primitives::transaction::builder::DeferredPcztBuilder::<P>::build_for_pczt$"]
BUILD_STEP = re.compile(r"::build_transparent$|builder::\w*Builder(::<.*>)?::build(_for_pczt)?$|"
                        r"::builder::Builder::build|sapling_crypto::builder::\w+::build|"
                        r"orchard::builder::Builder::build")


def main(tier):
    chk = Check("C14", "other", tier)
    chk.explanation = (
        "Structural clauses of C14 on the transaction builder: the balance and version guards "
        "dominate every bundle-building step and map Less/Greater to InsufficientFunds/"
        "ChangeRequired (assume-analysis); value_balance sums all four pools; per-pool counts reach "
        "the matching fee_required slots (PS-3) and the builder's pool code is a consistent "
        "renaming (PS-1); transparent signing commits to the same input it signs (def-use identity). "
        "Not decided: decryptability, signature validity, equality of the fee value.")
    chk.trusted = ["rustc MIR, def-use origins", "Rust lexer for PS-1"]
    chk.rule("GUARD", "balance/version guards precede building and map to the right errors", floor=9)
    chk.rule("SUM", "value_balance sums all pools", floor=4)
    chk.rule("PS-1", "sibling pool code is a consistent renaming", floor=60)
    chk.rule("PS-2", "Ironwood code equals its Orchard sibling up to the pool renaming", floor=10)
    chk.rule("PS-3", "pool counts reach the matching fee_required slots", floor=2)
    chk.rule("PS-4", "pool-generic helpers are not handed operands of two pools", floor=4)
    chk.rule("USE", "whoever inspects an Orchard-family builder's contents consults every list that "
             "the builder's adders fill", floor=2)
    chk.rule("SIGN", "the signed input is the one committed to", floor=5)
    chk.rule("SIZES", "the fee prices transparent inputs and outputs by the serialized size of each whole element", floor=2)
    chk.rule("PRESENT", "the transparent bundle is omitted exactly when inputs and outputs are both empty", floor=2)
    chk.rule("SHSIG", "shielded signatures sign the shielded signature hash", floor=3)
    chk.rule("ROLE", "bundle-shape calculators get spends as spends and outputs as outputs", floor=16)
    chk.rule("control", "positive controls", floor=1)
    ps_rules.ps1(chk, FILES)
    ps_rules.ps2(chk, FILES)
    w = zf.World(extract.facts_dir("all"), ["zcash_primitives", "zcash_transparent", "pczt"])

    def scope(f):
        return f.p.startswith("zcash_primitives::transaction::builder::") and "::tests::" not in f.p \
            and "::testing" not in f.p
    chk.analysed["ps3_calls"] = ps_rules.ps3(chk, w, scope)
    chk.analysed["ps4_calls"] = ps_rules.ps4(chk, w, scope)
    for rx in BUILD_FNS:
        fs = [f for f in w.fns.values() if re.search(rx, f.p)]
        if len(fs) != 1:
            chk.fail("GUARD", rx + "/missing", "build function %s not found (%d)" % (rx, len(fs)))
            continue
        guard(chk, w, fs[0])
    value_balance(chk, w)
    deferred_sum(chk, w)
    sign(chk, w)
    content_lists(chk, w, scope)
    multisig_order(chk, w)
    fee_sizes(chk, w)
    transparent_presence(chk, w)
    shielded_commitment(chk, w)
    w2 = zf.World(extract.facts_dir("all"), ["zcash_primitives", "zcash_client_backend"])
    chk.analysed["role_sites"] = bundle_shape_roles(chk, w2)
    chk.finish()


# the external bundle-shape calculators (signatures read from the vendored sapling-crypto 0.7 /
# orchard 0.15 sources): roles of the call's operands, receiver included
ROLE_SIG = {
    r"sapling_crypto::builder::BundleType::num_outputs$": (None, "spends", "outputs"),
    r"sapling_crypto::builder::BundleType::num_spends$": (None, "spends"),
    r"orchard::builder::BundleType::num_actions$": (None, None, "spends", "outputs"),
}


def _roles(txt):
    out = set()
    if re.search(r"\boutputs?\(|_outputs?\b|\boutputs?\b", txt):
        out.add("outputs")
    if re.search(r"\b(inputs|spends)\(|_(spends|inputs)\b|\b(spends|inputs)\b", txt):
        out.add("spends")
    return out


def fee_sizes(chk, w):
    """SIZES: ZIP 317 prices the transparent part by SERIALIZED SIZE - of the whole input (prevout, script, sequence)
    and of the whole output (8-byte value, script length, script). Builder::get_fee must hand fee_required, per
    transparent input and per output of its transparent builder, `InputView::serialized_size` /
    `OutputView::serialized_size` of that element itself - the size of only its script is 8 bytes (outputs) short, so
    from five P2PKH outputs on the fee is an action too low."""
    import closures
    fs = [f for f in w.fns.values() if f.p == "zcash_primitives::transaction::builder::Builder::<P, U>::get_fee"]
    if len(fs) != 1:
        chk.fail("SIZES", "missing", "Builder::get_fee not found")
        return
    f = fs[0]
    b = f.body
    du = closures.deep()(b)
    calls = [t for bb, t in b.calls() if not b.blocks[bb].cleanup and t.callee.indirect is None and
             t.callee.target_p().endswith("::fee_required")]
    if len(calls) != 1:
        chk.fail("SIZES", "call", "get_fee does not call fee_required exactly once", f.span.loc())
        return
    tg = w.fns.get(calls[0].callee.id) or w.fns.get(calls[0].callee.target_id())
    names = (tg.argnames if tg is not None and tg.argnames else None) or \
        ["self", "params", "target_height", "transparent_input_sizes", "transparent_output_sizes"]
    for which, acc, view in (("transparent_input_sizes", "inputs", "InputView"), ("transparent_output_sizes", "outputs", "OutputView")):
        if which not in names:
            chk.fail("SIZES", which + "/param", "fee_required has no %s parameter" % which, f.span.loc())
            continue
        o = closures.norm(du.origin(calls[0].args[names.index(which)]))
        good = False
        detail = defuse.show(o)[:100]
        if o[0] == "call" and o[1].endswith("::map") and len(o[2]) == 2:
            src = defuse.show(o[2][0])
            r = closures.closure_result(w, o[2][1], [("element",)])
            r = closures.norm(r) if r is not None else None
            detail = "%s mapped to %s" % (src[:60], defuse.show(r)[:80] if r else "?")
            good = src == "iter(%s(arg0.transparent_builder))" % acc and r is not None and r[0] == "call" and \
                re.search(r"%s>?::serialized_size$" % view, r[1]) is not None and [closures.norm(x) for x in r[2]] == [("element",)]
        if not good and which == "transparent_input_sizes" and (
                (o[0] == "call" and o[1].endswith("::empty")) or
                (o[0] == "call" and o[1].endswith("::map") and defuse.show(o[2][0]) == "iter(array{})")):
            # a build without the transparent-inputs feature: the size list is an empty literal
            chk.ok("SIZES", "get_fee: no transparent inputs are priced in this build configuration (empty literal)")
            continue
        if good:
            chk.ok("SIZES", "get_fee: %s = %s::serialized_size of every element of the transparent builder's %s" % (which, view, acc),
                   sample=True)
        else:
            chk.fail("SIZES", which, "get_fee prices the transparent %s by `%s`, not by the serialized size of each whole element"
                     % (acc, detail), calls[0].span.loc())


def transparent_presence(chk, w):
    """PRESENT: TransparentBuilder::build and build_for_pczt leave the transparent bundle out exactly when there are
    no inputs AND no outputs. The Builder has already checked the balance over the transparent builder's inputs
    and outputs, so dropping a bundle that has only outputs (a shielded-to-transparent payment) or only inputs
    (shielding) turns their value into fee; and the two build paths must agree. Decided by assuming each of the
    four outcomes of the two is_empty tests and looking at which results are reachable."""
    n = 0
    for name in ("build", "build_for_pczt"):
        fs = [f for f in w.fns.values() if f.p == "zcash_transparent::builder::TransparentBuilder::" + name]
        if len(fs) != 1:
            chk.fail("PRESENT", name + "/missing", "TransparentBuilder::%s not found" % name)
            continue
        f = fs[0]
        b = f.body
        du = defuse.DefUse(b)
        emp = [(bb, t) for bb, t in b.calls() if not b.blocks[bb].cleanup and t.callee.indirect is None and
               t.callee.target_p().endswith("::is_empty")]
        ins = [bb for bb, t in emp if ".vout" not in defuse.show(du.origin(t.args[0]))]
        outs = [bb for bb, t in emp if ".vout" in defuse.show(du.origin(t.args[0]))]
        if len(ins) != 1 or len(outs) != 1:
            chk.fail("PRESENT", name + "/tests", "%s does not test the inputs and the outputs for emptiness exactly once each "
                     "(inputs: %d, outputs: %d)" % (name, len(ins), len(outs)), f.span.loc())
            continue
        n += 1
        bad = []
        for ie in (True, False):
            for oe in (True, False):
                # the second test may be skipped by short-circuiting: explore with both assumed
                res = S.explore(b, 0, {}, call_results={ins[0]: S.B(ie), outs[0]: S.B(oe)})
                rets = {rv for _b, rv in res.returns}
                want = {"variant:None"} if (ie and oe) else {"variant:Some"}
                if not rets or not rets <= want:
                    bad.append("inputs %s, outputs %s -> %s" % ("empty" if ie else "present", "empty" if oe else "present", sorted(rets)))
        if not bad:
            chk.ok("PRESENT", "TransparentBuilder::%s returns None exactly when inputs and outputs are both empty" % name, sample=True)
        else:
            chk.fail("PRESENT", name, "TransparentBuilder::%s: %s (a bundle must be produced unless both are empty)" % (name, "; ".join(bad)),
                     f.span.loc())
    if n < 2:
        chk.fail("PRESENT", "sites", "expected build and build_for_pczt, analysed %d" % n)


def shielded_commitment(chk, w):
    """SHSIG: every shielded authorisation made by Builder::build_internal (Sapling spend-auth and binding signatures,
    Orchard / Ironwood spend-auth and binding signatures) signs signature_hash(tx, SignableInput::Shielded, txid
    parts) - under ZIP 244 that digest equals the txid only for transactions without transparent inputs, so signing
    the txid makes every shielding transaction's shielded signatures invalid while build() still returns Ok. The
    message handed to each apply_signatures is traced to its origin across the closures."""
    import c15_wf
    import closures
    roots = [f for f in w.fns.values() if f.p == "zcash_primitives::transaction::builder::Builder::<P, U>::build_internal"]
    if len(roots) != 1:
        chk.fail("SHSIG", "missing", "Builder::build_internal not found")
        return
    order = c15_wf.build(w, roots[0])
    n = 0
    for F in order:
        b = F.f.body
        for bb, t in b.calls():
            if b.blocks[bb].cleanup or t.callee.indirect is not None or len(t.args) < 3:
                continue
            nm = t.callee.target_p()
            if not re.search(r"^(sapling_crypto|orchard)::.*::apply_signatures(::<.*>)?$", nm):
                continue
            o = F.to_root(F.du.origin(t.args[2]))
            while o[0] == "call" and re.search(r"::(as_ref|deref|clone|into|from|borrow)$", o[1]) and o[2]:
                o = closures.norm(o[2][0])
            n += 1
            pool = "Sapling" if nm.startswith("sapling") else "Orchard-protocol"
            good = o[0] == "call" and o[1].endswith("sighash::signature_hash") and len(o[2]) >= 2 and \
                "SignableInput::Shielded" in defuse.show(o[2][1])
            if good:
                chk.ok("SHSIG", "build_internal: the %s signatures are made over signature_hash(.., SignableInput::Shielded, ..)" % pool,
                       sample=(n == 1))
            else:
                chk.fail("SHSIG", "build_internal/%s#%d" % (pool, n), "the %s signatures are made over `%s`, not over the shielded "
                         "signature hash of the transaction" % (pool, defuse.show(o)[:120]), t.span.loc())
    if n < 3:
        chk.fail("SHSIG", "sites", "expected the Sapling, Orchard and Ironwood apply_signatures calls, found %d" % n)


def bundle_shape_roles(chk, w):
    """The padded output / action counts the fee is computed for come from the bundle-shape
    calculators, which take (requested spends, requested outputs): a count of outputs handed in as
    the spends (or the other way round) prices a different transaction."""
    n = 0
    for f in sorted(w.fns.values(), key=lambda f: f.p):
        root = w.fns.get(f.root) if f.is_closure() else f
        if root is None or "::tests::" in root.p or "::testing" in root.p:
            continue
        if not (root.p.startswith("zcash_primitives::transaction::builder::") or
                "zcash_client_backend::fees::" in root.p):
            continue
        b = f.body
        du = None
        ordn = {}
        for bb, t in b.calls():
            if b.blocks[bb].cleanup or t.callee.indirect is not None:
                continue
            sig = next((v for rx, v in ROLE_SIG.items() if re.search(rx, t.callee.target_p())), None)
            g = w.fns.get(t.callee.target_id())
            if sig is None and g is not None and not g.is_closure() and g.argnames and \
                    re.search(r"(action_count|num_actions|num_outputs|num_spends)$", g.p):
                rs = [(_roles(nm or "") if nm else set()) for nm in g.argnames]
                sig = tuple(next(iter(r)) if len(r) == 1 else None for r in rs)
                if not any(sig):
                    sig = None
            if sig is None:
                continue
            du = du or defuse.DefUse(b)
            args = t.args
            k0 = "%s/%s" % (f.p.replace("zcash_primitives::transaction::builder::", ""), t.callee.target_p().rsplit("::", 1)[-1])
            ordn[k0] = ordn.get(k0, 0) + 1
            for i, want in enumerate(sig):
                if want is None or i >= len(args):
                    continue
                a = args[i]
                txt = defuse.show(du.origin(a))
                if a.kind in ("copy", "move") and not a.place.proj and b.local_name(a.place.local):
                    txt += " " + b.local_name(a.place.local)
                # a named local in the chain
                r = du.root_local(a.place) if a.kind in ("copy", "move") else None
                if r and b.local_name(r[1]):
                    txt += " " + b.local_name(r[1])
                got = _roles(txt)
                n += 1
                if got and got != {want}:
                    chk.fail("ROLE", "%s#%d/%s" % (k0, ordn[k0], want), "%s is given %s as its requested %s: %s"
                             % (t.callee.target_p().rsplit("::", 1)[-1], " and ".join(sorted(got)), want, txt[:120]),
                             t.span.loc())
                else:
                    chk.ok("ROLE", "%s: the requested %s are %s" % (k0, want, txt[:70]), sample=(n == 1))
    return n


def multisig_order(chk, w):
    """OP_CHECKMULTISIG consumes signatures in the order of the redeem script's public keys: the loop
    that signs a P2SH multisig input walks the script's pubkeys (looking each up in the signing set),
    not the signing set."""
    fs = [g for g in w.fns.values() if "zcash_transparent::builder" in g.p and "apply_signatures" in g.p]
    n = 0
    for g in fs:
        b = g.body
        du = None
        nexts = [(bb, t) for bb, t in b.calls() if not b.blocks[bb].cleanup and t.callee.indirect is None and
                 re.search(r"Iterator>?::next$", t.callee.target_p())]
        for bb, t in b.calls():
            if b.blocks[bb].cleanup or t.callee.indirect is not None or not t.callee.target_p().endswith("::sign_ecdsa"):
                continue
            loops = []
            for nb, nt in nexts:
                if bb in b.reachable(nb) and nb in b.reachable(bb):
                    loops.append((nb, nt))
            if not loops:
                continue            # a single signature (P2PKH)
            du = du or defuse.DefUse(b)
            n += 1
            srcs = [defuse.show(du.origin(nt.args[0])) for _nb, nt in loops]
            if len(srcs) == 1 and re.search(r"as MultiSig\)\.pubkeys\)?$", srcs[0]):
                chk.ok("SIGN", "multisig signatures are produced in a loop over the redeem script's pubkeys "
                       "(script order)", sample=True)
            else:
                chk.fail("SIGN", "multisig-order", "the multisig signing loop iterates %s instead of the redeem script's "
                         "pubkeys: signatures come out in another order than OP_CHECKMULTISIG consumes them"
                         % [x[:90] for x in srcs], t.span.loc())
    if n == 0:
        chk.fail("SIGN", "multisig-order/missing", "no looped signing site found in apply_signatures")


def g_returns_result(g):
    return g.body.local_ty(0).startswith("core::result::Result<")


def guard(chk, w, f, _inner=None):
    body = f.body
    du = defuse.DefUse(body)
    short = f.p.rsplit("::", 2)[-2].split("<")[0] + "::" + f.p.rsplit("::", 1)[-1]
    if _inner:
        short = "%s (for %s)" % (short, _inner)
    steps = [(bb, t) for bb, t in body.calls() if t.callee.indirect is None and
             BUILD_STEP.search(t.callee.target_p())]
    if not steps:
        # building may happen in closures (and_then(|builder| builder.build(..)))
        for c in w.callees(f.id):
            g = w.fns.get(c)
            if g and g.is_closure() and g.root == f.id:
                for bb, t in g.body.calls():
                    if t.callee.indirect is None and BUILD_STEP.search(t.callee.target_p()):
                        steps.append((None, t))
    chk.analysed.setdefault("build_steps", {})[short] = len(steps)
    # version guard (DeferredPcztBuilder validates at propose time)
    vc = S.find_calls(body, r"::check_version_compatibility$")
    if vc:
        bb, t = vc[0]
        res = S.after_call(body, bb, S.E("Result", "Err"))
        rets = {rv for _b, rv in res.returns}
        later = [c for _b, c in res.calls if c.callee.indirect is None and
                 (BUILD_STEP.search(c.callee.target_p()) or c.callee.target_p().endswith("::value_balance"))]
        if rets <= {"variant:Err"} and not later:
            chk.ok("GUARD", "%s: an incompatible version returns Err before anything is built" % short,
                   sample=True)
        else:
            chk.fail("GUARD", f.p + "/version", "with an invalid version the builder continues (returns "
                     "%s, later steps %d)" % (sorted(rets), len(later)), t.span.loc())
    elif "DeferredPcztBuilder" not in f.p and not _inner:
        chk.fail("GUARD", f.p + "/version/missing", "check_version_compatibility is not called",
                 f.span.loc())
    # balance guard
    cmps = [(bb, t) for bb, t in body.calls() if t.callee.indirect is None and
            re.search(r"ZatBalance as core::cmp::Ord>::cmp$", t.callee.target_p())]
    okc = None
    for bb, t in cmps:
        o = [defuse.show(du.origin(a)) for a in t.args]
        if ("value_balance" in o[0] or "sum(" in o[0]) and "sub(" in o[0] and "zero()" in o[1]:
            okc = (bb, t, o)
    if okc is None and not _inner:
        # the guard may be delegated to a private helper of the builder: `self.check_..(fee)?`
        for hb_, ht in body.calls():
            if ht.callee.indirect is not None or body.blocks[hb_].cleanup:
                continue
            hs = [g for g in w.fns.values() if g.id == ht.callee.target_id() and g.body is not None and
                  g.p.startswith("zcash_primitives::transaction::builder::") and not g.is_closure() and
                  any(c.callee.indirect is None and re.search(r"ZatBalance as core::cmp::Ord>::cmp$", c.callee.target_p())
                      for _x, c in g.body.calls())]
            if len(hs) != 1 or not g_returns_result(hs[0]):
                continue
            # the helper itself is the guard ...
            before = len(chk.violations)
            guard(chk, w, hs[0], _inner=short)
            if len(chk.violations) != before:
                return
            # ... its fee is the caller's, its failure ends the build, and it precedes every build step
            def _mentions_fee(o):
                if not isinstance(o, tuple):
                    return False
                if o[0] == "local":
                    return "fee" in (body.local_name(o[1]) or "")
                if o[0] == "arg":
                    return o[1] < len(f.argnames or []) and "fee" in (f.argnames[o[1]] or "")
                if o[0] == "call" and "fee" in o[1].rsplit("::", 1)[-1]:
                    return True
                return any(_mentions_fee(x) if isinstance(x, tuple) else
                           (any(_mentions_fee(y) for y in x) if isinstance(x, list) else False) for x in o[1:])
            fee_ok = any(_mentions_fee(du.origin(a)) or (a.kind in ("copy", "move") and
                         "fee" in (body.local_name(a.place.local) or "")) for a in ht.args[1:])
            res = S.after_call(body, hb_, S.E("Result", "Err"))
            rets = {rv for _b, rv in res.returns}
            later = [c for _b, c in res.calls if c.callee.indirect is None and BUILD_STEP.search(c.callee.target_p())]
            if fee_ok and rets <= {"variant:Err"} and not later:
                chk.ok("GUARD", "%s: the balance guard is delegated to %s(fee); its Err ends the build"
                       % (short, hs[0].p.rsplit("::", 1)[-1]))
                chk.ok("GUARD", "%s: balance below zero => Err(InsufficientFunds), nothing is built (via the helper)" % short)
                chk.ok("GUARD", "%s: balance above zero => Err(ChangeRequired), nothing is built (via the helper)" % short)
            else:
                chk.fail("GUARD", f.p + "/balance/delegated", "the helper %s does not receive the fee or its error does "
                         "not end the build (returns %s, later build steps %d)" % (hs[0].p, sorted(rets), len(later)),
                         ht.span.loc())
            for b2, c in steps:
                if b2 is not None and not body.dominates(hb_, b2) and not _fee_optional(body, hb_, b2):
                    chk.fail("GUARD", "%s/step-before-guard/%s" % (f.p, c.callee.target_p().rsplit("::", 1)[-1]),
                             "a bundle is built on a path that does not pass the balance guard", c.span.loc())
            return
    if okc is None:
        chk.fail("GUARD", f.p + "/balance/missing", "no comparison of (value_balance - fee) with zero "
                 "in %s" % short, f.span.loc())
        return
    bb, t, o = okc
    fee_in = re.search(r"sub\(.*value_balance\(.*?\), (.*)", o[0])
    if "arg" in o[0].split("sub(")[1] or "get_fee" in o[0] or "fee" in o[0]:
        chk.ok("GUARD", "%s: the compared balance is value_balance() minus the fee" % short)
    else:
        chk.fail("GUARD", f.p + "/balance/expr", "the compared value is %s" % o[0][:100], t.span.loc())
    # find the switch on the Ordering
    sw = None
    cur = t.target
    hops = 0
    while cur is not None and hops < 6:
        blk = body.blocks[cur]
        if blk.term.kind == "switch":
            sw = (cur, blk.term)
            break
        cur = blk.term.target if blk.term.kind in ("goto", "call", "drop") else None
        hops += 1
    if sw is None:
        chk.fail("GUARD", f.p + "/balance/switch", "result of the balance comparison is not branched on",
                 t.span.loc())
        return
    sb, st = sw
    arms = dict(st.arms)
    want = {-1: "InsufficientFunds", 1: "ChangeRequired"}
    for v, variant in want.items():
        tgt = arms.get(v, st.otherwise)
        res = S.explore(body, tgt, {}, avoid=(sb,))
        rets = {rv for _b, rv in res.returns}
        aggs = {a.rv.agg[2] for _b, a in res.aggs if a.rv.agg[1].endswith("builder::Error")}
        later = [c for _b, c in res.calls if c.callee.indirect is None and
                 BUILD_STEP.search(c.callee.target_p())]
        if rets <= {"variant:Err"} and variant in aggs and not later and \
                not (set(want.values()) - {variant}) & aggs:
            chk.ok("GUARD", "%s: balance %s zero => Err(%s), nothing is built"
                   % (short, "below" if v < 0 else "above", variant), sample=True)
        else:
            chk.fail("GUARD", "%s/balance/%s" % (f.p, variant), "when the balance after fees is %s zero "
                     "the builder returns %s with errors %s (expected only Err(%s)) and reaches %d build "
                     "steps" % ("below" if v < 0 else "above", sorted(rets), sorted(aggs), variant,
                                len(later)), st.span.loc() if st.span else None)
    # every build step in the body is dominated by the guard's Equal continuation
    eq_t = arms.get(0, st.otherwise)
    for b2, c in steps:
        if b2 is None:
            continue
        if not body.dominates(sb, b2) and not _fee_optional(body, sb, b2):
            chk.fail("GUARD", "%s/step-before-guard/%s" % (f.p, c.callee.target_p().rsplit("::", 1)[-1]),
                     "a bundle is built on a path that does not pass the balance guard", c.span.loc())


def deferred_sum(chk, w):
    fs = [f for f in w.fns.values()
          if f.p == "zcash_primitives::transaction::builder::DeferredPcztBuilder::<P>::build_for_pczt"]
    if not fs:
        return
    f = fs[0]
    du = defuse.DefUse(f.body)
    for blk in f.body.blocks:
        for s in blk.stmts:
            if s.kind == "=" and s.rv.kind == "agg" and s.rv.agg == ("array",) and len(s.rv.ops) >= 2:
                txts = [defuse.show(du.origin(o)) for o in s.rv.ops]
                if any("value_balance" in x for x in txts):
                    for fld in ("orchard_builder", "ironwood_builder"):
                        if any("." + fld in x for x in txts):
                            chk.ok("SUM", "DeferredPcztBuilder balance includes %s" % fld)
                        else:
                            chk.fail("SUM", "deferred/" + fld, "DeferredPcztBuilder's balance omits the "
                                     "%s" % fld, s.span.loc())


def _fee_optional(body, sb, b2):
    """the guard is skipped only when no fee is given (coinbase): its `if let Some(fee)` test
    dominates both"""
    return any(body.dominates(x, sb) and body.dominates(x, b2) and
               body.blocks[x].term.kind == "switch" for x in range(len(body.blocks)))


def value_balance(chk, w):
    fs = [f for f in w.fns.values()
          if f.p == "zcash_primitives::transaction::builder::Builder::<P, U>::value_balance"]
    if len(fs) != 1:
        chk.fail("SUM", "value_balance/missing", "Builder::value_balance not found")
        return
    f = fs[0]
    du = defuse.DefUse(f.body)
    arr = None
    for blk in f.body.blocks:
        for s in blk.stmts:
            if s.kind == "=" and s.rv.kind == "agg" and s.rv.agg == ("array",):
                arr = s
    if arr is None:
        chk.fail("SUM", "value_balance/array", "value_balance no longer sums an array of balances",
                 f.span.loc())
        return
    def through_joins(o, depth=0):
        """text of an origin plus, for every multi-definition local in it (a `match` / `if` join), the origins
        of all its definitions"""
        txt = defuse.show(o)
        if depth > 4:
            return txt
        for n_ in {int(x) for x in re.findall(r"\b_(\d+)\b", txt)}:
            for kind, _bi, x in du.defs.get(n_, []):
                if kind == "stmt" and x.rv.kind == "use":
                    txt += " | " + through_joins(du.origin(x.rv.ops[0]), depth + 1)
                elif kind == "call":
                    nm = x.callee.target_p() if x.callee.indirect is None else "?"
                    txt += " | " + through_joins(("call", nm, [du.origin(a) for a in x.args]), depth + 1)
        return txt
    txts = [through_joins(du.origin(o)) for o in arr.rv.ops]
    for fld in ("transparent_builder", "sapling_builder", "orchard_builder", "ironwood_builder"):
        hit = [x for x in txts if "." + fld in x]
        if hit:
            chk.ok("SUM", "value_balance includes %s's balance" % fld, sample=True)
        else:
            chk.fail("SUM", "value_balance/" + fld, "the %s's value balance is not part of the sum: "
                     "the builder would accept an unbalanced transaction" % fld, f.span.loc())
    # summed with the checked Sum and overflow is an error
    calls = [t.callee.target_p() for _b, t in f.body.calls() if t.callee.indirect is None]
    if any(c.endswith("::sum") for c in calls) and any("ok_or" in c for c in calls):
        chk.ok("SUM", "balances are added with the checked Sum; overflow is an error")
    else:
        chk.fail("SUM", "value_balance/sum", "balances are not added with the checked Sum", f.span.loc())


ADDER_LIST = {"add_spend": "spends", "add_spend_unwitnessed": "spends", "add_output": "outputs",
              "add_change_output": "changes"}
OB = r"^orchard::builder::Builder::"


def content_lists(chk, w, scope):
    """cross-check of the sibling inspections of an orchard::builder::Builder (bundle-in-use
    predicates, action counting): each must look at every content list some adder of this module
    fills - a change-only bundle is still a bundle"""
    ref = set()
    users = {}
    for f in w.fns.values():
        root = w.fns.get(f.root) if f.is_closure() else f
        if root is None or not scope(root):
            continue
        for bb, t in f.body.calls():
            if f.body.blocks[bb].cleanup or t.callee.indirect is not None:
                continue
            m = re.match(OB + r"(\w+)$", t.callee.target_p())
            if not m:
                continue
            if m.group(1) in ADDER_LIST:
                ref.add(ADDER_LIST[m.group(1)])
            elif m.group(1) in ADDER_LIST.values():
                users.setdefault(f.p, (f, set()))[1].add(m.group(1))
    if not ref:
        chk.fail("USE", "adders/missing", "no orchard::builder::Builder adder is called by the builder")
        return
    for p, (f, got) in sorted(users.items()):
        # a pure projection of one list (e.g. an accessor returning the outputs) is not an inspection
        if len(got) == 1 and f.body.local_ty(0).startswith("&"):
            continue
        if got >= ref:
            chk.ok("USE", "%s consults %s" % (p.split("builder::", 1)[-1], sorted(got)), sample=True)
        else:
            chk.fail("USE", p, "%s inspects the bundle builder's %s but not its %s: a bundle that "
                     "consists only of the latter is treated as absent" % (p.split("builder::", 1)[-1],
                     sorted(got), sorted(ref - got)), f.span.loc())


def sign(chk, w):
    fs = [f for f in w.fns.values() if f.p.endswith("::apply_signatures") and
          "zcash_transparent::builder" in f.p and "::tests::" not in f.p]
    if len(fs) != 1:
        chk.fail("SIGN", "apply_signatures/missing", "apply_signatures not found (%d)" % len(fs))
        return
    f = fs[0]
    clos = [w.fns[c] for c in w.callees(f.id) if c in w.fns and w.fns[c].is_closure()
            and w.fns[c].root == f.id]
    naggs = 0
    for c in clos:
        du = defuse.DefUse(c.body)
        sites = []          # (bb, span, {field: origin in terms of the closure's arguments})
        for bi, blk in enumerate(c.body.blocks):
            if blk.cleanup:
                continue
            for s in blk.stmts:
                if s.kind == "=" and s.rv.kind == "agg" and s.rv.agg[0] == "adt" and \
                        s.rv.agg[1].endswith("sighash::SignableInput"):
                    sites.append((bi, s.span, {k: du.origin(v) for k, v in zip(s.rv.agg[3], s.rv.ops)}))
            t = blk.term
            # a helper that builds the SignableInput: its fields in terms of the call's arguments
            if t.kind == "call" and t.callee.indirect is None and t.callee.target_id() in w.fns:
                g = w.fns[t.callee.target_id()]
                if "SignableInput" not in g.body.local_ty(0):
                    continue
                gdu = defuse.DefUse(g.body)
                actual = [du.origin(a) for a in t.args]
                for gblk in g.body.blocks:
                    for s in gblk.stmts:
                        if s.kind == "=" and s.rv.kind == "agg" and s.rv.agg[0] == "adt" and \
                                s.rv.agg[1].endswith("sighash::SignableInput"):
                            sites.append((bi, t.span, {k: _subst(gdu.origin(v), actual)
                                                       for k, v in zip(s.rv.agg[3], s.rv.ops)}))
        # which spend kind is each site decided for?
        kinds = {}
        for bi, blk in enumerate(c.body.blocks):
            t = blk.term
            if blk.cleanup or t.kind != "switch":
                continue
            o = du.origin(t.discr)
            if o[0] == "disc" and o[1][0] == "field" and o[1][2] == ".spend_info":
                names = [v["name"] for v in (w.adts.get("zcash_transparent::builder::SpendInfo") or
                                             {"variants": []})["variants"]]
                reach = {v: c.body.reachable(tb) | {tb} for v, tb in t.arms}
                for v, r in reach.items():
                    others = set().union(*[x for u, x in reach.items() if u != v]) if len(reach) > 1 else set()
                    for b2 in r - others:
                        if isinstance(v, int) and v < len(names):
                            kinds[b2] = names[v]
        for bi, span, o in sites:
            naggs += 1
            t = {k: defuse.show(v) for k, v in o.items()}
            base_index = _base(o.get("index"))
            base_value = _base(o.get("value"))
            base_spk = _base(o.get("script_pubkey"))
            ok = (base_index is not None and base_index == base_value == base_spk and
                  ".0" in t["index"] and ".1" in t["value"] and "coin" in t["value"] and
                  "coin" in t["script_pubkey"] and "value(" in t["value"] and
                  "script_pubkey(" in t["script_pubkey"])
            if ok:
                chk.ok("SIGN", "SignableInput at %s: index, value and script_pubkey come from "
                       "the same enumeration element" % span.loc(), sample=True)
            else:
                chk.fail("SIGN", "%s/SignableInput#%d" % (c.p, naggs), "the sighash input is "
                         "built from index=%s value=%s script_pubkey=%s: not the same input"
                         % (t.get("index"), t.get("value"), t.get("script_pubkey")), span.loc())
            # the script the signature commits to is the one that is executed
            kind = kinds.get(bi)
            code = t.get("script_code", "")
            if kind == "P2sh":
                good = re.search(r"as P2sh\)\.redeem_script", code) is not None and \
                    _base(o.get("script_code")) == base_spk
                want = "the redeem script of the same input"
            elif kind == "P2pkh":
                good = code == t.get("script_pubkey")
                want = "the coin's script_pubkey"
            else:
                good, want = False, "decided under a test of the input's spend kind"
            if good:
                chk.ok("SIGN", "SignableInput at %s (%s input): script_code is %s" % (span.loc(), kind, want),
                       sample=True)
            else:
                chk.fail("SIGN", "%s/script_code/%s#%d" % (c.p, kind, naggs), "for a %s input the "
                         "signature commits to script_code = %s, expected %s: the signature does not "
                         "verify under the script that is executed" % (kind, code[:90], want), span.loc())
    if naggs < 2:
        chk.fail("SIGN", "aggregates", "only %d SignableInput constructions found in apply_signatures"
                 % naggs, f.span.loc())
    # signatures go back onto the inputs in order: zip(self.vin, script_sigs), no reordering
    du = defuse.DefUse(f.body)
    z = [(bb, t) for bb, t in f.body.calls() if t.callee.indirect is None and
         re.search(r"::zip$", t.callee.target_p())]
    reorder = [t.callee.target_p() for _b, t in f.body.calls() if t.callee.indirect is None and
               re.search(r"::(rev|sort\w*|reverse|rotate_\w+|swap)$", t.callee.target_p())]
    okz = any(".vin" in defuse.show(du.origin(t.args[0])) for _b, t in z)
    if okz and not reorder:
        chk.ok("SIGN", "script signatures are zipped onto self.vin in enumeration order", sample=True)
    else:
        chk.fail("SIGN", "zip-order", "signatures are not zipped onto the inputs in order (zip on vin: "
                 "%s, reordering calls: %s)" % (okz, reorder), f.span.loc())
    chk.ok("control", "%d SignableInput constructions examined" % naggs) if naggs else None


def _subst(o, actual):
    """replace ('arg', i) in a helper's origin tree by the call site's i-th argument origin"""
    if not isinstance(o, tuple):
        return o
    if o[0] == "arg" and o[1] < len(actual):
        return actual[o[1]]
    out = []
    for x in o:
        if isinstance(x, tuple):
            out.append(_subst(x, actual))
        elif isinstance(x, list):
            out.append([_subst(y, actual) for y in x])
        else:
            out.append(x)
    return tuple(out)


def _base(o):
    """the closure argument an origin is rooted in (through fields/derefs/getter calls)"""
    seen = 0
    while o and seen < 30:
        seen += 1
        if o[0] in ("field", "ref", "deref", "variant", "proj"):
            o = o[1]
        elif o[0] == "cast":
            o = o[2]
        elif o[0] == "call" and o[2]:
            o = o[2][0]
        else:
            break
    return o if o and o[0] == "arg" else None
