"""C02 — wallet database writes are all-or-nothing (zcash_client_sqlite).

Structural atomicity discipline decided on the MIR of the whole crate (engine E1):
  TX-1  every public write operation commits at most ONE unit on any path: all its SQL writes
        lie in one transaction scope (a local `transaction()`..`commit()` region, a closure run
        by a scope combinator, or a function that holds a `&Transaction`/`SqlTransaction`
        witness), or it is a single autocommitted statement
  TX-2  in every function that opens a transaction, `commit` is not reachable once a writing
        (or closure-running) call has returned an error; no path commits twice; no path
        returns Ok without commit after writing inside the scope
  TX-3  no writing call's error is swallowed: under the assumption that the call returned Err,
        no `return` that may carry Ok (and no commit) is reachable
  TX-4  the three snapshot reads the property names execute every statement inside one
        transaction they open
  TX-5  pool-migration store: an operation that writes executes its guard reads in the same scope
"""
import re
from collections import defaultdict

import extract
import sqlfx
import zf
from common import Check

CRATE = sqlfx.CRATE
INVOKE = ("core::ops::FnOnce::call_once", "core::ops::FnMut::call_mut", "core::ops::Fn::call")

# modules analysed for information only (not wallet write operations of the property)
INFO_ONLY = re.compile(r"^zcash_client_sqlite::(chain|wallet::init|zewif)\b|"
                       r"^<zcash_client_sqlite::(chain|wallet::init)::")

SNAPSHOT_READS = [
    (r"<zcash_client_sqlite::WalletDb<C, P, CL, R> as zcash_client_backend::data_api::WalletRead>::get_wallet_summary$",
     "WalletRead::get_wallet_summary"),
    (r"^zcash_client_sqlite::pool_migration::store::check_step_satisfiability$",
     "PoolMigrationRead::check_step_satisfiability"),
    (r"^zcash_client_sqlite::pool_migration::store::mined_height$",
     "PoolMigrationRead::mined_height"),
]


# std combinators that run their closure at most once
ONCE_COMBINATOR = re.compile(r"^core::(option::Option|result::Result)::<[^>]*>::\w+$|"
                             r"^core::bool::<impl bool>::then|^core::ops::FnOnce::call_once$")


class Tx:
    def __init__(self, chk, w, fx):
        self.chk, self.w, self.fx = chk, w, fx
        self.mw = fx.maywrite()
        self.ms = fx.maystmt()
        self.open_cache = {}
        self.units = {}      # (fid, mode) -> 0/1/2 ; mode 'w' counts write units, 's' statements
        self.why = {}
        self.inv_open = {}   # fid -> True if f invokes a closure parameter while its tx is open
        self.scope_counted = {}   # fid -> its own scope already counts as a write unit
        self.force_no_witness = set()

    def open_state(self, f):
        if f.id not in self.open_cache:
            self.open_cache[f.id] = self.fx.open_state(f)
        return self.open_cache[f.id]

    def invokes_param(self, f):
        """(invokes_inside, invokes_outside) for closure-parameter invocations of f"""
        st = self.open_state(f)
        ins = outs = False
        for bb, t in f.body.calls():
            ce = t.callee
            if ce.indirect is None and ce.p in INVOKE and ce.unres:
                if st.get(bb):
                    ins = True
                else:
                    outs = True
        return ins, outs

    # ------------------------------------------------------------------ commit units
    def compute_units(self, mode):
        """least fixpoint of UNITS over the call graph; mode 'w': units that contain a write;
        mode 's': statements (reads and writes) outside any scope, a scope counting 0"""
        w, fx = self.w, self.fx
        fns = list(w.fns.values())
        val = {f.id: 0 for f in fns}
        changed = True
        rounds = 0
        active = self.mw if mode == "w" else self.ms
        while changed and rounds < 50:
            changed = False
            rounds += 1
            for f in fns:
                if f.id not in active:
                    continue
                v, why = self.units_of(f, val, mode)
                if v > val[f.id]:
                    val[f.id] = v
                    self.why[(f.id, mode)] = why
                    changed = True
        for k, v in val.items():
            self.units[(k, mode)] = v
        return val

    def units_of(self, f, val, mode):
        fx, w = self.fx, self.w
        if fx.has_witness(f) and f.id not in self.force_no_witness:
            return 0, []
        st = self.open_state(f)
        sites = {id(t): (bb, k, s) for bb, k, t, s in fx.sites.get(f.id, ())}
        weight = {}
        why = defaultdict(list)
        scope_has = False
        for bb, t in f.body.calls():
            is_open = st.get(bb, False)
            if id(t) in sites:
                _bb, k, _s = sites[id(t)]
                if is_open:
                    if k == "W" or (mode == "s" and k == "R"):
                        scope_has = True
                    continue
                if k == "W" or (mode == "s" and k == "R"):
                    weight[bb] = weight.get(bb, 0) + 1
                    why[bb].append("SQL %s statement on a bare connection at %s"
                                   % ("write" if k == "W" else "read", t.span.loc()))
                continue
            tg = w.call_targets(t, include_closures=False)
            clos = [c for c in (t.callee.closures or ()) if c in w.fns] \
                if t.callee.indirect is None else []
            if is_open:
                if fx.site_maywrite(f, bb, t) or (mode == "s" and any(
                        g in self.ms for g in w.call_targets(t))):
                    scope_has = True
                continue
            add = 0
            for g in tg:
                if val.get(g, 0) > add:
                    add = val[g]
            if add:
                why[bb].append("call %s (%d unit%s) at %s" % (t.callee.target_p(), add,
                                                              "" if add == 1 else "s", t.span.loc()))
            # closures handed to the callee
            if clos:
                ins = outs = False
                for g in tg:
                    i_, o_ = self.invokes_param(w.fns[g])
                    ins, outs = ins or i_, outs or o_
                if not tg:
                    outs = True     # external / unknown combinator: runs the closure unscoped
                active = self.mw if mode == "w" else self.ms
                if ins and mode == "w" and any(c in active for c in clos):
                    # the closure's writes join the combinator's own scope: one unit in all
                    if not any(self.scope_counted.get(g) for g in tg):
                        add = min(2, add + 1)
                        why[bb].append("transaction scope %s running a writing closure at %s"
                                       % (t.callee.target_p(), t.span.loc()))
                if outs:
                    ca = max([val.get(c, 0) for c in clos] + [0])
                    if ca:
                        # an external combinator may run the closure repeatedly (iterator
                        # adaptors, for_each, try_for_each, fold ...): every run is a commit unit
                        once = bool(tg) or ONCE_COMBINATOR.search(t.callee.target_p())
                        add = min(2, add + (ca if once else 2))
                        why[bb].append("closure with %d commit unit(s) run %s by %s at %s"
                                       % (ca, "once, outside a scope," if once else
                                          "possibly repeatedly (one commit per run)",
                                          t.callee.target_p(), t.span.loc()))
            if fx.ext_maywrite(t, f.body) and not tg:
                add = min(2, add + 2)
                why[bb].append("external call that can write through the shard store, outside a "
                               "scope, at %s" % t.span.loc())
            if add:
                weight[bb] = weight.get(bb, 0) + add
        # local scopes: one unit per OPEN site whose scope contains a write
        if mode == "w":
            self.scope_counted[f.id] = scope_has
        if mode == "w" and scope_has:
            for bb, k, t, _s in fx.sites.get(f.id, ()):
                if k == "OPEN":
                    weight[bb] = weight.get(bb, 0) + 1
                    why[bb].append("local transaction scope opened at %s" % t.span.loc())
        if not weight:
            return 0, []
        v = sqlfx.max_path_weight(f.body, weight)
        flat = [x for bb in sorted(why) for x in why[bb]]
        return v, flat

    def explain(self, fid, mode, depth=0, seen=None):
        seen = seen or set()
        if fid in seen or depth > 6:
            return []
        seen.add(fid)
        out = []
        for line in self.why.get((fid, mode), [])[:6]:
            out.append("  " * depth + line)
        return out


# ---------------------------------------------------------------------- ERR-PROP (TX-2a / TX-3)
RES_KEEP = re.compile(r"core::result::Result::<T, E>::(map_err|map|and_then|inspect_err|inspect)$|"
                      r"as rusqlite::OptionalExtension<T>>::optional$")
IS_OK = "core::result::Result::<T, E>::is_ok"
IS_ERR = "core::result::Result::<T, E>::is_err"


def err_region(f, bb_call, t_call, fx, w):
    """Explore f's CFG from the return edge of call t_call under the assumption that the call
    returned Err. Returns list of problems: ('commit', term) / ('ret-ok', bb, how)."""
    body = f.body
    dest = t_call.dest
    if dest is None or dest.proj or t_call.target is None:
        return []
    problems = []
    start = (t_call.target, frozenset({(dest.local, "res")}),
             "err" if dest.local == 0 else "unset")
    seen = set()
    work = [start]
    sitekind = {id(t): k for _bb, k, t, _s in fx.sites.get(f.id, ())}
    while work:
        bb, carriers, rv = work.pop()
        key = (bb, carriers, rv)
        if key in seen:
            continue
        seen.add(key)
        if len(seen) > 4000:
            problems.append(("undecided", bb, "exploration too large"))
            break
        car = dict(carriers)
        blk = body.blocks[bb]
        for s in blk.stmts:
            if s.kind != "=":
                continue
            dst = s.place
            rvv = s.rv
            src_kind = None
            if rvv.kind == "use" and rvv.ops[0].kind in ("copy", "move"):
                sp = rvv.ops[0].place
                if not sp.proj and sp.local in car:
                    src_kind = car[sp.local]
                    if rvv.ops[0].kind == "move":
                        del car[sp.local]
                elif sp.local in car and car[sp.local] in ("cf", "res") and \
                        any(p.startswith("as ") for p in sp.proj):
                    # payload of the Break/Err variant: the residual (an error value)
                    vn = [p for p in sp.proj if p.startswith("as ")][0][3:]
                    if vn in ("Break", "Err"):
                        src_kind = "resid"
            elif rvv.kind == "disc" and not rvv.place.proj and rvv.place.local in car:
                k = car[rvv.place.local]
                if k in ("res", "cf"):
                    src_kind = "disc"
            elif rvv.kind == "ref" and not rvv.place.proj and rvv.place.local in car:
                if car[rvv.place.local] == "res":
                    src_kind = "ref"
            elif rvv.kind == "agg" and rvv.agg[0] == "adt" and rvv.agg[1] == "core::result::Result":
                if not dst.proj and dst.local == 0:
                    rv = "err" if rvv.agg[2] == "Err" else "ok"
                elif not dst.proj:
                    car[dst.local] = "lit-" + rvv.agg[2]
                continue
            if not dst.proj:
                if src_kind:
                    car[dst.local] = src_kind
                    if dst.local == 0:
                        rv = "err" if src_kind in ("res", "resid") else \
                            ("ok" if src_kind == "lit-Ok" else ("err" if src_kind == "lit-Err" else "unk"))
                else:
                    if dst.local in car:
                        del car[dst.local]
                    if dst.local == 0:
                        rv = "unk"
            elif dst.local == 0:
                rv = "unk"
        t = blk.term
        nxt = []
        if t.kind == "return":
            if rv in ("ok", "unk", "unset"):
                problems.append(("ret-ok", bb, rv))
            continue
        if t.kind == "switch":
            d = t.discr
            k = None
            if d.kind in ("copy", "move") and not d.place.proj:
                k = car.get(d.place.local)
            if k == "disc":
                arms = [tgt for v, tgt in t.arms if v == 1]
                if not arms and all(v != 1 for v, _ in t.arms):
                    arms = [t.otherwise]
                nxt = arms
            elif k == "bool_ok":     # false = error
                nxt = [tgt for v, tgt in t.arms if v == 0] or [t.otherwise]
            elif k == "bool_err":    # true = error
                a0 = [tgt for v, tgt in t.arms if v == 0]
                nxt = [t.otherwise] if a0 else [tgt for v, tgt in t.arms if v == 1]
            else:
                nxt = t.succs()
            for s_ in nxt:
                work.append((s_, frozenset(car.items()), rv))
            continue
        if t.kind in ("call", "tailcall"):
            ce = t.callee
            kind = sitekind.get(id(t))
            if kind == "COMMIT":
                problems.append(("commit", bb, t.span.loc()))
            name = ce.target_p() if ce.indirect is None else ""
            argl = [a.place.local for a in t.args if a.kind in ("copy", "move") and not a.place.proj]
            newk = None
            if name.endswith("as core::ops::Try>::branch") and argl and car.get(argl[0]) == "res":
                newk = "cf"
            elif RES_KEEP.search(name) and argl and car.get(argl[0]) == "res":
                newk = "res"
            elif name == IS_OK and argl and car.get(argl[0]) == "ref":
                newk = "bool_ok"
            elif name == IS_ERR and argl and car.get(argl[0]) == "ref":
                newk = "bool_err"
            elif "core::ops::FromResidual" in name and name.endswith("::from_residual"):
                newk = "res" if (argl and car.get(argl[0]) in ("resid", "res", "cf")) else "res"
            elif "core::convert::From" in name and argl and car.get(argl[0]) == "resid":
                newk = "resid"
            elif name.endswith("::into") and argl and car.get(argl[0]) == "resid":
                newk = "resid"
            for a in t.args:
                if a.kind == "move" and not a.place.proj and a.place.local in car:
                    del car[a.place.local]
            if t.kind == "tailcall":
                continue
            if t.dest is not None and not t.dest.proj:
                if newk:
                    car[t.dest.local] = newk
                else:
                    car.pop(t.dest.local, None)
                if t.dest.local == 0:
                    rv = "err" if newk == "res" else "unk"
            elif t.dest is not None and t.dest.local == 0:
                rv = "unk"
            if t.target is not None:
                work.append((t.target, frozenset(car.items()), rv))
            continue
        for s_ in t.succs():
            work.append((s_, frozenset(car.items()), rv))
    return problems


def main(tier):
    chk = Check("C02", "proof", tier)
    chk.explanation = (
        "Structural proof of the crate's own atomicity discipline (AGENTS.md 'Database Write "
        "Atomicity') over the MIR of every function of zcash_client_sqlite: transaction scopes "
        "are found by a must-be-open dataflow, write effects by a call-graph fixpoint (resolved "
        "calls, closure edges, CHA for calls through type parameters), error discipline by "
        "assume-Err reachability. Decided: TX-1..TX-5 for every public write operation. Not "
        "decided: that a retried operation yields the same state (behavioural idempotence), "
        "and reader interleavings other than the named snapshot reads. SQLite's own transaction "
        "semantics are trusted.")
    chk.trusted = ["rustc MIR + trait resolution", "SQLite transaction semantics (rusqlite "
                   "Transaction rolls back on drop)", "SQL literal lexer: unknown SQL passed to "
                   "execute() counts as a write", "external crates do not execute SQL except "
                   "shardtree through the ShardStore impls (treated as writing)"]
    chk.rule("TX-1", "each public write operation commits at most one unit on any path", floor=60)
    chk.rule("TX-2", "commit only on success, once, and never skipped after writes", floor=20)
    chk.rule("TX-3", "no writing call's error is swallowed", floor=300)
    chk.rule("TX-4", "snapshot reads run entirely inside one transaction", floor=3)
    chk.rule("TX-5", "store operations read their guards in the scope that writes", floor=3)
    chk.rule("control", "positive controls", floor=3)

    w = zf.World(extract.facts_dir("all"))
    fx = sqlfx.SqlFx(w, extract.REPO)
    tx = Tx(chk, w, fx)
    units_w = tx.compute_units("w")
    units_s = tx.compute_units("s")
    mw = tx.mw
    crate_fns = fx.crate_fns
    chk.analysed.update({
        "crate_functions": len(crate_fns),
        "sql_sites": sum(len(v) for v in fx.sites.values()),
        "functions_that_may_write": len([f for f in crate_fns if f.id in mw]),
        "workspace_bodies_in_call_graph": len(w.fns),
    })

    # ------------------------------------------------------------------ TX-1
    def is_entry(f):
        if f.is_closure() or f.kind not in ("Fn", "AssocFn"):
            return False
        if not f.exported and not (f.trait and f.trait.startswith(("zcash_client_backend::",
                                                                    "zcash_pool_migration::",
                                                                    "shardtree::"))):
            return False
        return not fx.has_witness(f)

    entries = [f for f in crate_fns if is_entry(f) and f.id in mw]
    entries.sort(key=lambda f: f.p)
    seen_keys = defaultdict(int)
    for f in entries:
        u = units_w[f.id]
        key = f.p
        seen_keys[key] += 1
        if seen_keys[key] > 1:
            key += "#%d" % seen_keys[key]
        info = bool(INFO_ONLY.search(f.p))
        if u <= 1:
            if not info:
                chk.ok("TX-1", "%s: %d commit unit" % (f.p, u))
        else:
            msg = ("operation may commit more than one unit (>=2 separate commits on one path): "
                   + "; ".join(tx.why.get((f.id, "w"), [])[:5]))
            if info:
                chk.note("info-only (outside the property's scope): %s %s" % (f.p, msg))
            else:
                chk.fail("TX-1", key, msg, f.span.loc())
    chk.analysed["entry_points_checked"] = len(entries)

    # ------------------------------------------------------------------ TX-2 / TX-3
    openers = [f for f in crate_fns if any(k == "OPEN" for _b, k, _t, _s in fx.sites.get(f.id, ()))]
    nerr = 0
    # the generic low-level wallet code of zcash_client_backend runs inside the same transaction
    ll_fns = [f for f in w.fns.values()
              if f.p.startswith("zcash_client_backend::data_api::ll::") and not sqlfx.is_test_fn(f)]
    chk.analysed["backend_ll_functions"] = len(ll_fns)
    for f in sorted(crate_fns + ll_fns, key=lambda f: f.p):
        if INFO_ONLY.search(f.p):
            continue
        is_opener = f in openers
        ordn = defaultdict(int)
        for bb, t in f.body.calls():
            if t.callee.indirect is not None:
                continue
            if t.dest is None or t.dest.proj:
                continue
            dty = f.body.local_ty(t.dest.local)
            if not dty.startswith("core::result::Result<"):
                continue
            name = t.callee.target_p()
            writes = fx.site_maywrite(f, bb, t)
            runs_closure = (t.callee.p in INVOKE and t.callee.unres)
            if not (writes or (runs_closure and (is_opener or fx.has_witness(f)))):
                continue
            if f.crate.name != CRATE and not t.span.user_written():
                continue
            sk = [k for _b, k, t2, _s in fx.sites.get(f.id, ()) if t2 is t]
            if sk and sk[0] in ("COMMIT", "OPEN", "ROLLBACK", "P"):
                continue
            k0 = "%s/%s" % (f.p, name)
            ordn[k0] += 1
            key = "%s#%d" % (k0, ordn[k0])
            probs = err_region(f, bb, t, fx, w)
            nerr += 1
            if not probs:
                chk.ok("TX-3" if not is_opener else "TX-2",
                       "%s: error of %s propagates (no Ok return / commit reachable under "
                       "assume-Err) [%s]" % (f.p, name, t.span.loc()))
            else:
                kinds = sorted({p[0] for p in probs})
                if "commit" in kinds:
                    chk.fail("TX-2", key, "commit is reachable after %s returned an error: its "
                             "partial writes would be committed" % name, t.span.loc())
                elif "undecided" in kinds:
                    chk.fail("TX-3", key, "undecided: " + str(probs[0]), t.span.loc())
                else:
                    chk.fail("TX-3", key, "the error of writing call %s can be swallowed: a return "
                             "that may carry Ok is reachable when it fails, so the enclosing "
                             "transaction would commit its partial writes" % name, t.span.loc())
    # TX-2 b/c: per opener, commit count and skipped commit
    for f in sorted(openers, key=lambda f: f.p):
        if INFO_ONLY.search(f.p):
            continue
        body = f.body
        st = tx.open_state(f)
        kinds = {bb: k for bb, k, _t, _s in fx.sites.get(f.id, ())}
        commits = [bb for bb, k in kinds.items() if k == "COMMIT"]
        # (b) no commit reachable from a commit
        dbl = False
        for c in commits:
            reach = set()
            q = list(body.succs(c))
            while q:
                x = q.pop()
                if x in reach:
                    continue
                reach.add(x)
                q.extend(body.succs(x))
            if any(c2 in reach for c2 in commits):
                dbl = True
        if dbl:
            chk.fail("TX-2", f.p + "/double-commit", "a path executes two commits", f.span.loc())
        else:
            chk.ok("TX-2", "%s: no path commits twice" % f.p)
        # (c) after a write inside the scope, a return that may be Ok must pass a commit
        wrote_sites = [bb for bb, t in body.calls() if st.get(bb) and
                       (fx.site_maywrite(f, bb, t) or (t.callee.indirect is None and
                                                       t.callee.p in INVOKE and t.callee.unres))]
        bad = None
        for ws in wrote_sites:
            t = body.blocks[ws].term
            if t.target is None:
                continue
            # success continuation: explore without passing commit/rollback; reaching a return
            # whose value may be Ok is a lost write.  Error arms are pruned via from_residual.
            seen = set()
            q = [(t.target, "unset")]
            while q:
                b, rv = q.pop()
                if (b, rv) in seen:
                    continue
                seen.add((b, rv))
                blk = body.blocks[b]
                for s in blk.stmts:
                    if s.kind == "=" and not s.place.proj and s.place.local == 0:
                        if s.rv.kind == "agg" and s.rv.agg[0] == "adt" and \
                                s.rv.agg[1] == "core::result::Result":
                            rv = "err" if s.rv.agg[2] == "Err" else "ok"
                        else:
                            rv = "unk"
                tt = blk.term
                if kinds.get(b) in ("COMMIT", "ROLLBACK"):
                    continue
                if tt.kind == "return":
                    if rv in ("ok",):
                        bad = (ws, b)
                    continue
                if tt.kind == "call" and tt.dest is not None and tt.dest.local == 0 and not tt.dest.proj:
                    nm = tt.callee.target_p() if tt.callee.indirect is None else ""
                    rv = "err" if nm.endswith("::from_residual") else "unk"
                for s_ in tt.succs():
                    q.append((s_, rv))
        if wrote_sites:
            if bad:
                chk.fail("TX-2", f.p + "/skipped-commit", "a path returns Ok after writing inside the "
                         "transaction without committing (the writes are silently rolled back)",
                         f.span.loc())
            else:
                chk.ok("TX-2", "%s: every Ok return after a write passes the commit" % f.p)
    chk.analysed["writing_call_sites_checked_for_error_propagation"] = nerr

    # ------------------------------------------------------------------ TX-4
    for rx, label in SNAPSHOT_READS:
        fs = [f for f in crate_fns if re.search(rx, f.p)]
        if len(fs) != 1:
            chk.fail("TX-4", label + "/missing", "snapshot read %s not found (%d matches)"
                     % (label, len(fs)))
            continue
        f = fs[0]
        opens = [1 for _b, k, _t, _s in fx.sites.get(f.id, ()) if k == "OPEN"]
        if units_s[f.id] == 0 and len(opens) == 1 and f.id in tx.ms:
            chk.ok("TX-4", "%s: every statement it reaches runs inside the single transaction it "
                   "opens" % label, sample=True)
        else:
            chk.fail("TX-4", label, "snapshot read executes %s statement(s) outside a transaction "
                     "(opens %d): a concurrent writer's commit can be observed half-way. %s"
                     % (units_s[f.id], len(opens), "; ".join(tx.why.get((f.id, "s"), [])[:4])),
                     f.span.loc())

    # ------------------------------------------------------------------ TX-5
    store_entries = [f for f in crate_fns
                     if f.p.startswith("zcash_client_sqlite::pool_migration::store::Store::<C>::")
                     and not f.is_closure() and f.id in mw and not fx.has_witness(f)]
    for f in sorted(store_entries, key=lambda f: f.p):
        has_scope = tx.scope_counted.get(f.id) or any(
            tx.scope_counted.get(g) for g in w.callees(f.id))
        if has_scope:
            if units_s[f.id] == 0:
                chk.ok("TX-5", "%s: guard reads and writes share one transaction scope" % f.p,
                       sample=True)
            else:
                chk.fail("TX-5", f.p, "store operation executes a statement outside the "
                         "transaction that performs its writes (a guard read outside the "
                         "rollback / check-then-act): %s"
                         % "; ".join(tx.why.get((f.id, "s"), [])[:4]), f.span.loc())
        elif units_w[f.id] <= 1:
            chk.ok("TX-5", "%s: a single autocommitted write statement (atomic by SQLite); its "
                   "preceding read only resolves the row key that the statement's WHERE re-checks"
                   % f.p, sample=True)
            chk.exception("TX-5", f.p, "single-statement write: no multi-write state to guard, so "
                          "the one-shot-guard requirement of AGENTS.md does not apply")
        else:
            chk.fail("TX-5", f.p, "several writes outside any transaction", f.span.loc())

    controls(chk, w, fx, tx)
    chk.finish()


def _reads_outside(f, fx, tx, w):
    """does f execute a read outside a scope in addition to its write unit?"""
    st = tx.open_state(f)
    for bb, t in f.body.calls():
        if st.get(bb):
            continue
        for b2, k, t2, _s in fx.sites.get(f.id, ()):
            if t2 is t and k == "R":
                return True
        for g in w.call_targets(t):
            if g in tx.ms and g not in tx.mw and not fx.has_witness(w.fns[g]):
                return True
    return False


def controls(chk, w, fx, tx):
    """the rules must fire on miniatures derived in memory from real functions"""
    import copy
    # control 1: transactionally with the commit moved onto the error arm
    f = w.fn("zcash_client_sqlite::WalletDb::<C, P, CL, R>::transactionally")
    inv = [(bb, t) for bb, t in f.body.calls()
           if t.callee.indirect is None and t.callee.p in INVOKE]
    ok1 = False
    if inv:
        bb, t = inv[0]
        # swallow: pretend the Try::branch switch goes to the Continue arm for both values
        saved = f._body
        try:
            b = zf.Body(f.crate, copy.deepcopy(f.raw["mir"]), f)
            f._body = b
            bb2, t2 = [(x, y) for x, y in b.calls() if y.callee.indirect is None
                       and y.callee.p in INVOKE][0]
            # find the switch after the branch call and redirect the Break arm
            cur = t2.target
            hops = 0
            while hops < 6 and b.blocks[cur].term.kind != "switch":
                cur = b.blocks[cur].term.target
                hops += 1
            sw = b.blocks[cur].term
            cont = [tgt for v, tgt in sw.arms if v == 0][0]
            sw.arms = [(v, cont) for v, _ in sw.arms]
            fx.sites[f.id] = fx._sites(f)
            probs = err_region(f, bb2, t2, fx, w)
            ok1 = any(p[0] == "commit" for p in probs)
        finally:
            f._body = saved
            fx.sites[f.id] = fx._sites(f)
    (chk.ok if ok1 else lambda *a, **k: chk.fail("control", "commit-after-error",
                                                   "control not flagged"))("control",
                                                                           "commit reachable after closure error is flagged")
    # control 2: a function with two bare writes has 2 units
    cands = [f for f in fx.crate_fns if not fx.has_witness(f)
             and len([1 for _b, k, _t, _s in fx.sites.get(f.id, ()) if k == "W"]) >= 2
             and not any(k == "OPEN" for _b, k, _t, _s in fx.sites.get(f.id, ()))]
    ok2 = any(tx.units.get((f.id, "w"), 0) >= 2 for f in cands)
    (chk.ok if ok2 else lambda *a, **k: chk.fail("control", "two-bare-writes",
                                                   "control not flagged"))("control",
                                                                           "a function executing two writes on a bare connection counts 2 units (%d such helper fns exist, all reached only inside scopes)" % len(cands))
    # control 3: the summary helper, were it to run on a bare connection (witness ignored),
    # has statements outside any scope
    fs = [f for f in fx.crate_fns if f.p == "zcash_client_sqlite::wallet::get_wallet_summary"]
    ok3 = False
    if fs:
        f = fs[0]
        tx.force_no_witness.add(f.id)
        try:
            v, _why = tx.units_of(f, {k[0]: v for k, v in tx.units.items() if k[1] == "s"}, "s")
            ok3 = v >= 1
        finally:
            tx.force_no_witness.discard(f.id)
    (chk.ok if ok3 else lambda *a, **k: chk.fail("control", "summary-without-tx",
                                                   "control not flagged"))("control",
                                                                           "get_wallet_summary without its transaction is flagged")


if __name__ == "__main__":
    main("quick")
