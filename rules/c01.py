"""C01 — wallet balance is the ledger of unspent notes, in any scan order (structural clauses).

  PS-1/PS-3  pool uniformity of the whole scan -> store -> rewind -> summary pipeline
  UNDO   rewind undo coverage: every table the scan path writes is (i) written by the truncation
         path, or (ii) reached by ON DELETE CASCADE from a table it deletes from, or (iii) in the
         keep-by-design list (notes and their spends are kept; balances count them only through
         `transactions.mined_height` / the unexpired condition — checked by SPLICE)
  IDEM   idempotent re-scan: every INSERT reachable from put_blocks is an upsert, an
         existence-read-guarded insert, or a delete-then-insert of the same table
  SPLICE the balance and unspent-note queries splice the spent-notes / unexpired-transaction
         predicates (so kept rows of orphaned transactions stop counting)
Not decided: the ledger equation itself, order independence, pruning arithmetic, dust.
"""
import re

import defuse
import extract
import ps_rules
import sqlfx
import zf
from common import Check

FILES = ["zcash_client_backend/src/data_api/chain.rs", "zcash_client_backend/src/data_api/ll/wallet.rs",
         "zcash_client_backend/src/scanning.rs", "zcash_client_sqlite/src/lib.rs",
         "zcash_client_sqlite/src/wallet.rs", "zcash_client_sqlite/src/wallet/common.rs",
         "zcash_client_sqlite/src/wallet/sapling.rs", "zcash_client_sqlite/src/wallet/orchard.rs",
         "zcash_client_sqlite/src/wallet/transparent.rs"]

SCAN_ENTRY = (r"^<zcash_client_sqlite::WalletDb<zcash_client_sqlite::SqlTransaction<'_>, P, CL, R> as "
              r"zcash_client_backend::data_api::WalletWrite>::put_blocks$")
TRUNC_ENTRY = r"^zcash_client_sqlite::wallet::truncate_to_height_internal$"

# tables the scan path writes that truncation deliberately leaves alone
KEEP = {
    "_received_notes": "received notes are kept across a rewind; their transaction is un-mined "
                       "(mined_height = NULL) and every balance/selection query counts a note only "
                       "through its transaction's mined_height / unexpired condition (SPLICE)",
    "_received_note_spends": "spend links are kept; they refer to a transaction that is un-mined by "
                             "the rewind and stops counting once it expires (spent_notes_clause)",
    "sent_notes": "records of the wallet's own sends, keyed by transaction; not chain-derived",
    "addresses": "address exposure metadata is monotone; a rewind must not forget exposed addresses",
    "tx_retrieval_queue": "a work queue; re-requesting transaction data after a rewind is harmless",
    "transparent_received_output_spends": "as for shielded spend links",
    "transparent_spend_map": "spend observations keyed by outpoint, re-validated against the chain",
    "transparent_spend_search_queue": "work queue",
    "accounts": "account metadata (birthday/recover-until) is not chain state",
}

SQL_KW = {"SET", "is", "the", "a", "an", "and", "or", "to", "of", "in", "on", "if", "it", "any", "all"}


def table_effects(text):
    out = set()
    for m in re.finditer(r"\b(INSERT(?:\s+OR\s+\w+)?\s+INTO|UPDATE|DELETE\s+FROM|REPLACE\s+INTO)\s+"
                         r"([A-Za-z_{}\.]+)", text):
        verb = m.group(1).split()[0]
        t = re.sub(r"\{[^}]*\}", "*", m.group(2))
        if t in SQL_KW or not re.match(r"^[a-z_*]+$", t) or t == "*":
            continue
        out.add((verb, t))
    return out


def norm_table(t):
    """pool-prefixed tables are one family: sapling_received_notes == *_received_notes"""
    for p in ("sapling", "orchard", "ironwood"):
        if t.startswith(p + "_"):
            return "*" + t[len(p):]
    return t


class Effects:
    def __init__(self, w, fx):
        self.w, self.fx = w, fx
        # methods of the crate's ShardStore impls (reached from shardtree, an external crate)
        self.shardstore = [m for tm, ms in w.trait_impls.items() if "shardtree::store::ShardStore" in tm
                           or tm.startswith("shardtree::store::ShardStore")
                           for m in ms if m in w.fns]
        if not self.shardstore:
            self.shardstore = [f.id for f in w.fns.values()
                               if f.trait == "shardtree::store::ShardStore"]

    def reach(self, entry_rx):
        w, fx = self.w, self.fx
        es = [f for f in w.fns.values() if re.search(entry_rx, f.p)]
        seen = set()
        q = [e.id for e in es]
        while q:
            x = q.pop()
            if x in seen or x not in w.fns:
                continue
            seen.add(x)
            f = w.fns[x]
            q.extend(w.callees(x))
            for _bb, t in f.body.calls():
                if t.callee.indirect is not None or t.callee.target_id() in w.fns:
                    continue
                p = t.callee.target_p()
                if (p.startswith("shardtree::") or p.startswith("incrementalmerkletree::")) and t.args:
                    a = t.args[0]
                    if a.kind in ("copy", "move") and not a.place.proj and \
                            f.body.local_ty(a.place.local).startswith("&mut "):
                        q.extend(self.shardstore)
        return es, seen

    def tables(self, seen):
        eff = {}
        stmts = {}
        for fid in seen:
            for bb, k, t, text in self.fx.sites.get(fid, ()):
                for stmt in text.split("\n;\n"):
                    for vt in table_effects(stmt):
                        eff.setdefault(vt, set()).add(self.w.fns[fid].p)
                    stmts.setdefault(fid, set()).add(stmt)
        return eff, stmts


def fk_cascade(w):
    """table -> set of tables deleted with it (ON DELETE CASCADE), from the DDL constants"""
    casc = {}
    for name, c in w.consts.items():
        if not name.startswith("zcash_client_sqlite::wallet::db::") or "str" not in c:
            continue
        ddl = c["str"]
        m = re.search(r"CREATE TABLE\s+\"?(\w+)\"?", ddl)
        if not m:
            continue
        child = m.group(1)
        for fk in re.finditer(r"REFERENCES\s+\"?(\w+)\"?\s*\([^)]*\)([^,]*)", ddl):
            if "ON DELETE CASCADE" in fk.group(2).upper():
                casc.setdefault(fk.group(1), set()).add(child)
    return casc


def recv_spent(chk, w):
    """Blocks may be scanned in any order, so a note can be received after the block spending it was
    scanned: every received note is stored together with the result of the spent-before-received
    lookup made for that same output (never with a constant `None`)."""
    fs = [f for f in w.fns.values() if f.p.endswith("data_api::ll::wallet::put_shielded_outputs")]
    if len(fs) != 1:
        chk.fail("RECV", "missing", "ll::wallet::put_shielded_outputs not found")
        return
    f = fs[0]
    nm = list(f.argnames or [])
    if "detect_note_spent_in" not in nm or "put_received_note" not in nm:
        chk.fail("RECV", "params", "put_shielded_outputs no longer takes the two callbacks (%s)" % nm, f.span.loc())
        return
    di, pi = nm.index("detect_note_spent_in"), nm.index("put_received_note")
    b, du = f.body, defuse.DefUse(f.body)
    n = 0
    for bb, t in b.calls():
        if b.blocks[bb].cleanup or t.callee.indirect is not None or not re.search(r"ops::Fn(Mut)?::call(_mut)?$", t.callee.target_p()):
            continue
        if defuse.show(du.origin(t.args[0])) != "&arg%d" % pi:
            continue
        tup = du.origin(t.args[1])
        n += 1
        ok = False
        if tup[0] == "agg" and tup[1] == "tuple" and len(tup[2]) == 4:
            out_txt = defuse.show(tup[2][1])
            sp = defuse.show(tup[2][3])
            m = re.match(r"^\(branch\(call\(&arg%d, tuple\{&\*arg0, (.+)\}\)\) as Continue\)\.0$" % di, sp)
            norm = lambda x: re.sub(r"into_iter\(arg\d+\)|_\d+", "IT", x)
            ok = bool(m) and norm(m.group(1)) == norm(out_txt)
        if ok:
            chk.ok("RECV", "put_shielded_outputs [%s]: the note is stored with detect_note_spent_in(db, the same output)"
                   % t.span.loc(), sample=(n == 1))
        else:
            chk.fail("RECV", "put_shielded_outputs#%d" % n, "a received note is stored with the spent-in value %s instead "
                     "of the spent-before-received lookup for that output: a note whose spend was scanned earlier stays "
                     "unspent" % (defuse.show(tup[2][3])[:100] if tup[0] == "agg" and len(tup[2]) == 4 else defuse.show(tup)[:100]),
                     t.span.loc())
    if n < 2:
        chk.fail("RECV", "sites", "expected the two stores of received notes (incoming and internal), found %d" % n, f.span.loc())


def upsert_siblings(chk, w, fx):
    """The pools' received-note upserts resolve a conflict the same way column by column: for every
    column the Sapling and the Orchard-protocol statements both update, the update expression is the
    same modulo the column's own name (e.g. `nf = IFNULL(:nf, nf)`: a newly computed value replaces
    the stored one)."""
    def sets(f):
        out = {}
        for _bb, _kind, _t, text in fx.sites.get(f.id, []):
            m = re.search(r"ON CONFLICT.*?DO UPDATE\s+SET(.*?)(RETURNING|WHERE|$)", text, re.S)
            if not m:
                continue
            body = re.sub(r"\s+", " ", m.group(1))
            depth, cur, parts = 0, "", []
            for ch in body:
                if ch == "(":
                    depth += 1
                elif ch == ")":
                    depth -= 1
                if ch == "," and depth == 0:
                    parts.append(cur)
                    cur = ""
                else:
                    cur += ch
            parts.append(cur)
            for p_ in parts:
                if "=" in p_:
                    col, expr = p_.split("=", 1)
                    # IFNULL(a, b) and the two-argument COALESCE(a, b) are the same function
                    out[col.strip()] = re.sub(r"(?i)\bCOALESCE\(", "IFNULL(", re.sub(r"\s+", " ", expr.strip()))
        return out
    sa = [f for f in w.fns.values() if f.p == "zcash_client_sqlite::wallet::sapling::put_received_note"]
    orc = [f for f in w.fns.values() if f.p == "zcash_client_sqlite::wallet::orchard::put_received_note"]
    if len(sa) != 1 or len(orc) != 1:
        chk.fail("UPSIB", "missing", "the pools' put_received_note functions were not found")
        return
    a, o = sets(sa[0]), sets(orc[0])
    common = sorted(set(a) & set(o))
    if len(common) < 6:
        chk.fail("UPSIB", "columns", "the two upserts share only the columns %s" % common, sa[0].span.loc())
        return
    for col in common:
        if a[col] == o[col]:
            chk.ok("UPSIB", "received-note upserts agree on `%s = %s`" % (col, a[col]), sample=(col == "nf"))
        else:
            chk.fail("UPSIB", "put_received_note/%s" % col, "on conflict the Sapling upsert sets `%s = %s` but the "
                     "Orchard-protocol upsert sets `%s = %s`" % (col, a[col], col, o[col]), sa[0].span.loc())


def _disjuncts(pred):
    """top-level OR-disjuncts of a SQL predicate, comments and whitespace removed"""
    pred = re.sub(r"--[^\n]*", " ", pred)
    out, depth, cur = [], 0, ""
    toks = re.split(r"(\(|\)|\bOR\b)", pred)
    for t in toks:
        if t == "(":
            depth += 1
        elif t == ")":
            depth -= 1
        if t == "OR" and depth == 0:
            out.append(cur)
            cur = ""
        else:
            cur += t
    out.append(cur)
    return [re.sub(r"\s+", " ", d).strip() for d in out if d.strip()]


def _atom_kind(d):
    """normal form of a disjunct about a spending transaction: ('mined',) | ('noexpiry',) |
    ('height-dependent', text) | ('other', text). `mined_height < :target_height` is, for every later
    target height, the same fact as `mined_height IS NOT NULL`."""
    x = re.sub(r"\{?\b\w+\}?\.(\w+)", r"\1", d.strip("() "))
    if re.match(r"^mined_height IS NOT NULL$", x) or re.match(r"^mined_height < :target_height$", x):
        return ("mined",)
    if re.match(r"^expiry_height = 0$", x):
        return ("noexpiry",)
    if ":target_height" in x or ":anchor_height" in x:
        return ("height-dependent", x)
    return ("other", x)


def unexpired_lapses(chk, w):
    """UNEXP: an unmined transaction stops counting once it can no longer be mined - that is what makes the
    balance a ledger of notes not spent "by a mined or still-unexpired transaction". tx_unexpired_condition is
    a disjunction; each disjunct must be either permanent for a good reason (the transaction is mined; it
    declares no expiry, expiry_height = 0) or LAPSE as the target height grows (contain a comparison with
    :target_height). A disjunct such as `expiry_height IS NULL` on its own keeps an orphaned transaction's
    outputs counting and its inputs spent forever."""
    tu = [f for f in w.fns.values() if f.p == "zcash_client_sqlite::wallet::common::tx_unexpired_condition"]
    if len(tu) != 1:
        chk.fail("UNEXP", "missing", "tx_unexpired_condition not found")
        return
    lits = [l for l in sqlfx.string_literals(zf.fn_source(extract.REPO, tu[0])) if "mined_height" in l]
    if len(lits) != 1:
        chk.fail("UNEXP", "literal", "expected one SQL literal in tx_unexpired_condition, found %d" % len(lits), tu[0].span.loc())
        return
    n = 0
    for d in _disjuncts(lits[0]):
        k = _atom_kind(d)
        n += 1
        if k[0] in ("mined", "noexpiry"):
            chk.ok("UNEXP", "disjunct `%s`: permanent (%s)" % (re.sub(r"\s+", " ", d)[:60], k[0]))
        elif k[0] == "height-dependent":
            chk.ok("UNEXP", "disjunct `%s`: lapses as the target height grows" % re.sub(r"\s+", " ", d)[:80], sample=(n == 3))
        else:
            chk.fail("UNEXP", "disjunct/%s" % re.sub(r"[^a-z_]+", "_", k[1].lower())[:40], "the disjunct `%s` of tx_unexpired_condition "
                     "neither says the transaction is mined / has no expiry nor depends on the target height: an unmined "
                     "transaction satisfying it counts as unexpired forever" % k[1][:80], tu[0].span.loc())
    if n < 3:
        chk.fail("UNEXP", "disjuncts", "expected at least the mined / no-expiry / unexpired disjuncts, found %d" % n, tu[0].span.loc())


def spend_row_created(chk, w, fx):
    """NFTX: when a note arrives whose nullifier is already in the nullifier map (its spend was scanned first), the
    spending transaction is linked to the note - and that transaction may have no row yet (a spend with no output
    the wallet can decrypt leaves none). query_nullifier_map therefore FINDS OR CREATES the row: what it returns
    for a map hit comes from put_tx_meta (the upsert) or from an INSERT into transactions, never from a plain
    look-up that can answer "no such row" and drop the spend."""
    fs = [f for f in w.fns.values() if f.p == "zcash_client_sqlite::wallet::query_nullifier_map"]
    if len(fs) != 1:
        chk.fail("NFTX", "missing", "query_nullifier_map not found")
        return
    f = fs[0]
    du = defuse.DefUse(f.body)
    rets = []
    for kind, _bi, x in du.defs.get(0, []):
        if kind == "call":
            nm = x.callee.target_p() if x.callee.indirect is None else "?"
            rets.append(defuse.show(("call", nm, [du.origin(a) for a in x.args])))
        elif kind == "stmt" and x.rv.kind == "use":
            rets.append(defuse.show(du.origin(x.rv.ops[0])))
        elif kind == "stmt" and x.rv.kind == "agg":
            rets.append("%s{%s}" % (x.rv.agg[2], ", ".join(defuse.show(du.origin(o)) for o in x.rv.ops)))
    # the result for a map hit: the definition that is not the early `Ok(None)`
    hit = [r for r in rets if not re.match(r"^Ok\{core::option::Option::None\{\}\}$|^Ok\{None", r) and "from_residual" not in r]
    ret = " | ".join(hit) or "nothing"
    texts = " ".join(x[3] for x in fx.sites.get(f.id, []))
    creates = "put_tx_meta(" in ret or re.search(r"INSERT\s+(OR\s+\w+\s+)?INTO\s+transactions", texts, re.I)
    if creates and "optional(" not in ret.split("put_tx_meta(")[0][-40:]:
        chk.ok("NFTX", "query_nullifier_map returns the row put_tx_meta finds or creates for the spending transaction", sample=True)
    else:
        chk.fail("NFTX", "query_nullifier_map", "for a nullifier-map hit query_nullifier_map returns `%s`: it no longer creates the "
                 "spending transaction's row when there is none, so an out-of-order spend without a wallet-visible output is "
                 "lost" % ret[:100], f.span.loc())


def definitely_spent(chk, w, fx):
    """The scanner stops watching for a note's nullifier only when the note's spend is PERMANENT. The
    wallet's own notion of an effective spend is tx_unexpired_condition, some of whose disjuncts
    lapse as the target height grows (an unmined spend that may still expire). So every disjunct of
    the spent-predicate of get_nullifiers(Unspent) must be one of the disjuncts of
    tx_unexpired_condition that do not lapse — otherwise a note whose spend later expires is never
    watched again."""
    gu = [f for f in w.fns.values() if f.p == "zcash_client_sqlite::wallet::common::get_nullifiers"]
    tu = [f for f in w.fns.values() if f.p == "zcash_client_sqlite::wallet::common::tx_unexpired_condition"]
    if len(gu) != 1 or len(tu) != 1:
        chk.fail("DEFSPENT", "missing", "get_nullifiers / tx_unexpired_condition not found")
        return
    src = zf.fn_source(extract.REPO, tu[0])
    lits = sqlfx.string_literals(src)
    perm = set()
    for l in lits:
        if "mined_height" in l:
            for d in _disjuncts(l):
                k = _atom_kind(d)
                if k[0] in ("mined", "noexpiry"):
                    perm.add(k)
    texts = [t for _bb, _k, _t, t in fx.sites.get(gu[0].id, [])] or sqlfx.string_literals(zf.fn_source(extract.REPO, gu[0]))
    preds = []
    for t in texts:
        for m in re.finditer(r"NOT IN\s*\(\s*SELECT.*?\bWHERE\b(.*?)\)\s*(\"|$|;)", t, re.S):
            preds.append(m.group(1))
    preds = sorted(set(re.sub(r"\s+", " ", re.sub(r"--[^\n]*", " ", x)) for x in preds))
    if not perm or len(preds) != 1:
        chk.fail("DEFSPENT", "anchors", "the spent sub-query of get_nullifiers(Unspent) or the permanent disjuncts of "
                 "tx_unexpired_condition were not found (%d, %d)" % (len(preds), len(perm)), gu[0].span.loc())
        return
    bad = []
    ds = _disjuncts(preds[0])
    for d in ds:
        k = _atom_kind(d)
        if k not in perm:
            bad.append(d)
    if not bad and ds:
        chk.ok("DEFSPENT", "get_nullifiers(Unspent) stops tracking a nullifier only for permanent spends: %s"
               % " OR ".join(ds), sample=True)
    else:
        chk.fail("DEFSPENT", "get_nullifiers", "get_nullifiers(Unspent) also drops notes whose spend satisfies `%s`, which "
                 "is not a permanent disjunct of tx_unexpired_condition (%s): the spend may lapse and the note is never "
                 "watched again" % ("`, `".join(bad), sorted(perm)), gu[0].span.loc())


def main(tier):
    chk = Check("C01", "other", tier)
    chk.explanation = (
        "Structural necessary conditions of C01 on the scan/store/rewind/summary pipeline: pool "
        "uniformity (PS-1/PS-3), rewind undo coverage from SQL table effect sets over the call graph "
        "(UNDO), idempotent re-scan idioms for every INSERT on the scan path (IDEM), and the splicing "
        "of the spent/unexpired predicates into balance and unspent-note queries (SPLICE). Not "
        "decided: the ledger equation, order independence, pruning and dust arithmetic.")
    chk.trusted = ["rustc MIR and call graph (CHA for calls through type parameters; shardtree reaches "
                   "the crate's ShardStore impl)", "SQL literal lexer", "Rust lexer for PS-1",
                   "keep-by-design table list in rules/c01.py"]
    chk.rule("PS-1", "sibling pool code is a consistent renaming", floor=350)
    chk.rule("PS-2", "Ironwood code equals its Orchard sibling up to the pool renaming", floor=100)
    chk.rule("PS-3", "pool-tagged arguments bind the same pool's parameters", floor=15)
    chk.rule("UNDO", "every table written by scanning is undone, cascaded or kept by design", floor=15)
    chk.rule("IDEM", "every INSERT on the scan path is idempotent", floor=15)
    chk.rule("SPLICE", "balance / unspent queries splice the spent and unexpired predicates", floor=6)
    chk.rule("BOUNDARY", "the rewind splits heights consistently: rows above the height go, rows at "
             "or below it stay", floor=4)
    chk.rule("PRUNE", "the nullifier map is pruned relative to the fully-scanned height", floor=2)
    chk.rule("RECV", "received notes are stored with the spent-before-received lookup", floor=2)
    chk.rule("UPSIB", "the pools' received-note upserts resolve conflicts alike", floor=6)
    chk.rule("DEFSPENT", "nullifier tracking ends only for permanent spends", floor=1)
    chk.rule("NFTX", "a nullifier-map hit finds or creates the spending transaction's row", floor=1)
    chk.rule("UNEXP", "every way a transaction counts as unexpired is permanent for a stated reason or lapses with the target height", floor=4)
    chk.rule("control", "positive controls", floor=2)

    ps_rules.ps1(chk, FILES)
    ps_rules.ps2(chk, FILES)
    w = zf.World(extract.facts_dir("all"))

    def scope(f):
        if "::tests::" in f.p or "::testing" in f.p:
            return False
        return (f.p.startswith("zcash_client_backend::data_api::ll::") or
                f.p.startswith("zcash_client_backend::data_api::chain") or
                f.crate.name == "zcash_client_sqlite" and not f.span.file.endswith("/init.rs")
                and "/init/" not in f.span.file)
    chk.analysed["ps3_calls"] = ps_rules.ps3(chk, w, scope)

    fx = sqlfx.SqlFx(w, extract.REPO)
    E = Effects(w, fx)
    es, scan_seen = E.reach(SCAN_ENTRY)
    ts, trunc_seen = E.reach(TRUNC_ENTRY)
    if len(es) != 1 or len(ts) != 1:
        chk.fail("UNDO", "entries", "put_blocks / truncate_to_height_internal not found (%d, %d)"
                 % (len(es), len(ts)))
        chk.finish()
    scan_eff, scan_stmts = E.tables(scan_seen)
    trunc_eff, _ = E.tables(trunc_seen)
    chk.analysed.update({"functions_reached_from_put_blocks": len(scan_seen),
                         "functions_reached_from_truncate": len(trunc_seen)})
    casc = fk_cascade(w)
    trunc_tables = {norm_table(t) for (_v, t) in trunc_eff}
    trunc_deleted = {t for (v, t) in trunc_eff if v == "DELETE"}
    cascaded = set()
    q = list(trunc_deleted)
    while q:
        x = q.pop()
        for ch in casc.get(x, ()):
            if ch not in cascaded:
                cascaded.add(ch)
                q.append(ch)
    cascaded_n = {norm_table(t) for t in cascaded}
    scan_tables = sorted({norm_table(t) for (v, t) in scan_eff if v in ("INSERT", "UPDATE", "REPLACE")})
    for t in scan_tables:
        who = sorted({x.rsplit("::", 1)[-1] for (v, tt), fs in scan_eff.items()
                      if norm_table(tt) == t for x in fs})[:3]
        if t in trunc_tables:
            chk.ok("UNDO", "table %s (written by %s) is rewritten by the truncation path" % (t, who),
                   sample=True)
        elif t in cascaded_n:
            chk.ok("UNDO", "table %s is deleted by ON DELETE CASCADE from a table truncation deletes "
                   "from" % t, sample=True)
        else:
            kk = [k for k in KEEP if t == k or t.endswith(k)]
            if kk:
                chk.ok("UNDO", "table %s is kept by design" % t)
                chk.exception("UNDO", t, KEEP[kk[0]])
            else:
                chk.fail("UNDO", "table/" + t, "table %s is written while scanning (by %s) but a rewind "
                         "neither rewrites it, nor cascades into it, nor is it kept by design: state of "
                         "rolled-back blocks would survive the rewind" % (t, who))
    # the truncation must still un-mine transactions and drop block-derived rows
    for verb, table, why in (("UPDATE", "transactions", "un-mining of transactions above the height"),
                             ("DELETE", "blocks", "removal of rolled-back blocks"),
                             ("DELETE", "tx_locator_map", "removal of rolled-back nullifier locators")):
        if (verb, table) in trunc_eff:
            chk.ok("UNDO", "truncation performs the %s (%s %s)" % (why, verb, table))
        else:
            chk.fail("UNDO", "trunc/%s-%s" % (verb, table), "truncation no longer performs the %s "
                     "(%s %s)" % (why, verb, table))

    # ------------------------------------------------------------------ IDEM
    seen_stmt = set()
    for fid in sorted(scan_seen):
        f = w.fns.get(fid)
        if f is None or f.crate.name != sqlfx.CRATE:
            continue
        for stmt in sorted(scan_stmts.get(fid, ())):
            m = re.search(r"\bINSERT(\s+OR\s+\w+)?\s+INTO\s+([A-Za-z_{}\.]+)", stmt)
            if not m:
                continue
            table = re.sub(r"\{[^}]*\}", "*", m.group(2))
            key = (f.p, table)
            if key in seen_stmt:
                continue
            seen_stmt.add(key)
            label = "%s -> %s" % (f.p.rsplit("::", 1)[-1], table)
            if m.group(1) or re.search(r"ON CONFLICT", stmt):
                chk.ok("IDEM", "%s: upsert" % label)
                continue
            how = insert_guard(w, fx, E, f, table)
            if how:
                chk.ok("IDEM", "%s: %s" % (label, how), sample=True)
            else:
                chk.fail("IDEM", "%s/%s" % (f.p, table), "plain INSERT into %s on the scan path with no "
                         "upsert clause, existence-read guard or preceding delete: scanning the same "
                         "blocks again fails or duplicates rows" % table, f.span.loc())

    # ------------------------------------------------------------------ RECV (spent-before-received)
    recv_spent(chk, w)
    upsert_siblings(chk, w, fx)
    definitely_spent(chk, w, fx)
    unexpired_lapses(chk, w)
    spend_row_created(chk, w, fx)

    # ------------------------------------------------------------------ SPLICE
    need = {
        "zcash_client_sqlite::wallet::get_wallet_summary::with_pool_balances":
            ["tx_unexpired_condition", "spent_notes_clause"],
        "zcash_client_sqlite::wallet::common::select_unspent_notes":
            ["tx_unexpired_condition", "spent_notes_clause", "output_eligible_condition"],
        "zcash_client_sqlite::wallet::common::spent_notes_clause": ["tx_unexpired_condition"],
        "zcash_client_sqlite::wallet::transparent::spent_utxos_clause": ["tx_unexpired_condition"],
    }
    for fp, helpers in sorted(need.items()):
        fs = w.by_p.get(fp, [])
        if len(fs) != 1:
            chk.fail("SPLICE", fp + "/missing", "query builder %s not found" % fp)
            continue
        f = fs[0]
        seen, _ = w.reach([f.id], stop=lambda x: w.fns[x].crate.name != sqlfx.CRATE)
        called = set()
        for x in seen:
            g = w.fns[x]
            if g.id != f.id and not (g.is_closure() and g.root == f.id):
                continue
            for _bb, t in g.body.calls():
                if t.callee.indirect is None:
                    called.add(t.callee.target_p().rsplit("::", 1)[-1])
        for h in helpers:
            if h in called:
                chk.ok("SPLICE", "%s splices %s" % (fp.rsplit("::", 1)[-1], h), sample=True)
            else:
                chk.fail("SPLICE", "%s/%s" % (fp, h), "%s no longer splices %s into its query: rows of "
                         "spent notes or of orphaned (expired, un-mined) transactions would count"
                         % (fp.rsplit("::", 1)[-1], h), f.span.loc())
    # the predicate text itself tests the transaction's mined height and expiry
    tu = w.by_p.get("zcash_client_sqlite::wallet::common::tx_unexpired_condition", [])
    if tu:
        src = zf.fn_source(extract.REPO, tu[0])
        if "mined_height" in src and "expiry_height" in src:
            chk.ok("SPLICE", "tx_unexpired_condition tests mined_height and expiry_height")
        else:
            chk.fail("SPLICE", "tx_unexpired_condition/text", "tx_unexpired_condition no longer tests "
                     "mined_height / expiry_height", tu[0].span.loc())
    else:
        chk.fail("SPLICE", "tx_unexpired_condition/missing", "tx_unexpired_condition not found")

    boundary(chk, w, fx, ts[0])
    prune(chk, w)

    # controls
    if ("INSERT", "blocks") in scan_eff and ("DELETE", "blocks") in trunc_eff:
        chk.ok("control", "effect sets see INSERT blocks on the scan path and DELETE blocks on truncation")
    else:
        chk.fail("control", "effects-blind", "the table effect analysis no longer sees the block table")
    if any(norm_table(t) == "*_tree_shards" for (_v, t) in scan_eff):
        chk.ok("control", "scan path reaches the shard store through shardtree (external edge)")
    else:
        chk.fail("control", "shardstore-edge", "tree shard writes are not seen on the scan path")
    chk.finish()


HEIGHT_CMP = re.compile(r"([A-Za-z_\.]*height[A-Za-z_]*)\s*(>=|<=|<>|!=|>|<|=)\s*(:\w+|\?\d*)")


def boundary(chk, w, fx, f):
    """A rewind to height h keeps block h.  Every UPDATE/DELETE the truncation itself issues
    compares height columns with its bound height in one of two ways: `col > :h` (rolled back) or
    `col <= :h` (kept).  `>=` or `<` in one statement contradicts the others: it moves block h to
    the other side for that table only."""
    n = 0
    ordn = {}
    for bb, k, t, text in fx.sites.get(f.id, ()):
        if k not in ("W", "P"):
            continue
        for stmt in text.split("\n;\n"):
            m0 = re.match(r"\s*(UPDATE|DELETE)\b", stmt)
            if not m0:
                continue
            tbl = (re.search(r"(?:UPDATE|DELETE\s+FROM)\s+([A-Za-z_]+)", stmt) or [None, "?"])[1]
            # the statement that un-mines transactions selects them by the column that says they are mined: a
            # transaction whose mined height was learned without scanning its block (set_transaction_status,
            # store_decrypted_tx) has `block` NULL, so selecting on another column leaves it mined after the rewind
            ms = re.search(r"\bSET\b(.*?)\bWHERE\b(.*)$", stmt, re.S)
            if m0.group(1) == "UPDATE" and ms and re.search(r"\bmined_height\s*=\s*NULL\b", ms.group(1)):
                n += 1
                if re.search(r"\bmined_height\s*(>|<=)\s*(:\w+|\?\d*)", ms.group(2)) or \
                        re.search(r"(:\w+|\?\d*)\s*(<|>=)\s*mined_height\b", ms.group(2)):
                    chk.ok("BOUNDARY", "UPDATE %s: transactions are un-mined by their own mined_height" % tbl)
                else:
                    chk.fail("BOUNDARY", "%s/unmine-selector" % tbl, "the rewind un-mines rows of %s selected by `%s`, not by "
                             "mined_height: a transaction known to be mined above the rewind height whose block was never "
                             "scanned stays mined" % (tbl, re.sub(r"\s+", " ", ms.group(2)).strip()[:80]), t.span.loc())
            for m in HEIGHT_CMP.finditer(stmt):
                n += 1
                k0 = "%s/%s" % (tbl, m.group(1))
                ordn[k0] = ordn.get(k0, 0) + 1
                if m.group(2) in (">", "<="):
                    chk.ok("BOUNDARY", "%s %s: `%s`" % (m0.group(1), tbl, m.group(0)), sample=True)
                else:
                    chk.fail("BOUNDARY", "%s#%d" % (k0, ordn[k0]), "the rewind's %s of %s tests `%s`; "
                             "every other statement of the rewind removes rows with height > h and "
                             "keeps rows with height <= h, so this one treats the block AT the rewind "
                             "height differently" % (m0.group(1), tbl, m.group(0)), t.span.loc())
    return n


def prune(chk, w):
    """entries of the nullifier map may be dropped only below the FULLY scanned height: above it
    an unscanned block may still hold the note a tracked nullifier spends"""
    callers = []
    for f in w.fns.values():
        if "::tests::" in f.p or "::testing" in f.p:
            continue
        for bb, t in f.body.calls():
            if t.callee.indirect is None and t.callee.target_p().endswith("::wallet::prune_nullifier_map"):
                callers.append((f, t))
    if not callers:
        chk.fail("PRUNE", "missing", "no caller of prune_nullifier_map found")
        return
    import defuse
    for f, t in callers:
        du = defuse.DefUse(f.body)
        o = defuse.show(du.origin(t.args[1]))
        srcs = set(re.findall(r"\b(block_\w*scanned|chain_tip\w*|block_height_extrema)\(", o))
        if srcs == {"block_fully_scanned"} and re.search(r"saturating_sub\(|Sub ", o):
            chk.ok("PRUNE", "%s prunes below block_fully_scanned() - depth" % f.p.rsplit("::", 1)[-1],
                   sample=True)
        else:
            chk.fail("PRUNE", f.p, "%s prunes the nullifier map below %s: only heights below the fully "
                     "scanned height minus the pruning depth are safe to forget"
                     % (f.p.rsplit("::", 1)[-1], o[:120]), t.span.loc())
    # the pruning statement removes rows strictly below the height it is given
    ps = [f for f in w.fns.values() if f.p.endswith("::wallet::prune_nullifier_map")]
    src = zf.fn_source(extract.REPO, ps[0]) if ps else ""
    m = HEIGHT_CMP.search(src)
    if m and m.group(2) == "<" and "DELETE FROM tx_locator_map" in src:
        chk.ok("PRUNE", "prune_nullifier_map deletes rows with `%s`" % m.group(0))
    else:
        chk.fail("PRUNE", "statement", "prune_nullifier_map's statement is not `DELETE FROM "
                 "tx_locator_map WHERE block_height < :h` (found %s)" % (m.group(0) if m else None),
                 ps[0].span.loc() if ps else None)


def insert_guard(w, fx, E, f, table, depth=0):
    """recognise the existence-read-guarded and delete-then-insert idioms"""
    tnorm = norm_table(table)
    body = f.body
    # site(s) executing in this function
    wsites = [bb for bb, k, t, text in fx.sites.get(f.id, ()) if k == "W" and
              re.search(r"INTO\s+%s\b" % re.escape(table).replace(r"\*", r"[\w{}]*"), text)]
    # (1) a read of the same table (here or in a callee) that dominates the write, with a path
    # from the read to a return that avoids the write
    for bb, t in body.calls():
        reads = False
        for b2, k, t2, text in fx.sites.get(f.id, ()):
            if t2 is t and k == "R" and re.search(r"FROM\s+%s\b" % re.escape(table).replace(r"\*", r"[\w{}]*"), text):
                reads = True
        for g in w.call_targets(t):
            for _b, k, _t, text in fx.sites.get(g, ()):
                if k in ("R", "P") and re.search(r"\bSELECT\b", text) and \
                        (tnorm.strip("*") in text):
                    reads = True
        if not reads:
            continue
        for ws in wsites:
            if body.dominates(bb, ws) and bb != ws:
                # some path from the read reaches a return without executing the write
                seen = set()
                q = [bb]
                hit = False
                while q:
                    x = q.pop()
                    if x in seen or x == ws:
                        continue
                    seen.add(x)
                    if body.blocks[x].term.kind == "return":
                        hit = True
                        break
                    q.extend(body.succs(x))
                if hit:
                    return "existence-read-guarded insert (a read of %s decides whether to insert)" % table
    # (1b) dominated by a guarded insert of the same function (rows inserted together under one
    # existence check, e.g. a checkpoint and its removed marks)
    if depth == 0:
        other = set()
        for b2, k, t2, text in fx.sites.get(f.id, ()):
            m = re.search(r"\bINSERT(?:\s+OR\s+\w+)?\s+INTO\s+([A-Za-z_{}\.]+)", text)
            if k == "W" and m:
                tb = re.sub(r"\{[^}]*\}", "*", m.group(1))
                if tb != table:
                    other.add(tb)
        for tb in sorted(other):
            if insert_guard(w, fx, E, f, tb, depth=1):
                w1 = [b for b, k, t2, text in fx.sites.get(f.id, ()) if k == "W" and
                      re.search(r"INTO\s+%s\b" % re.escape(tb).replace(r"\*", r"[\w{}]*"), text)]
                w2 = [b for b, k, t2, text in fx.sites.get(f.id, ()) if k == "W" and
                      re.search(r"INTO\s+%s\b" % re.escape(table).replace(r"\*", r"[\w{}]*"), text)]
                if w1 and w2 and all(any(body.dominates(a, b) for a in w1) for b in w2):
                    return "inserted together with %s under the same existence check" % tb
    # (2) delete-then-insert: a caller deletes from the same table before calling this function
    for g in w.fns.values():
        if g.crate.name != sqlfx.CRATE:
            continue
        for bb, t in g.body.calls():
            if f.id in w.call_targets(t):
                for b2, k, t2, text in fx.sites.get(g.id, ()):
                    if k == "W" and re.search(r"DELETE\s+FROM\s+%s\b" % re.escape(table), text) and \
                            g.body.dominates(b2, bb):
                        return "delete-then-insert (%s deletes the range first)" % g.p.rsplit("::", 1)[-1]
    return None
