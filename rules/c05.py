"""C05 — compact-block scanning finds exactly the wallet's notes and spends (structural clauses).

  PS-1/PS-3  pool uniformity of the scanning code: the Sapling / Orchard / Ironwood code paths are
         consistent renamings of one another, and pool-tagged arguments bind the parameters of
         the same pool (WalletTx::new, ScannedBlock::from_parts, ScannedBundles::new, ...)
  GUARD  continuity rejection cannot be bypassed: a failing hash/height continuity check, tree-size
         derivation or end-of-block consistency check forces an Err return before any result is
         built; each ScanError discontinuity variant is produced by its comparison; ScannedBlock is
         constructed only on the single success path
  ORDER  position bookkeeping: increment_over_compact_tx runs once per transaction, after the
         three find_received calls, on every path that continues the loop
  PF     no panic on malformed fields: every class-A panic site reachable from scan_block /
         scan_block_with_runners / BatchRunners::add_block is reviewed-internal, or a known finding
Not decided: exactness of trial decryption, the arithmetic of note positions, schedule
independence of the batch runners.
"""
import re

import assume as S
import defuse
import extract
import panics
import ps_rules
import zf
from common import Check

FILES = ["zcash_client_backend/src/scanning.rs", "zcash_client_backend/src/scanning/compact.rs",
         "zcash_client_backend/src/scan.rs", "zcash_client_backend/src/data_api/chain.rs"]

ENTRY_RX = (r"^zcash_client_backend::scanning::scan_block$|"
            r"^zcash_client_backend::scanning::compact::scan_block_with_runners$|"
            r"^zcash_client_backend::scanning::compact::BatchRunners::<.*>::add_block$")

# class-A sites that are internal invariants (not driven by server data)
_LEN32 = ("usize -> u32 conversion of the length of a decoded protobuf vector: a compact transaction "
          "or block with 2^32 elements cannot be decoded or held in memory")
REVIEWED = {
    "zcash_client_backend::scanning::compact::<impl zcash_client_backend::scanning::PositionTracker>::check_end_of_compact_block_consistency/panic:assert_eq#1":
        "internal invariant: positions start at the prior size and ORDER proves they are advanced by every transaction's count; the final size is defined as prior + sum of counts",
    "zcash_client_backend::scanning::compact::<impl zcash_client_backend::scanning::PositionTracker>::check_end_of_compact_block_consistency/panic:assert_eq#2":
        "internal invariant (see #1)",
    "zcash_client_backend::scanning::compact::<impl zcash_client_backend::scanning::PositionTracker>::check_end_of_compact_block_consistency/panic:assert_eq#3":
        "internal invariant (see #1)",
    "zcash_client_backend::scanning::compact::<impl zcash_client_backend::scanning::PositionTracker>::compact_tx_contains_last_ironwood_actions_in_block/unwrap:expect:Result#1": _LEN32,
    "zcash_client_backend::scanning::compact::<impl zcash_client_backend::scanning::PositionTracker>::compact_tx_contains_last_orchard_actions_in_block/unwrap:expect:Result#1": _LEN32,
    "zcash_client_backend::scanning::compact::<impl zcash_client_backend::scanning::PositionTracker>::compact_tx_contains_last_sapling_outputs_in_block/unwrap:expect:Result#1": _LEN32,
    "zcash_client_backend::scanning::compact::<impl zcash_client_backend::scanning::PositionTracker>::for_compact_block::tree_sizes_around::{closure#0}::{closure#1}/unwrap:expect:Result#1": _LEN32,
    "zcash_client_backend::scanning::compact::<impl zcash_client_backend::scanning::PositionTracker>::for_compact_block::tree_sizes_around::{closure#1}/unwrap:unwrap:Result#1": _LEN32,
    "zcash_client_backend::scanning::compact::<impl zcash_client_backend::scanning::PositionTracker>::increment_over_compact_tx/unwrap:expect:Result#1": _LEN32,
    "zcash_client_backend::scanning::compact::<impl zcash_client_backend::scanning::PositionTracker>::increment_over_compact_tx/unwrap:expect:Result#2": _LEN32,
    "zcash_client_backend::scanning::compact::<impl zcash_client_backend::scanning::PositionTracker>::increment_over_compact_tx/unwrap:expect:Result#3": _LEN32,
    "zcash_client_backend::scanning::PositionTracker::ironwood_note_position/unwrap:unwrap:Result#1": _LEN32,
    "zcash_client_backend::scanning::PositionTracker::orchard_note_position/unwrap:unwrap:Result#1": _LEN32,
    "zcash_client_backend::scanning::PositionTracker::sapling_note_position/unwrap:unwrap:Result#1": _LEN32,
    "zcash_primitives::block::BlockHash::try_from_slice/len-call:copy_from_slice#1":
        "guarded by `bytes.len() == 32` in the same function",
    "zcash_primitives::block::BlockHeader::from_data/len-call:copy_from_slice#1":
        "copies the 32-byte output of a SHA-256 finalisation into a 32-byte array",
    "zcash_client_backend::scan::Batch::<IvkTag, D, Output, Dec>::new/panic:assert_eq#1":
        "repliers/outputs vectors are built together by the same constructor",
    "<zcash_client_backend::scan::Batch<IvkTag, D, Output, Dec> as zcash_client_backend::scan::Task>::run/panic:assert_eq#1":
        "outputs.len() == repliers.len() is maintained by add_outputs, which pushes to both",
    "<zcash_client_backend::scan::Batch<IvkTag, D, Output, Dec> as zcash_client_backend::scan::Task>::run/unwrap:expect:Option#1":
        "tag looked up in the map the same batch was built from",
    "<zcash_client_backend::scan::FullDecryptor as zcash_client_backend::scan::Decryptor<D, Output>>::batch_decrypt::{closure#0}::{closure#0}/bounds:index#1":
        "index returned by batch decryption is an index into the ivk slice passed to it",
    "<zcash_client_backend::scan::CompactDecryptor as zcash_client_backend::scan::Decryptor<D, Output>>::batch_decrypt::{closure#0}::{closure#0}/bounds:index#1":
        "index returned by batch decryption is an index into the ivk slice passed to it",
    "zcash_client_backend::scanning::find_received::{closure#1}::{closure#0}/index-call:Index<I>>#1":
        "ivk index produced by the decryptor over the same tag list",
    "zcash_client_backend::scanning::find_received/unwrap:expect:Option#1":
        "key looked up by a tag taken from the same key set",
    "zcash_primitives::transaction::components::sapling::zip212_enforcement/unwrap:unwrap:Option#1":
        "Canopy activation height is set on every network that has Sapling",
    "<&mut R as zcash_primitives::encoding::ReadBytesExt>::read_u8/bounds:index#1":
        "buffer of length 1 indexed at 0",
}


def received_index(chk, w):
    """OUTIDX: a found note is reported with its output's index IN THE TRANSACTION, and its commitment-tree
    position is computed from that index (start + index). In find_received the index handed to
    WalletOutput::from_parts and to the position closure must come from an `enumerate` over the unfiltered
    sequence of the transaction's outputs: an enumeration applied after a filter / filter_map / skip counts
    only the wallet's own outputs, so an output that follows a foreign one gets the wrong index, position
    and nullifier."""
    import closures
    roots = [f for f in w.fns.values() if f.p == "zcash_client_backend::scanning::find_received"]
    if len(roots) != 1:
        chk.fail("OUTIDX", "missing", "find_received not found")
        return
    root = roots[0]
    n = 0
    for f in [root] + [g for g in w.fns.values() if g.is_closure() and g.root == root.id]:
        b = f.body
        du = closures.deep()(b)
        for bb, t in b.calls():
            if b.blocks[bb].cleanup:
                continue
            if t.callee.indirect is None and re.search(r"WalletOutput::<.*>::from_parts$|WalletOutput::from_parts$", t.callee.target_p()):
                idx = defuse.show(closures.norm(du.origin(t.args[0])))
                # the position closure is called with the same index
                pos = [defuse.show(closures.norm(du.origin(a))) for a in t.args]
                n += 1
                m = re.search(r"enumerate\((.*)\)\)\) as Some\)\.0\.0$", idx)
                src = m.group(1) if m else None
                bad = src is None or re.search(r"\b(filter|filter_map|skip|skip_while|take|take_while|step_by|rev|flatten|flat_map|chain)\(", src)
                same = any(("call(" in x or "note_position" in x) and idx in x for x in pos[1:])
                if not bad and same:
                    chk.ok("OUTIDX", "find_received: the reported index and the position closure's argument are the "
                           "enumeration index over the transaction's unfiltered outputs", sample=True)
                elif bad:
                    chk.fail("OUTIDX", "find_received/index", "the index given to WalletOutput::from_parts is %s: not the "
                             "position of the output in the transaction's full output sequence" % idx[:140], t.span.loc())
                else:
                    chk.fail("OUTIDX", "find_received/position", "the note's tree position is not computed from the same index "
                             "as the one reported", t.span.loc())
    if n < 1:
        chk.fail("OUTIDX", "site", "no WalletOutput::from_parts call found in find_received")


def spend_attribution(chk, w):
    """ATTRIB: a detected spend is attributed to the account that tracks THE MATCHING nullifier. In
    find_spent every constant-time selection of an account (CtOption::new(account, choice) or
    conditional_select(.., &account, choice)) must be keyed on `nf.ct_eq(&spend_nf)` for the nullifier that
    sits in the same tracked pair as that account - not on an accumulated "seen a match" flag, which hands
    the spend to whichever account comes later in the list."""
    import closures
    roots = [f for f in w.fns.values() if f.p == "zcash_client_backend::scanning::find_spent"]
    if len(roots) != 1:
        chk.fail("ATTRIB", "missing", "find_spent not found")
        return
    root = roots[0]
    n = 0
    for f in [root] + [g for g in w.fns.values() if g.is_closure() and g.root == root.id]:
        b = f.body
        du = closures.deep()(b)
        for bb, t in b.calls():
            if b.blocks[bb].cleanup or t.callee.indirect is not None:
                continue
            nm = t.callee.target_p()
            if nm.endswith("CtOption::<T>::new") and len(t.args) == 2:
                val, choice = t.args[0], t.args[1]
            elif nm.endswith("conditional_select") and len(t.args) == 3:
                val, choice = t.args[1], t.args[2]
            else:
                continue
            vo = closures.norm(du.origin(val))
            # only selections of an account taken from a tracked (account, nullifier) pair
            if not (vo[0] == "field" and vo[2] == ".0" and vo[1][0] in ("arg", "local", "field", "deref")):
                continue
            co = closures.norm(du.origin(choice))
            n += 1
            pair = vo[1]
            good = co[0] == "call" and co[1].endswith("::ct_eq") and len(co[2]) == 2 and \
                ("field", pair, ".1") in [closures.norm(x) for x in co[2]]
            if good:
                chk.ok("ATTRIB", "find_spent: the account of a tracked pair is selected exactly when that pair's nullifier "
                       "equals the spent one", sample=True)
            else:
                chk.fail("ATTRIB", "find_spent/choice", "an account is selected under `%s`, which is not the equality of its own "
                         "pair's nullifier with the spent nullifier" % defuse.show(co)[:100], t.span.loc())
    if n < 1:
        chk.fail("ATTRIB", "site", "no account selection from a tracked (account, nullifier) pair found in find_spent")


def main(tier):
    chk = Check("C05", "other", tier)
    chk.explanation = (
        "Structural clauses of C05 on the scanning code: pool uniformity by copy-paste analysis of "
        "source tokens (PS-1) and MIR argument/parameter tag agreement (PS-3); continuity and "
        "consistency rejections proven unbypassable by assume-analysis (GUARD); bookkeeping order "
        "(ORDER); panic-site inventory for malformed compact fields (PF) with the genuine "
        "server-data panics listed as known findings. Not decided: exactness of trial decryption, "
        "note-position arithmetic, schedule independence of the batch runners.")
    chk.trusted = ["rustc MIR", "Rust lexer for PS-1", "external crates (sapling-crypto, orchard, "
                   "prost) do not panic", "reviewed internal-invariant sites listed in rules/c05.py"]
    chk.rule("PS-1", "sibling pool code is a consistent renaming", floor=150)
    chk.rule("PS-2", "Ironwood code equals its Orchard sibling up to the pool renaming", floor=60)
    chk.rule("PS-3", "pool-tagged arguments bind the same pool's parameters", floor=5)
    chk.rule("GUARD", "continuity / consistency rejections cannot be bypassed", floor=10)
    chk.rule("ORDER", "position bookkeeping runs once per transaction after find_received", floor=2)
    chk.rule("PF", "panic sites reachable from scanning entry points", floor=30)
    chk.rule("PRIOR", "the start tree size is the predecessor's; the block's own metadata is only a "
                      "fallback", floor=1)
    chk.rule("ONCE", "output indices are assigned by one enumeration per transaction", floor=2)
    chk.rule("SCOPE", "a scanning key's ivk, nk and reported scope are one scope's", floor=3)
    chk.rule("OUTIDX", "a found note's index and position come from the enumeration of all outputs", floor=1)
    chk.rule("ATTRIB", "a spend is attributed to the account tracking the matching nullifier", floor=1)
    chk.rule("control", "positive controls", floor=1)

    ps_rules.ps1(chk, FILES)
    ps_rules.ps2(chk, FILES)
    w = zf.World(extract.facts_dir("all"))

    def scan_scope(f):
        return (f.p.startswith("zcash_client_backend::scanning") or
                f.p.startswith("<zcash_client_backend::scanning") or
                f.p.startswith("zcash_client_backend::scan::")) and "::tests::" not in f.p \
            and "::testing" not in f.p
    n3 = ps_rules.ps3(chk, w, scan_scope)
    chk.analysed["ps3_calls"] = n3

    guards(chk, w)
    order(chk, w)
    scope_coherence(chk, w)
    received_index(chk, w)
    spend_attribution(chk, w)
    prior_first(chk, w)
    index_once(chk, w)
    pf(chk, w)
    chk.finish()


def guards(chk, w):
    try:
        sb = w.fn("zcash_client_backend::scanning::compact::scan_block_with_runners")
    except KeyError:
        chk.fail("GUARD", "scan_block_with_runners/missing", "scan_block_with_runners not found")
        return
    body = sb.body
    success = S.find_calls(body, r"::ScannedBlock::<.*>::from_parts$|ScannedBlock::<\w+>::from_parts$")
    if len(success) != 1:
        chk.fail("GUARD", "success-site", "ScannedBlock::from_parts is called at %d sites in "
                 "scan_block_with_runners (expected the single success site)" % len(success),
                 sb.span.loc())
        return
    sbb = success[0][0]
    # who else constructs a ScannedBlock?
    others = []
    for f in w.fns.values():
        if "::tests::" in f.p or "::testing" in f.p or f.crate.name != "zcash_client_backend":
            continue
        for blk in f.body.blocks:
            for s in blk.stmts:
                if s.kind == "=" and s.rv.kind == "agg" and s.rv.agg[0] == "adt" and \
                        s.rv.agg[1].endswith("data_api::ScannedBlock"):
                    if not f.p.endswith("::from_parts"):
                        others.append(f.p)
    if others:
        chk.fail("GUARD", "scannedblock-ctor", "ScannedBlock built outside from_parts: %s" % others)
    else:
        chk.ok("GUARD", "ScannedBlock is built only by from_parts, called at the single success site")

    def must_fail(label, rx, carrier, loc=None):
        calls = S.find_calls(body, rx)
        if len(calls) != 1:
            chk.fail("GUARD", "scan/%s/missing" % label, "call %s found %d times" % (rx, len(calls)),
                     sb.span.loc())
            return
        bb, t = calls[0]
        if not body.dominates(bb, sbb):
            chk.fail("GUARD", "scan/%s/not-dominating" % label, "%s does not dominate the success "
                     "site: a block can be accepted without it" % label, t.span.loc())
            return
        res = S.after_call(body, bb, carrier)
        rets = {rv for _b, rv in res.returns} if res else {"?"}
        reaches_success = res is None or sbb in res.blocks
        if reaches_success or not rets <= {"variant:Err"}:
            chk.fail("GUARD", "scan/" + label, "when %s fails the scan can still succeed (returns %s)"
                     % (label, sorted(rets)), t.span.loc())
        else:
            chk.ok("GUARD", "%s failing forces an Err return before any result is built" % label,
                   sample=True)
    must_fail("check_hash_continuity", r"::check_hash_continuity$", S.E("Option", "Some"))
    must_fail("PositionTracker::for_compact_block", r"PositionTracker>?::for_compact_block",
              S.E("Result", "Err"))
    must_fail("check_end_of_compact_block_consistency", r"::check_end_of_compact_block_consistency$",
              S.E("Result", "Err"))
    # malformed nullifier / output conversions propagate (each map_err'd conversion in the body)
    # every `?` on a Result in the body: assume Err => return Err (no swallowed decode error)
    nq = 0
    for bb, t in body.calls():
        if t.callee.indirect is not None or t.dest is None or t.dest.proj:
            continue
        if not body.local_ty(t.dest.local).startswith("core::result::Result<"):
            continue
        nm = t.callee.target_p()
        if nm.endswith("as core::ops::Try>::branch") or "FromResidual" in nm:
            continue
        res = S.after_call(body, bb, S.E("Result", "Err"))
        rets = {rv for _b, rv in res.returns} if res else {"?"}
        nq += 1
        if res is None or sbb in res.blocks or not rets <= {"variant:Err"}:
            chk.fail("GUARD", "scan/err-swallowed/%s#%d" % (nm.rsplit("::", 1)[-1], nq),
                     "an error of %s does not abort the scan" % nm, t.span.loc())
        else:
            chk.ok("GUARD", "error of %s aborts the scan [%s]" % (nm.rsplit("::", 1)[-1], t.span.loc()))
    # the discontinuity comparisons themselves
    chc = [f for f in w.fns.values() if f.p.endswith("scan_block_with_runners::check_hash_continuity")]
    if not chc:
        chk.fail("GUARD", "check_hash_continuity/missing", "check_hash_continuity not found")
        return
    c = chc[0]
    du = defuse.DefUse(c.body)
    found = {}
    for bb, t in c.body.calls():
        if t.callee.indirect is None and re.search(r"core::cmp::PartialEq::(ne|eq)$", t.callee.p or ""):
            o = [defuse.show(du.origin(a)) for a in t.args]
            isne = t.callee.p.endswith("::ne")
            res = S.after_call(c.body, bb, S.B(isne))
            aggs = {a.rv.agg[2] for _b, a in res.aggs if a.rv.agg[1].endswith("ScanError")}
            rets = {rv for _b, rv in res.returns}
            txt = " vs ".join(o)
            if "height" in txt and "prev_hash" not in txt:
                found["height"] = (aggs, rets, txt, t.span.loc())
            elif "hash" in txt:
                found["hash"] = (aggs, rets, txt, t.span.loc())
    for what, variant, needles in (("height", "BlockHeightDiscontinuity", ("height(", "block_height(", "1")),
                                   ("hash", "PrevHashMismatch", ("prev_hash(", "block_hash("))):
        if what not in found:
            chk.fail("GUARD", "continuity/%s/missing" % what, "the %s continuity comparison is gone"
                     % what, c.span.loc())
            continue
        aggs, rets, txt, loc = found[what]
        if variant in aggs and rets <= {"variant:Some"} and all(n in txt for n in needles):
            chk.ok("GUARD", "%s discontinuity (%s) => Some(%s)" % (what, txt[:90], variant), sample=True)
        else:
            chk.fail("GUARD", "continuity/" + what, "%s mismatch (%s) does not yield %s (aggs %s, "
                     "returns %s)" % (what, txt[:90], variant, sorted(aggs), sorted(rets)), loc)
    # end-of-block consistency: three tree-size comparisons, each => TreeSizeMismatch
    ce = [f for f in w.fns.values() if f.p.endswith("::check_end_of_compact_block_consistency")
          and "::tests::" not in f.p]
    if ce:
        f = ce[0]
        du = defuse.DefUse(f.body)
        pools = set()
        for bi, blk in enumerate(f.body.blocks):
            for si, s in enumerate(blk.stmts):
                if s.kind == "=" and s.rv.kind == "bin" and s.rv.op in ("Ne", "Eq"):
                    o = [defuse.show(du.origin(a)) for a in s.rv.ops]
                    res = S.explore(f.body, bi, {}, inject={(bi, si): S.B(s.rv.op == "Ne")})
                    rets = {rv for _b, rv in res.returns}
                    txt = " ".join(o)
                    for tag in ("sapling", "orchard", "ironwood"):
                        if ("%s_tree_position" % tag in txt or "%s_final_tree_size" % tag in txt) and \
                                "%s_commitment_tree_size" % tag in txt and rets <= {"variant:Err"}:
                            pools.add(tag)
        # ... and each comparison is made whenever chain metadata is present: what decides whether it
        # runs is only the presence of the metadata and the earlier comparisons having passed
        import guards as G
        cmp_blocks = {}
        for bi, blk in enumerate(f.body.blocks):
            for s in blk.stmts:
                if s.kind == "=" and s.rv.kind == "bin" and s.rv.op in ("Ne", "Eq") and not s.place.proj:
                    txt = " ".join(defuse.show(du.origin(a)) for a in s.rv.ops)
                    if "_commitment_tree_size" in txt:
                        cmp_blocks[s.place.local] = (bi, txt)
        extra = []
        for loc_, (bi, txt) in sorted(cmp_blocks.items()):
            for sw, v, _tb in G.edge_conditions(f.body, bi):
                d = f.body.blocks[sw].term.discr
                o = du.origin(d)
                r = du.root_local(d.place) if d.kind in ("copy", "move") else None
                if r and len(r) == 2 and r[1] in cmp_blocks:
                    continue            # an earlier comparison of the family
                if o[0] == "disc" and defuse.strip_refs(o[1])[0] in ("arg", "field"):
                    continue            # chain metadata present
                tsw = f.body.blocks[sw].term
                others = [tb2 for v2, tb2 in list(tsw.arms) + [("else", tsw.otherwise)] if tb2 is not None and v2 != v]
                rets = set(f.body.exits())
                if not any(rets & f.body.reachable(o2) for o2 in others):
                    continue            # the other way out of this test never returns (assertion)
                extra.append("%s only under `%s`" % (txt[:60], defuse.show(o)[:80]))
        if extra:
            chk.fail("GUARD", "end-consistency/conditional", "an end-of-block tree-size comparison is skipped under a "
                     "further condition: %s — a mismatch can be accepted silently" % "; ".join(sorted(set(extra))[:3]),
                     f.span.loc())
        elif len(cmp_blocks) >= 3:
            chk.ok("GUARD", "the %d end-of-block tree-size comparisons run whenever chain metadata is present"
                   % len(cmp_blocks))
        if pools == {"sapling", "orchard", "ironwood"}:
            chk.ok("GUARD", "end-of-block tree-size mismatch is an error for all three pools",
                   sample=True)
        else:
            chk.fail("GUARD", "end-consistency/pools", "end-of-block tree size is compared with the "
                     "chain metadata only for %s" % sorted(pools), f.span.loc())
    else:
        chk.fail("GUARD", "end-consistency/missing", "check_end_of_compact_block_consistency not found")


def scope_coherence(chk, w):
    """A scanning key recognises and nullifies the notes of ONE key scope: the scope its incoming
    viewing key is derived for, the scope its nullifier key is derived for (where the pool's
    nullifier key depends on the scope) and the scope it reports are the same value."""
    SK = "zcash_client_backend::scanning::ScanningKey"
    n = 0
    for f in sorted(w.fns.values(), key=lambda f: f.p):
        if "::tests::" in f.p or "::testing" in f.p or f.p.endswith("ScanningKey::<Ivk, Nk, AccountId>::new"):
            continue
        b = f.body
        du = None
        for blk in b.blocks:
            if blk.cleanup:
                continue
            for s in blk.stmts:
                if not (s.kind == "=" and s.rv.kind == "agg" and s.rv.agg[0] == "adt" and s.rv.agg[1] == SK):
                    continue
                if du is None:
                    class _D(defuse.DefUse):
                        MAXD = 80
                    du = _D(b)
                n += 1
                src = {}
                for fld, op in zip(s.rv.agg[3], s.rv.ops):
                    if fld not in ("ivk", "nk", "key_scope"):
                        continue
                    txt = defuse.show(du.origin(op))
                    loopel = re.findall(r"\(next\(&into_iter\(array\{(?:zip32::Scope::\w+\{\}(?:, )?)+\}\)\) as Some\)\.0", txt)
                    rest = txt
                    for x in set(loopel):
                        rest = rest.replace(x, "LOOP")
                    consts = re.findall(r"zip32::Scope::(\w+)\{\}", rest)
                    locs = re.findall(r"\b(?:scope|key_scope)\b", rest)
                    ss = set()
                    if loopel:
                        ss.add("the loop's scope")
                    ss |= {"Scope::" + c for c in consts}
                    src[fld] = ss
                allsrc = set().union(*src.values()) if src else set()
                key = "%s@%d" % (f.p.rsplit("::", 1)[-1], n)
                if len(allsrc) <= 1 and src.get("ivk") and src.get("key_scope") == src.get("ivk"):
                    chk.ok("SCOPE", "%s [%s]: ivk, nk and the reported key scope derive from %s"
                           % (f.p.rsplit("::", 1)[-1], s.span.loc(), next(iter(allsrc)) if allsrc else "no scope"),
                           sample=(n == 1))
                else:
                    chk.fail("SCOPE", key, "a scanning key mixes key scopes: ivk from %s, nk from %s, reported scope %s — "
                             "notes are found under one scope and nullified under another" % (
                                 sorted(src.get("ivk", [])), sorted(src.get("nk", [])), sorted(src.get("key_scope", []))),
                             s.span.loc())
    if n == 0:
        chk.fail("SCOPE", "missing", "no construction of ScanningKey found")


def order(chk, w):
    try:
        sb = w.fn("zcash_client_backend::scanning::compact::scan_block_with_runners")
    except KeyError:
        return
    body = sb.body
    inc = S.find_calls(body, r"::increment_over_compact_tx$")
    fr = S.find_calls(body, r"::find_received$")
    if len(inc) != 1 or len(fr) < 3:
        chk.fail("ORDER", "sites", "increment_over_compact_tx x%d, find_received x%d in the scan loop"
                 % (len(inc), len(fr)), sb.span.loc())
        return
    ib = inc[0][0]
    if all(body.dominates(b, ib) for b, _t in fr):
        chk.ok("ORDER", "the %d find_received calls all dominate increment_over_compact_tx: positions "
               "advance only after the transaction's outputs were located" % len(fr), sample=True)
    else:
        chk.fail("ORDER", "inc-before-find", "increment_over_compact_tx is not dominated by every "
                 "find_received call", inc[0][1].span.loc())
    # every path around the loop passes the increment: from a find_received block, the loop header
    # (the iterator's next call) is not reachable without passing ib
    nxt = [b for b, t in body.calls() if t.callee.indirect is None and
           re.search(r"Iterator>?::next$", t.callee.target_p()) and
           b in body.reachable(fr[0][0])]
    ok = True
    for hb in nxt:
        if not body.dominates(hb, fr[0][0]):
            continue
        seen = set()
        q = [fr[-1][0]]
        while q:
            x = q.pop()
            if x in seen or x == ib:
                continue
            seen.add(x)
            q.extend(body.succs(x))
        if hb in seen:
            ok = False
    if ok:
        chk.ok("ORDER", "no path continues the transaction loop without incrementing the position "
               "tracker")
    else:
        chk.fail("ORDER", "skip-increment", "a path continues to the next transaction without "
                 "increment_over_compact_tx: later note positions would be wrong", sb.span.loc())


def pf(chk, w):
    entries = [f for f in w.fns.values() if re.search(ENTRY_RX, f.p)]
    if len(entries) < 3:
        chk.fail("PF", "entries", "scanning entry points not found (%d)" % len(entries))
        return

    def scope(f):
        return f.crate.name in ("zcash_client_backend", "zcash_protocol", "zcash_primitives",
                                "zcash_keys", "zcash_transparent", "zcash_address") and \
            "::testing" not in f.p and "::tests::" not in f.p
    sites, parent, reached = panics.reachable_sites(w, entries, scope)
    chk.analysed.update({"functions_reachable_from_scan_entry_points": len(reached),
                         "class_A_sites": len([1 for _f, s, _k in sites if s["cls"] == "A"]),
                         "class_B_sites_inventoried_not_armed":
                             len([1 for _f, s, _k in sites if s["cls"] == "B"])})
    import pf_stable
    pf_stable.extend(REVIEWED)
    for f, s, key in sites:
        key = panics.resolve_key(REVIEWED, key, s)
        if s["cls"] != "A":
            continue
        loc = s["span"].loc()
        auto = panics.auto_discharge(f, s)
        if auto:
            chk.ok("PF", "%s [%s]: %s" % (key, loc, auto))
        elif key in REVIEWED:
            chk.ok("PF", "%s [%s]: reviewed — %s" % (key, loc, REVIEWED[key]))
            chk.exception("PF", key, REVIEWED[key])
        else:
            path = [w.fns[x].p for x in w.path_to(parent, f.id)]
            chk.fail("PF", key, "panic site (%s %s) reachable from the scanning entry points: a "
                     "malformed or out-of-range compact-block field panics instead of yielding a "
                     "ScanError" % (s["kind"], s["detail"]), loc, path[-4:])
    chk.ok("control", "panic inventory non-empty (%d sites)" % len(sites)) if sites else \
        chk.fail("control", "pf-empty", "no panic sites found at all: the inventory is blind")


def prior_first(chk, w):
    """tree-size continuity can only be checked if the start size comes from the PREDECESSOR when
    it is known: every read of the block's own chain_metadata in tree_sizes_around must be
    control-dependent on the prior size being absent (inside the default branch taken for None)"""
    fs = [f for f in w.fns.values() if f.p.endswith("for_compact_block::tree_sizes_around")
          and "::tests::" not in f.p]
    if len(fs) != 1:
        chk.fail("PRIOR", "tree_sizes_around/missing", "tree_sizes_around not found (%d)" % len(fs))
        return
    f = fs[0]
    try:
        ip, ifn = f.argnames.index("prior_block_metadata"), f.argnames.index("prior_tree_size")
    except ValueError:
        chk.fail("PRIOR", "tree_sizes_around/params", "parameters prior_block_metadata / "
                 "prior_tree_size not found", f.span.loc())
        return
    du = defuse.DefUse(f.body)

    def is_prior(o):
        t = defuse.show(o)
        return "arg%d" % ip in t and ("arg%d" % ifn in t or "prior_tree_size" in t)
    clos = {c: w.fns[c] for c in w.reach([f.id], stop=lambda x: not (w.fns[x].is_closure() and
                                                                      w.fns[x].root == f.id)
                                          and x != f.id)[0] if c in w.fns}

    def reads_meta(g):
        out = []
        for bi, blk in enumerate(g.body.blocks):
            for s in blk.stmts:
                if s.kind != "=":
                    continue
                pls = [o.place for o in s.rv.ops if o.kind in ("copy", "move")]
                if s.rv.kind in ("ref", "disc"):
                    pls.append(s.rv.place)
                if any(".chain_metadata" in pl.proj for pl in pls):
                    out.append((bi, s))
        return out
    # closures that run only when the prior size is None: the default argument of
    # map_or_else / unwrap_or_else / or_else / ok_or_else whose receiver is the prior size
    none_only = set()
    some_arm_blocks = None
    for bb, t in f.body.calls():
        if t.callee.indirect is not None:
            continue
        n = t.callee.target_p()
        if re.search(r"Option::<T>::(map_or_else|unwrap_or_else|or_else|ok_or_else)$", n) and t.args \
                and is_prior(du.origin(t.args[0])):
            dflt = defuse.strip_refs(du.origin(t.args[1]))
            if dflt[0] == "agg" and dflt[1].startswith("closure:"):
                root = dflt[1][len("closure:"):]
                seen, _ = w.reach([root], stop=lambda x: not w.fns[x].is_closure())
                none_only |= {x for x in seen if x in w.fns and w.fns[x].is_closure()}
    # switches on the prior size in the main body: blocks dominated by the None arm
    none_dom = set()
    for sb, blk in enumerate(f.body.blocks):
        if blk.term.kind != "switch":
            continue
        for s in blk.stmts:
            if s.kind == "=" and s.rv.kind == "disc" and is_prior(du.origin_place(s.rv.place)):
                arms = dict(blk.term.arms)
                tgt = arms.get(0, blk.term.otherwise)
                for b in range(len(f.body.blocks)):
                    if f.body.dominates(tgt, b) and tgt != arms.get(1, -1):
                        none_dom.add(b)
    bad = []
    nreads = 0
    for g in [f] + [c for c in clos.values() if c.id != f.id]:
        for bi, s in reads_meta(g):
            nreads += 1
            if g.id == f.id:
                if bi not in none_dom:
                    bad.append((g, s))
            elif g.id not in none_only:
                bad.append((g, s))
    if nreads == 0:
        chk.fail("PRIOR", "no-metadata-read", "tree_sizes_around no longer reads chain_metadata: the "
                 "rule's anchor changed", f.span.loc())
    elif bad:
        g, s = bad[0]
        chk.fail("PRIOR", "metadata-before-prior", "the block's own chain_metadata is consulted (in %s) "
                 "without first establishing that the predecessor's tree size is unknown: a start size "
                 "taken from the block's own metadata makes the end-of-block TreeSizeMismatch check "
                 "vacuous" % g.p.rsplit("::", 2)[-1], s.span.loc())
    else:
        chk.ok("PRIOR", "all %d reads of chain_metadata in tree_sizes_around happen only when the "
               "predecessor's tree size is absent" % nreads, sample=True)


def index_once(chk, w):
    """Batch::add_outputs numbers outputs from 0 by enumeration; a transaction's outputs must be
    handed to it in ONE call (not chunk-wise in a loop), or batched results carry indices that
    differ from the inline path"""
    po = [f for f in w.fns.values() if re.search(r"scan::BatchRunner::<.*>::process_outputs$", f.p)]
    ao = [f for f in w.fns.values() if re.search(r"scan::Batch::<.*>::add_outputs$", f.p)]
    if len(po) != 1 or len(ao) != 1:
        chk.fail("ONCE", "anchors", "process_outputs / Batch::add_outputs not found (%d, %d)"
                 % (len(po), len(ao)))
        return
    import sqlfx
    f = po[0]
    calls = [(bb, t) for bb, t in f.body.calls() if t.callee.indirect is None and
             t.callee.target_id() == ao[0].id]
    cyc = sqlfx.cyclic_blocks(f.body)
    inclos = [c for c in w.callees(f.id) if c in w.fns and w.fns[c].is_closure() and
              any(t.callee.indirect is None and t.callee.target_id() == ao[0].id
                  for _b, t in w.fns[c].body.calls())]
    if len(calls) == 1 and calls[0][0] not in cyc and not inclos:
        du = defuse.DefUse(f.body)
        o = defuse.show(defuse.strip_refs(du.origin(calls[0][1].args[2])))
        if "arg2" in o:
            chk.ok("ONCE", "process_outputs passes the transaction's whole output sequence to "
                   "Batch::add_outputs in a single call", sample=True)
        else:
            chk.fail("ONCE", "process_outputs/partial", "Batch::add_outputs receives %s, not the whole "
                     "output sequence" % o, calls[0][1].span.loc())
    else:
        chk.fail("ONCE", "process_outputs/chunked", "Batch::add_outputs is called %d time(s)%s from "
                 "process_outputs: outputs handed over in several calls are numbered from 0 each time, "
                 "so batched results disagree with the inline path" %
                 (len(calls) + len(inclos), " in a loop" if any(b in cyc for b, _ in calls) else ""),
                 f.span.loc())
    # add_outputs itself: the index is the enumeration index of its `outputs` parameter
    g = ao[0]
    en = [t for _b, t in g.body.calls() if t.callee.indirect is None and
          re.search(r"::enumerate$", t.callee.target_p())]
    if len(en) == 1:
        chk.ok("ONCE", "Batch::add_outputs assigns indices by a single enumeration")
    else:
        chk.fail("ONCE", "add_outputs/enumerate", "Batch::add_outputs no longer numbers outputs by one "
                 "enumeration (%d)" % len(en), g.span.loc())
