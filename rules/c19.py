"""C19 — Equihash verification accepts exactly the valid solutions (structural clauses).

Decided:
  PF   no panic reachable from `is_valid_solution` for any (n, k, input, nonce, soln): every
       class-A panic site in its call closure is discharged automatically, or by a reviewed
       entry whose supporting guards are themselves checked on every run
  G    the guards those entries rely on: Params::new admits only representable parameters
       (abstract interpretation of its MIR), Params is built nowhere else, indices_from_minimal
       yields Some only for the exact length, parameter/length failures precede verification
  ACC  acceptance requires every check: assuming any of has_collision / ordering /
       distinct_indices / root-is-zero / sub-tree validation fails, no Ok return is reachable
  ARG  the byte lengths used by the checks are exactly collision_byte_length(), the expansion
       widths exactly collision_bit_length() (+1 for the index encoding)
Not decided: agreement with the mathematical definition (hash collisions), bit sensitivity.
"""
import re

import absint as A
import assume as S
import defuse
import extract
import panics
import zf
from common import Check

PARAMS = "equihash::params::Params"

# reviewed class-A sites: key -> (reason, guards it relies on)
REVIEWED = {
    "equihash::minimal::expand_array/panic:assert#1":
        ("bit_len >= 8: callers pass collision_bit_length() (>= 8) or that + 1", ["G-params", "ARG-expand"]),
    "equihash::minimal::expand_array/panic:assert#2":
        ("32 >= 7 + bit_len: bit_len <= 25", ["G-params", "ARG-expand"]),
    "equihash::minimal::expand_array/divzero:DivisionByZero#1":
        ("divisor bit_len >= 8", ["G-params", "ARG-expand"]),
    "equihash::minimal::expand_array/index-call:IndexMut<I>>#1":
        ("j advances by out_width once per complete group of bit_len input bits, and "
         "out_width*floor(8*len/bit_len) <= out_len", []),
    "equihash::minimal::indices_from_minimal/divzero:DivisionByZero#1":
        ("divisor collision_bit_length()+1 >= 9", ["G-params"]),
    "equihash::minimal::indices_from_minimal/divzero:DivisionByZero#2":
        ("divisor collision_bit_length()+1 >= 9", ["G-params"]),
    "equihash::minimal::indices_from_minimal/panic:assert#1":
        ("(c+1).div_ceil(8) <= 4 because c + 1 <= 25", ["G-params"]),
    "equihash::params::Params::collision_bit_length/divzero:DivisionByZero#1":
        ("k + 1 >= 4", ["G-params", "G-closed"]),
    "equihash::params::Params::indices_per_hash_output/divzero:DivisionByZero#1":
        ("n >= 8", ["G-params", "G-closed"]),
    "equihash::params::Params::new/divzero:DivisionByZero#1":
        ("discharged by the abstract interpretation of Params::new (k + 1 >= 4 on that path)",
         ["G-params"]),
    "equihash::verify::generate_hash/unwrap:unwrap:Result#1":
        ("writes the 4 bytes of a u32 into a 4-byte array", []),
    "equihash::verify::generate_hash/index-call:[T; N][I]#1":
        ("full-range slice of a fixed array", []),
    "equihash::verify::tree_validator/index-call:[T][I]#1":
        ("0..mid with mid = len/2 <= len", []),
    "equihash::verify::tree_validator/index-call:[T][I]#2":
        ("mid..end with mid <= end = len", []),
    "equihash::verify::tree_validator/bounds:index#1":
        ("indices[0] in the len <= 1 branch: the top-level slice has 2^k >= 8 indices and halves "
         "of a slice longer than 1 are non-empty", ["G-len", "G-order"]),
    "equihash::verify::Node::indices_before/index-call:Index<I>>#1":
        ("Node.indices is never empty: Node::new builds vec![i], from_children concatenates", []),
    "equihash::verify::Node::indices_before/index-call:Index<I>>#2":
        ("Node.indices is never empty", []),
    "equihash::verify::Node::new/divzero:DivisionByZero#1":
        ("indices_per_hash_output() = 512/n >= 1 because n <= 512", ["G-params", "G-closed"]),
    "equihash::verify::Node::new/divzero:RemainderByZero#1":
        ("indices_per_hash_output() >= 1", ["G-params", "G-closed"]),
    "equihash::verify::Node::new/index-call:[T][I]#1":
        ("start+n/8 <= (512/n)*n/8 = hash length", ["G-params", "G-closed"]),
}


def _is_len(x):
    return x.startswith("len(") or "PtrMetadata(arg1)" in x


def rule_explen(chk, w):
    """expand_array's callers cut its result into fixed-width items, so the result must have the
    length the function computes for it (`out_len`): every returned vector is either the buffer
    allocated with that length, or the input itself on the edge where `out_len == vin.len()` was
    tested for the same `out_len`."""
    import guards as G
    fs = w.by_p.get("equihash::minimal::expand_array", [])
    if len(fs) != 1:
        chk.fail("LEN", "missing", "minimal::expand_array not found")
        return
    f = fs[0]
    b, du = f.body, defuse.DefUse(f.body)
    # the allocated buffer and its length operand
    alloc = [(bb, t) for bb, t in b.calls() if not b.blocks[bb].cleanup and t.callee.indirect is None and
             t.callee.target_p().endswith("vec::from_elem")]
    if len(alloc) != 1 or alloc[0][1].dest is None:
        chk.fail("LEN", "alloc", "expected one `vec![0; out_len]` allocation, found %d" % len(alloc), f.span.loc())
        return
    buf = alloc[0][1].dest.local
    r = du.root_local(alloc[0][1].args[1].place) if alloc[0][1].args[1].kind in ("copy", "move") else None
    out_len = r[1] if r and len(r) == 2 else None
    if out_len is None:
        chk.fail("LEN", "out_len", "the allocation length is not a single-definition value", f.span.loc())
        return
    bad, n = [], 0
    for kind, bi, x in du.defs.get(0, []):
        n += 1
        if kind == "stmt" and x.rv.kind == "use" and x.rv.ops[0].kind in ("copy", "move"):
            rr = du.root_local(x.rv.ops[0].place)
            if rr and len(rr) == 2 and rr[1] == buf:
                continue                  # the allocated buffer
            bad.append("returns %s" % defuse.show(du.origin(x.rv.ops[0]))[:60])
        elif kind == "call" and x.callee.indirect is None and x.callee.target_p().endswith("::to_vec") and \
                defuse.strip_refs(du.origin(x.args[0])) == ("arg", 0):
            ok = False
            for sw, v, _tb in G.edge_conditions(b, bi):
                d = b.blocks[sw].term.discr
                dd = du.single(d.place.local) if d.kind in ("copy", "move") and not d.place.proj else None
                if not (dd and dd[0] == "stmt" and dd[2].rv.kind == "bin" and dd[2].rv.op == "Eq"):
                    continue
                if G.truth(b.blocks[sw].term, v) is not True:
                    continue
                ops = dd[2].rv.ops
                roots = []
                for o_ in ops:
                    rr = du.root_local(o_.place) if o_.kind in ("copy", "move") else None
                    roots.append(rr[1] if rr and len(rr) == 2 else None)
                txts = [defuse.show(du.origin(o_)) for o_ in ops]
                if out_len in roots and any(re.match(r"^len\(&?\*?arg0\)$", t) for t in txts):
                    ok = True
            if not ok:
                bad.append("returns the input unchanged without `out_len == vin.len()` having been tested")
        else:
            bad.append("returns a value of unknown length")
    if not bad and n >= 2:
        chk.ok("LEN", "expand_array returns either the out_len-sized buffer or, where out_len == vin.len(), the input "
               "(%d return definitions)" % n, sample=True)
    else:
        chk.fail("LEN", "expand_array", "expand_array %s: its result no longer has the length its callers cut into "
                 "fixed-width items" % "; ".join(bad or ["has too few return definitions"]), f.span.loc())


def _distinct_by_any(w, di):
    """the combinator form of the pairwise comparison: the result is the negation of
    `any` over one node's indices of `any` over the other's of the equality of the two elements"""
    import closures
    du = closures.deep()(di.body)
    o = closures.norm(du.origin_local(0))
    if not (o[0] == "un" and o[1] == "Not"):
        return False

    def any_of(x, elem):
        """(container, predicate result with the element named `elem`) for Iterator::any(iter(container), closure)"""
        if not (x[0] == "call" and x[1].endswith("::any") and len(x[2]) == 2):
            return None
        it, cl = x[2]
        while it[0] == "call" and re.search(r"::(iter|into_iter|copied|cloned)$", it[1]) and it[2]:
            it = closures.norm(it[2][0])
        r = closures.closure_result(w, cl, [(elem,)])
        return (it, closures.norm(r)) if r is not None else None
    outer = any_of(o[2], "i")
    if outer is None:
        return False
    inner = any_of(outer[1], "j")
    if inner is None:
        return False
    conts = {outer[0], inner[0]}
    cmp_ = inner[1]
    eq = (cmp_[0] == "call" and re.search(r"PartialEq.*::eq$|::eq$", cmp_[1]) and
          {closures.norm(a) for a in cmp_[2]} == {("i",), ("j",)}) or \
         (cmp_[0] == "bin" and cmp_[1] == "Eq" and {cmp_[2], cmp_[3]} == {("i",), ("j",)})
    return bool(eq) and conts == {("field", ("arg", 0), ".indices"), ("field", ("arg", 1), ".indices")}


def main(tier):
    chk = Check("C19", "other", tier)
    chk.explanation = (
        "Decides the structural clauses of C19 on the MIR of the equihash crate: no panic is "
        "reachable from is_valid_solution (panic-site inventory + automatic discharge + reviewed "
        "entries tied to checked guards; Params::new analysed by abstract interpretation), and an "
        "Ok result is unreachable once any individual check fails (assume-analysis), with the "
        "lengths used by the checks tied to collision_byte_length(). Not decided: that the "
        "checks coincide with the mathematical definition, single-bit sensitivity.")
    chk.trusted = ["rustc MIR", "blake2b_simd and corez do not panic", "reviewed arithmetic "
                   "arguments listed in rules/c19.py (each named in the evidence)"]
    chk.rule("PF", "no class-A panic site reachable from is_valid_solution is undischarged", floor=20)
    chk.rule("G", "guards the reviewed entries rely on", floor=6)
    chk.rule("ACC", "Ok is unreachable once any individual check fails", floor=8)
    chk.rule("ARG", "lengths/widths are exactly the Params accessors", floor=5)
    chk.rule("LEN", "expand_array's result has the length it computes", floor=1)
    chk.rule("control", "positive controls", floor=2)

    w = zf.World(extract.facts_dir("all"), ["equihash"])
    try:
        entry = w.fn("equihash::verify::is_valid_solution")
    except KeyError:
        chk.infra("equihash::verify::is_valid_solution not found")
    guards = {}

    # ------------------------------------------------------------------ G-closed
    ctor_sites = []
    for f in w.fns.values():
        for b in f.body.blocks:
            for s in b.stmts:
                if s.kind == "=" and s.rv.kind == "agg" and s.rv.agg[0] == "adt" and s.rv.agg[1] == PARAMS:
                    ctor_sites.append((f, s))
    bad = [(f, s) for f, s in ctor_sites if f.p != "equihash::params::Params::new" and not f.derived]
    if ctor_sites and not bad:
        chk.ok("G", "G-closed: Params is constructed only in Params::new (%d site)" % len(ctor_sites))
        guards["G-closed"] = True
    else:
        guards["G-closed"] = False
        chk.fail("G", "G-closed", "Params constructed outside Params::new: %s"
                 % [(f.p, s.span.loc()) for f, s in bad])
    # fields are never assigned after construction
    for f in w.fns.values():
        for b in f.body.blocks:
            for s in b.stmts:
                if s.kind == "=" and s.place.proj and s.place.proj[-1] in (".n", ".k") and \
                        PARAMS in f.body.local_ty(s.place.local):
                    guards["G-closed"] = False
                    chk.fail("G", "G-closed/store/" + f.p, "field of Params overwritten", s.span.loc())

    # ------------------------------------------------------------------ G-params (absint)
    pn = w.fn("equihash::params::Params::new")
    it = A.Interp(w, lambda f: f.p.startswith("equihash::params::"), {})
    r = it.analyse(pn)
    n_key = A.p_key(A.p_sym(("arg", 0)))
    k_key = A.p_key(A.p_sym(("arg", 1)))
    kp1 = A.p_add(A.p_sym(("arg", 1)), A.p_const(1))
    c_key = A.p_key(A.p_sym(("div", n_key, A.p_key(kp1))))
    okp = isinstance(r, A.AEnum) and "Some" in r.variants and "None" in r.variants
    facts_ok = okp
    detail = ""
    if okp:
        for g in r.variants["Some"][1]:
            ns, ks, cs = g.get(n_key), g.get(k_key), g.get(c_key)
            if ns is None or not ns.subset(A.IntSet.of(1, 512)):
                facts_ok = False
                detail += " n may be %s;" % ns
            krel = g.get(A.p_key(A.p_add(A.p_sym(("arg", 1)), A.p_sym(("arg", 0)), -1)))
            if ks is None or not ks.subset(A.IntSet.of(3, A.POS_INF)) or krel is None or \
                    not krel.subset(A.IntSet.of(A.NEG_INF, -1)):
                facts_ok = False
                detail += " k may be %s with k-n in %s;" % (ks, krel)
            if cs is None or not cs.subset(A.IntSet.of(8, 24)):
                facts_ok = False
                detail += " n/(k+1) may be %s;" % cs
    pn_panics = [s for s in it.sites if s.kind == "panic"]
    if facts_ok and not pn_panics and not it.undecided:
        chk.ok("G", "G-params: Params::new yields Some only if n in [1,512], k >= 3 and "
               "n/(k+1) in [8,24]; it cannot panic (abstract interpretation)", sample=True)
        guards["G-params"] = True
    else:
        guards["G-params"] = False
        chk.fail("G", "G-params", "Params::new does not establish the representability bounds "
                 "the verifier's arithmetic needs (n<=512, 8<=n/(k+1)<=24):%s panics=%d %s"
                 % (detail, len(pn_panics), it.undecided), pn.span.loc())
    # accessor bodies are what the guards talk about
    acc_ok = True
    cbl = w.fn("equihash::params::Params::collision_bit_length")
    pinv = {PARAMS: {"n": A.IntSet.of(1, 512), "k": A.IntSet.of(3, 511)}}   # = G-params + G-closed
    it2 = A.Interp(w, lambda f: False, pinv)
    r2 = it2.analyse(cbl)
    want = A.p_key(A.p_sym(("div", A.p_key(A.p_sym(("arg", 0, "*", "n"))),
                            A.p_key(A.p_add(A.p_sym(("arg", 0, "*", "k")), A.p_const(1))))))
    if isinstance(r2, A.AInt) and r2.lin is not None and A.p_key(r2.lin) == want:
        chk.ok("G", "collision_bit_length() = n / (k + 1) exactly")
    else:
        acc_ok = False
        chk.fail("G", "G-params/collision_bit_length", "collision_bit_length() is %r, not n/(k+1)" % (r2,),
                 cbl.span.loc())
    iph = w.fn("equihash::params::Params::indices_per_hash_output")
    it3 = A.Interp(w, lambda f: False, pinv)
    r3 = it3.analyse(iph)
    want3 = A.p_key(A.p_sym(("div", A.p_key(A.p_const(512)), A.p_key(A.p_sym(("arg", 0, "*", "n"))))))
    if isinstance(r3, A.AInt) and r3.lin is not None and A.p_key(r3.lin) == want3:
        chk.ok("G", "indices_per_hash_output() = 512 / n exactly")
    else:
        acc_ok = False
        chk.fail("G", "G-params/indices_per_hash_output", "indices_per_hash_output() is %r" % (r3,),
                 iph.span.loc())
    guards["G-params"] = guards["G-params"] and acc_ok

    # ------------------------------------------------------------------ G-len
    ifm = w.fn("equihash::minimal::indices_from_minimal")
    du = defuse.DefUse(ifm.body)
    ne_sites = []
    for bi, blk in enumerate(ifm.body.blocks):
        for si, s in enumerate(blk.stmts):
            if s.kind == "=" and s.rv.kind == "bin" and s.rv.op in ("Ne", "Eq"):
                o = [defuse.show(du.origin(x)) for x in s.rv.ops]
                if any(_is_len(x) for x in o):
                    ne_sites.append((bi, si, s, o))
    glen = False
    if len(ne_sites) == 1:
        bi, si, s, o = ne_sites[0]
        differ = s.rv.op == "Ne"
        res = S.explore(ifm.body, bi, {}, inject={(bi, si): S.B(True if differ else False)})
        somes = [a for _bb, a in res.aggs if a.rv.agg[1] == "core::option::Option"
                 and a.rv.agg[2] == "Some"]
        rets = {rv for _bb, rv in res.returns}
        if not somes and rets <= {"variant:None"} and not res.too_big:
            other = ([x for x in o if not _is_len(x)] or ["?"])[0]
            clos_calls = [t.callee.target_p() for c in w.callees(ifm.id) if w.fns[c].is_closure()
                          for _b, t in w.fns[c].body.calls() if t.callee.indirect is None]
            okexpr = ("checked_shl(1, arg0.k)" in other and "collision_bit_length" in other and
                      "Div 8" in other and
                      ("checked_mul" in other or any(c.endswith("::checked_mul") for c in clos_calls)))
            if okexpr:
                glen = True
                chk.ok("G", "G-len: indices_from_minimal returns None whenever soln.len() differs "
                       "from %s" % other, sample=True)
            else:
                chk.fail("G", "G-len/expr", "expected-length expression is %s (not the checked "
                         "(1<<k)*(c+1)/8)" % other, s.span.loc())
        else:
            chk.fail("G", "G-len", "with a wrong length, Some/other return still reachable: %s" % rets,
                     s.span.loc())
    else:
        chk.fail("G", "G-len/missing", "length comparison in indices_from_minimal not found "
                 "(%d candidates)" % len(ne_sites), ifm.span.loc())
    guards["G-len"] = glen

    # ------------------------------------------------------------------ G-order + ACC
    def assume_call(fn, callee_rx, carrier, what, must_not_call=None, rule="ACC",
                    want_ret=("variant:Err",)):
        calls = S.find_calls(fn.body, callee_rx)
        if not calls:
            chk.fail(rule, "%s/%s/missing" % (fn.p, what), "call matching %s not found in %s"
                     % (callee_rx, fn.p), fn.span.loc())
            return False
        allok = True
        for i, (bb, t) in enumerate(calls):
            res = S.after_call(fn.body, bb, carrier)
            key = "%s/%s#%d" % (fn.p, what, i + 1)
            if res is None or res.too_big:
                chk.fail(rule, key, "undecided", t.span.loc())
                allok = False
                continue
            rets = {rv for _bb, rv in res.returns}
            badret = [x for x in rets if x not in want_ret]
            reached_forbidden = [c for _b, c in res.calls
                                 if must_not_call and c.callee.indirect is None
                                 and re.search(must_not_call, c.callee.target_p())]
            if badret or reached_forbidden:
                allok = False
                chk.fail(rule, key, "assuming %s, a return carrying %s is reachable%s"
                         % (what, badret, (" and %s is still called" % must_not_call)
                            if reached_forbidden else ""), t.span.loc())
            else:
                chk.ok(rule, "%s: assuming %s, only %s returns are reachable" % (fn.p, what, sorted(rets)),
                       sample=True)
        return allok

    g1 = assume_call(entry, r"::Params::new$", S.E("Option", "None"), "Params::new = None",
                     must_not_call=r"is_valid_solution_recursive|indices_from_minimal", rule="G")
    g2 = assume_call(entry, r"::indices_from_minimal$", S.E("Option", "None"),
                     "indices_from_minimal = None", must_not_call=r"is_valid_solution_recursive",
                     rule="G")
    guards["G-order"] = g1 and g2

    vs = w.fn("equihash::verify::validate_subtrees")
    assume_call(vs, r"::has_collision$", S.B(False), "has_collision = false")
    assume_call(vs, r"::indices_before$", S.B(True), "indices_before(b, a) = true")
    assume_call(vs, r"::distinct_indices$", S.B(False), "distinct_indices = false")
    tv = w.fn("equihash::verify::tree_validator")
    assume_call(tv, r"::validate_subtrees$", S.E("Result", "Err"), "validate_subtrees = Err")
    assume_call(tv, r"::tree_validator$", S.E("Result", "Err"), "sub-tree validation = Err")
    rec = w.fn("equihash::verify::is_valid_solution_recursive")
    assume_call(rec, r"::tree_validator$", S.E("Result", "Err"), "tree_validator = Err")
    assume_call(rec, r"::is_zero$", S.B(False), "root.is_zero = false")
    # the entry returns the recursive verifier's verdict unchanged
    calls = S.find_calls(entry.body, r"::is_valid_solution_recursive$")
    if len(calls) == 1 and calls[0][1].dest is not None and calls[0][1].dest.local == 0:
        chk.ok("ACC", "is_valid_solution returns is_valid_solution_recursive's verdict unchanged")
    else:
        chk.fail("ACC", "entry/verdict", "is_valid_solution does not return the verifier's verdict "
                 "directly", entry.span.loc())
    # indices_before argument order in validate_subtrees: (b, a)
    du = defuse.DefUse(vs.body)
    ib = S.find_calls(vs.body, r"::indices_before$")
    if ib:
        o = [defuse.show(defuse.strip_refs(du.origin(a))) for a in ib[0][1].args]
        if o == ["arg2", "arg1"]:
            chk.ok("ARG", "ordering check compares (b, a): OutOfOrder iff b's first index precedes a's")
        else:
            chk.fail("ARG", "validate_subtrees/indices_before-args", "indices_before called with %s" % o,
                     ib[0][1].span.loc())
    # distinct_indices: returns false when any pair is equal
    di = w.fn("equihash::verify::distinct_indices")
    eqs = []
    for bi, blk in enumerate(di.body.blocks):
        for si, s in enumerate(blk.stmts):
            if s.kind == "=" and s.rv.kind == "bin" and s.rv.op in ("Eq", "Ne"):
                eqs.append((bi, si, s))
        t = blk.term
        if t.kind == "call" and t.callee.indirect is None and \
                re.search(r"PartialEq.*::(eq|ne)$", t.callee.p or ""):
            eqs.append((bi, None, t))
    okd = False
    for bi, si, x in eqs:
        if si is None:
            isne = x.callee.p.endswith("::ne")
            res = S.after_call(di.body, bi, S.B(False if isne else True))
        else:
            res = S.explore(di.body, bi, {}, inject={(bi, si): S.B(x.rv.op == "Eq")})
        rets = {rv for _bb, rv in res.returns}
        if rets == {"const:0"} or rets == {"bool:False"}:
            okd = True
    loops = len(S.find_calls(di.body, r"Iterator::next$|iter::Iterator>::next$"))
    if not (okd and loops >= 2) and _distinct_by_any(w, di):
        chk.ok("ACC", "distinct_indices = !a.indices.any(|i| b.indices.any(|j| i == j)): an equal pair forces "
               "`false`; both index lists are iterated")
    elif okd and loops >= 2:
        chk.ok("ACC", "distinct_indices: an equal pair forces `false`; both index lists are iterated")
    else:
        chk.fail("ACC", "distinct_indices/shape", "distinct_indices does not return false on an equal "
                 "pair over both lists (eq sites %d, loops %d)" % (len(eqs), loops), di.span.loc())

    # ------------------------------------------------------------------ ARG
    def arg_is_call(fn, callee_rx, argi, want_rx, label, plus_one_ok=False):
        okall = True
        calls = S.find_calls(fn.body, callee_rx)
        if not calls:
            chk.fail("ARG", "%s/%s/missing" % (fn.p, label), "call %s not found" % callee_rx)
            return False
        du = defuse.DefUse(fn.body)
        for i, (bb, t) in enumerate(calls):
            o = du.origin(t.args[argi])
            txt = defuse.show(o)
            good = (o[0] == "call" and re.search(want_rx, o[1]))
            if not good and plus_one_ok and o[0] == "bin" and o[1] == "Add":
                a, b = o[2], o[3]
                good = (a[0] == "call" and re.search(want_rx, a[1]) and b == ("const", 1))
            if not good and o[0] == "local":
                # a let-bound copy used more than once: look at the binding's origin
                good = False
            if good:
                chk.ok("ARG", "%s: argument %d of %s is %s" % (fn.p, argi, callee_rx, txt))
            else:
                okall = False
                chk.fail("ARG", "%s/%s#%d" % (fn.p, label, i + 1),
                         "argument %d of %s is %s, not %s" % (argi, callee_rx, txt, want_rx),
                         t.span.loc())
        return okall

    arg_is_call(vs, r"::has_collision$", 2, r"::collision_byte_length$", "has_collision-len")
    arg_is_call(tv, r"::from_children$", 2, r"::collision_byte_length$", "from_children-trim")
    arg_is_call(rec, r"::is_zero$", 1, r"::collision_byte_length$", "is_zero-len")
    nn = w.fn("equihash::verify::Node::new")
    e1 = arg_is_call(nn, r"::expand_array$", 1, r"::collision_bit_length$", "expand-hash")
    e2 = arg_is_call(ifm, r"::expand_array$", 1, r"::collision_bit_length$", "expand-indices",
                     plus_one_ok=True)
    guards["ARG-expand"] = e1 and e2

    # ------------------------------------------------------------------ PF
    sites, parent, reached = panics.reachable_sites(w, [entry])
    chk.analysed.update({"functions_reachable_from_is_valid_solution": len(reached),
                         "class_A_sites": len([1 for _f, s, _k in sites if s["cls"] == "A"]),
                         "class_B_sites_inventoried_not_armed":
                             len([1 for _f, s, _k in sites if s["cls"] == "B"])})
    used = set()
    for f, s, key in sites:
        key = panics.resolve_key(REVIEWED, key, s)
        if s["cls"] != "A":
            continue
        auto = panics.auto_discharge(f, s)
        loc = s["span"].loc()
        path = [w.fns[x].p for x in w.path_to(parent, f.id)]
        if auto:
            chk.ok("PF", "%s [%s]: %s" % (key, loc, auto))
            continue
        if key in REVIEWED:
            used.add(key)
            reason, req = REVIEWED[key]
            missing = [g for g in req if not guards.get(g)]
            if missing:
                chk.fail("PF", key, "panic site relies on guard(s) %s which no longer hold (%s)"
                         % (missing, reason), loc, path)
            else:
                chk.ok("PF", "%s [%s]: reviewed — %s%s" % (key, loc, reason,
                                                           (" (guards %s hold)" % req) if req else ""))
                chk.exception("PF", key, reason)
            continue
        chk.fail("PF", key, "panic site (%s %s) reachable from is_valid_solution and not discharged"
                 % (s["kind"], s["detail"]), loc, path)
    stale = sorted(set(REVIEWED) - used)
    if stale:
        chk.note("reviewed entries no longer matching a reachable site (harmless): %s" % stale)

    # ------------------------------------------------------------------ controls
    # control 1: with the upstream Params::new guard (no bounds) the facts do not hold
    it4 = A.Interp(w, lambda f: f.p.startswith("equihash::params::"), {})
    import copy
    saved = pn._body
    try:
        b = zf.Body(pn.crate, copy.deepcopy(pn.raw["mir"]), pn)
        # neutralise the range test: every switch on the `contains` result goes to its true arm
        for blk in b.blocks:
            if blk.term.kind == "call" and blk.term.callee.indirect is None and \
                    blk.term.callee.p.endswith("::contains"):
                nxt = b.blocks[blk.term.target].term
                if nxt.kind == "switch":
                    nxt.arms = [(v, nxt.otherwise) for v, _ in nxt.arms]
        pn._body = b
        r4 = it4.analyse(pn)
        c1 = False
        if isinstance(r4, A.AEnum) and "Some" in r4.variants:
            for g in r4.variants["Some"][1]:
                cs = g.get(c_key)
                if cs is None or not cs.subset(A.IntSet.of(8, 24)):
                    c1 = True
    finally:
        pn._body = saved
    if c1:
        chk.ok("control", "Params::new without the collision-bit-length bound is flagged")
    else:
        chk.fail("control", "params-without-bound", "control not flagged")
    # control 2: validate_subtrees assuming has_collision = TRUE reaches an Ok return
    calls = S.find_calls(vs.body, r"::has_collision$")
    res = S.after_call(vs.body, calls[0][0], S.B(True)) if calls else None
    c2 = res is not None and any(rv == "variant:Ok" for _b, rv in res.returns)
    if c2:
        chk.ok("control", "assume-analysis sees the Ok return when the check passes")
    else:
        chk.fail("control", "assume-ok", "control not flagged")
    rule_explen(chk, w)
    chk.finish()
