"""C06 — note commitment trees agree with the chain (narrow structural clause).

Decided: "all shielded pools are checkpointed at the same heights" as code uniformity, and the
plumbing of the anchor-retention policy:
  PS-1/PS-3  the three tree-update / truncation code paths are consistent renamings; pool-tagged
         arguments bind the same pool's parameters (batch_ensure_heights, cross_pool_ensure_heights,
         truncation helpers)
  BIND   the three results of batch_ensure_heights are bound to the matching pools
  COHERE every call to ensure_checkpoints / update_tree / build_subtrees / checkpoint_positions uses
         operands of ONE pool, and the closure given to with_<pool>_tree_mut touches only that pool
  RETAIN the caller's anchor-retention policy reaches batch_ensure_heights and all three update_tree
         calls (the same value, not a constant or another variable)
Atomicity of the three tree updates within one put_blocks is C02.
Not decided: root equality with the chain, witness validity, retention-grid arithmetic.
"""
import re

import defuse
import extract
import ps_rules
import zf
from common import Check

FILES = ["zcash_client_backend/src/data_api/ll/wallet.rs",
         "zcash_client_backend/src/data_api/anchor_retention.rs",
         "zcash_client_sqlite/src/wallet/commitment_tree.rs", "zcash_client_sqlite/src/lib.rs",
         "zcash_client_sqlite/src/wallet.rs", "zcash_primitives/src/merkle_tree.rs"]
POOL_CALLEES = r"::(ensure_checkpoints|update_tree|build_subtrees|checkpoint_positions)$"


def main(tier):
    chk = Check("C06", "other", tier)
    chk.explanation = (
        "Narrow structural clause of C06: the per-pool tree update and truncation code is uniform "
        "across Sapling/Orchard/Ironwood (same checkpoints for all pools follows from the shared "
        "batch_ensure_heights result being bound and used per pool consistently), and the anchor "
        "retention policy reaches every pool's update. Not decided: that roots equal the chain's, "
        "witness validity, retention-grid arithmetic (values of an external data structure).")
    chk.trusted = ["rustc MIR debug names and def-use origins", "Rust lexer for PS-1"]
    chk.rule("PS-1", "sibling pool code is a consistent renaming", floor=250)
    chk.rule("PS-2", "Ironwood code equals its Orchard sibling up to the pool renaming", floor=90)
    chk.rule("PS-3", "pool-tagged arguments bind the same pool's parameters", floor=10)
    chk.rule("BIND", "array results of pool-ordered functions are bound to matching pools", floor=1)
    chk.rule("COHERE", "per-pool tree calls and closures use one pool's operands", floor=12)
    chk.rule("RETAIN", "the anchor-retention policy reaches every pool's update", floor=6)
    chk.rule("SAMEHT", "the pools' checkpoints are established under the same tests", floor=2)
    chk.rule("POSN", "a newly observed tree position replaces the stored one", floor=2)
    chk.rule("SHARD", "only put_shard replaces the contents of an existing shard", floor=3)
    chk.rule("KEEP", "checkpoints created while scanning are registered with the retention policy", floor=4)
    chk.rule("control", "positive controls", floor=1)
    ps_rules.ps1(chk, FILES)
    ps_rules.ps2(chk, FILES)
    w = zf.World(extract.facts_dir("all"), ["zcash_client_backend", "zcash_client_sqlite",
                                            "zcash_primitives"])

    def scope(f):
        if "::tests::" in f.p or "::testing" in f.p:
            return False
        return (f.p.startswith("zcash_client_backend::data_api::ll::") or
                f.p.startswith("zcash_client_backend::data_api::anchor_retention") or
                f.p.startswith("zcash_client_sqlite::wallet::commitment_tree") or
                f.p.startswith("zcash_client_sqlite::wallet::truncate") or
                f.p.startswith("<zcash_client_sqlite::WalletDb"))
    chk.analysed["ps3_calls"] = ps_rules.ps3(chk, w, scope)

    try:
        pb = w.fn("zcash_client_backend::data_api::ll::wallet::put_blocks")
    except KeyError:
        chk.fail("BIND", "put_blocks/missing", "ll::wallet::put_blocks not found")
        chk.finish()
    bind(chk, w, pb)
    cohere(chk, w, pb)
    retain(chk, w, pb)
    retain_copy(chk, w)
    same_heights(chk, w)
    posn(chk, w)
    shard_writers(chk, w)
    retained_boundaries(chk, w)
    chk.finish()


ESTABLISH = r"::(insert_frontier|insert_frontier_nodes|update_tree|checkpoint|batch_insert|append)(::<.*>)?$"


def same_heights(chk, w):
    """SAMEHT: "all shielded pools are checkpointed at the same heights". Wherever one function
    establishes checkpoints in several pools' trees (the closure it hands to with_<pool>_tree_mut inserts
    a frontier / applies update_tree), the calls for the different pools run under the SAME tests: a
    test guarding one pool's call and not another's (for instance one on that pool's own frontier)
    lets the checkpoint heights of the pools diverge. Early error returns (`?`) are not tests: they
    abandon the whole database transaction (C02)."""
    import guards
    n = 0
    for f in sorted(w.fns.values(), key=lambda f: f.p):
        if f.is_closure() or f.body is None or "::tests::" in f.p or "::testing" in f.p or \
                f.crate.name not in ("zcash_client_sqlite", "zcash_client_backend"):
            continue
        sites = {}
        b = f.body
        for bb, t in b.calls():
            if b.blocks[bb].cleanup or t.callee.indirect is not None:
                continue
            m = re.search(r"::with_(sapling|orchard|ironwood)_tree_mut(::<.*>)?$", t.callee.target_p())
            if not m:
                continue
            # does the closure establish checkpoints?
            est = False
            for c in w.callees(f.id):
                g = w.fns.get(c)
                if g is None or not g.is_closure() or g.root != f.id or g.span.line != t.span.line and \
                        not (t.span.line <= g.span.line <= t.span.endline):
                    continue
                for _b2, t2 in g.body.calls():
                    if t2.callee.indirect is None and re.search(ESTABLISH, t2.callee.target_p()):
                        est = True
            if est:
                sites.setdefault(m.group(1), []).append((bb, t))
        if len(sites) < 2:
            continue
        du = defuse.DefUse(b)
        conds = {}
        for pool, lst in sites.items():
            for bb, t in lst:
                cs = set()
                for sw, v, _tb in guards.edge_conditions(b, bb):
                    tm = b.blocks[sw].term
                    if tm.span.has_macro("desugar:QuestionMark"):
                        continue
                    o = du.origin(tm.discr) if tm.discr is not None and tm.discr.kind in ("copy", "move") else None
                    cs.add("%s == %s" % (defuse.show(o)[:160] if o else "?", v))
                conds.setdefault(pool, []).append(cs)
        n += 1
        ref_pool = sorted(conds)[0]
        ref = conds[ref_pool]
        bad = [(p_, c) for p_, cl in conds.items() for c in cl if c not in ref or len(cl) != len(ref)]
        fname = f.p.split(" as ")[0].lstrip("<")[-70:]
        if not bad:
            chk.ok("SAMEHT", "%s: the %s trees are checkpointed under the same tests (%d shared)" %
                   (fname, "/".join(sorted(conds)), len(ref[0]) if ref else 0), sample=True)
        else:
            p_, c = bad[0]
            extra = sorted(c - ref[0]) or sorted(ref[0] - c)
            chk.fail("SAMEHT", "%s/%s" % (f.p, p_), "the %s tree is checkpointed under a test the %s tree's "
                     "checkpoint does not share: %s" % (p_, ref_pool, "; ".join(extra)[:300]),
                     sites[p_][0][1].span.loc())
    if n == 0:
        chk.fail("SAMEHT", "missing", "no function establishing checkpoints in several pools was found")


def posn(chk, w):
    """POSN: a witness is produced at the position the wallet stored for the note. When a note is seen
    again (a rescan after a rewind or reorg can place it elsewhere) the newly observed position must
    replace the stored one in every pool's upsert: `commitment_tree_position = IFNULL(:p, p)`."""
    import sqlfx
    fx = sqlfx.SqlFx(w, extract.REPO)
    n = 0
    for f in sorted(w.fns.values(), key=lambda f: f.p):
        if not re.match(r"zcash_client_sqlite::wallet::(sapling|orchard)::put_received_note$", f.p):
            continue
        for text in sorted({x[3] for x in fx.sites.get(f.id, [])}):
            m = re.search(r"ON CONFLICT.*?DO UPDATE\s+SET(.*?)(RETURNING|WHERE|$)", text, re.S)
            if not m:
                continue
            mm = re.search(r"\bcommitment_tree_position\s*=\s*([^\n]*?)\s*,?\s*(\n|$)", m.group(1))
            expr = re.sub(r"\s+", " ", mm.group(1)).rstrip(",") if mm else None
            n += 1
            if expr and re.match(r"^(IFNULL|COALESCE)\(\s*:commitment_tree_position\s*,\s*commitment_tree_position\s*\)$", expr, re.I):
                chk.ok("POSN", "%s: on conflict a newly observed tree position replaces the stored one" % f.p, sample=True)
            else:
                chk.fail("POSN", f.p, "on conflict the note's tree position becomes `%s`: a newly observed position "
                         "does not replace the stored one, so a re-scanned note is witnessed at a stale position" % expr,
                         f.span.loc())
    if n < 2:
        chk.fail("POSN", "missing", "expected the Sapling and the Orchard-protocol received-note upserts, found %d" % n)


def retain_copy(chk, w):
    """RETAIN (handles): every WalletDb value built from another WalletDb (the transactional handles
    through which put_blocks runs) carries the other's anchor_retention_interval; a handle that falls
    back to the default interval makes scans retain a different grid than the wallet was configured
    for."""
    n = 0
    for f in sorted(w.fns.values(), key=lambda f: f.p):
        if f.body is None or "::tests::" in f.p or "::testing" in f.p or f.crate.name != "zcash_client_sqlite":
            continue
        b = f.body
        du = None
        for bi, blk in enumerate(b.blocks):
            if blk.cleanup:
                continue
            for s_ in blk.stmts:
                if not (s_.kind == "=" and s_.rv.kind == "agg" and s_.rv.agg[0] == "adt" and
                        s_.rv.agg[1] == "zcash_client_sqlite::WalletDb"):
                    continue
                fields = list(s_.rv.agg[3])
                if "anchor_retention_interval" not in fields:
                    continue
                du = du or defuse.DefUse(b)
                org = {fl: defuse.strip_refs(du.origin(op)) for fl, op in zip(fields, s_.rv.ops)}
                # is some other field taken from the same-named field of an existing WalletDb?
                src = None
                for fl, o in org.items():
                    x = o
                    while x and x[0] in ("ref", "deref"):
                        x = x[1]
                    if x and x[0] == "field" and x[2] == "." + fl and fl != "anchor_retention_interval":
                        src = defuse.strip_refs(x[1])
                if src is None:
                    continue
                n += 1
                o = org["anchor_retention_interval"]
                good = o[0] == "field" and o[2] == ".anchor_retention_interval" and defuse.strip_refs(o[1]) == src
                fname = f.p.split(" as ")[0].lstrip("<")[-60:]
                if good:
                    chk.ok("RETAIN", "%s: the derived WalletDb handle carries the source's anchor_retention_interval" % fname,
                           sample=True)
                else:
                    chk.fail("RETAIN", "%s/handle" % f.p, "a WalletDb handle derived from %s takes its "
                             "anchor_retention_interval from `%s`" % (defuse.show(src), defuse.show(o)[:80]), s_.span.loc())
    if n < 2:
        chk.fail("RETAIN", "handles/missing", "expected at least two derived WalletDb handles (transactionally, "
                 "with_extension_tables ...), found %d" % n)


def shard_writers(chk, w):
    """SHARD: the persisted contents of a shard (`shard_data`) are what the wallet has scanned into it.
    Inserting a subtree ROOT for a shard that already exists must leave those contents alone (only the
    cached root hash and end height change), otherwise every witness through the shard is lost or wrong.
    Who may overwrite `shard_data` of an existing row: put_shard only, with the serialisation of the
    subtree it was handed."""
    import sqlfx
    fx = sqlfx.SqlFx(w, extract.REPO)
    writers, seen = {}, 0
    for fid, sites in fx.sites.items():
        f = w.fns[fid]
        if "::tests::" in f.p or "::testing" in f.p or "::migrations::" in f.p:
            continue
        for text in sorted({x[3] for x in sites}):
            if not re.search(r"_tree_shards\b", text):
                continue
            flat = re.sub(r"\s+", " ", text)
            cols = set()
            m = re.search(r"INSERT INTO \S*_tree_shards\b.*?ON CONFLICT.*?DO UPDATE SET (.*?)( WHERE | RETURNING |$)", flat, re.I)
            if m:
                cols |= {c.split("=")[0].strip() for c in m.group(1).split(",") if "=" in c}
            m = re.search(r"\bUPDATE \S*_tree_shards\b.*? SET (.*?)( WHERE |$)", flat, re.I)
            if m:
                cols |= {c.split("=")[0].strip() for c in m.group(1).split(",") if "=" in c}
            if re.search(r"\b(INSERT|UPDATE)\b[^;]*_tree_shards", flat, re.I) and \
                    not re.match(r"^\s*UPDATE \S*_received_notes", flat, re.I):
                seen += 1
                writers[f.p] = writers.get(f.p, set()) | cols
    ps = "zcash_client_sqlite::wallet::commitment_tree::put_shard"
    pr = "zcash_client_sqlite::wallet::commitment_tree::put_shard_roots"
    if ps not in writers or pr not in writers:
        chk.fail("SHARD", "missing", "put_shard / put_shard_roots upserts into the shards table not found (found %s)"
                 % sorted(writers))
        return
    over = sorted(p_ for p_, c in writers.items() if "shard_data" in c)
    if over == [ps]:
        chk.ok("SHARD", "only put_shard overwrites the shard_data of an existing shard (%d statements on the shards "
               "table examined)" % seen, sample=True)
    else:
        chk.fail("SHARD", "overwrite", "shard_data of an existing shard is overwritten by %s; only put_shard may "
                 "replace scanned shard contents" % over, w.fn(pr).span.loc())
    if writers[pr] == {"subtree_end_height", "root_hash"}:
        chk.ok("SHARD", "put_shard_roots: for an existing shard only subtree_end_height and root_hash change")
    else:
        chk.fail("SHARD", "put_shard_roots/columns", "inserting a subtree root for an existing shard updates %s"
                 % sorted(writers[pr]), w.fn(pr).span.loc())
    # put_shard stores the serialisation of the subtree it was given
    f = w.fn(ps)
    du = defuse.DefUse(f.body)
    ws = [t for _bb, t in f.body.calls() if t.callee.indirect is None and t.callee.target_p().endswith("::write_shard")]
    good = len(ws) == 1 and "arg2" in defuse.show(du.origin(ws[0].args[1]))
    if good:
        chk.ok("SHARD", "put_shard serialises the root of the subtree it was handed (one write_shard call)")
    else:
        chk.fail("SHARD", "put_shard/source", "put_shard does not serialise its own subtree argument", f.span.loc())


def retained_boundaries(chk, w):
    """KEEP: "every anchor-retention boundary inside the scanned range has a checkpoint that survives
    ordinary pruning" - the structural half, on update_tree (the one place scanning creates checkpoints):
      pair   every checkpoint-creating call (insert_frontier with Retention::Checkpoint{id}, insert_tree
             with its checkpoint map, add_checkpoint(h)) is paired with retain_anchor_checkpoint for the
             same height(s) and the caller's policy; for insert_tree the registration comes FIRST
             (insertion prunes);
      helper retain_anchor_checkpoint calls ensure_retained(height) exactly when the policy retains it;
      guard  adding a checkpoint for a height the pool is missing is not subject to a test on the tree's
             pruning state: such a test is false for old heights whether or not the policy retains them,
             so a boundary deep inside a long batch would get no checkpoint."""
    import guards

    class Deep(defuse.DefUse):
        MAXD = 60
    try:
        f = w.fn("zcash_client_backend::data_api::ll::wallet::update_tree")
        h = w.fn("zcash_client_backend::data_api::ll::wallet::retain_anchor_checkpoint")
        sr = w.fn("zcash_client_backend::data_api::ll::wallet::should_retain_anchor")
    except KeyError as e:
        chk.fail("KEEP", "missing", "update_tree / retain_anchor_checkpoint / should_retain_anchor not found: %s" % e)
        return
    b = f.body
    du = Deep(b)
    try:
        pol = f.argnames.index("anchor_retention")
    except ValueError:
        chk.fail("KEEP", "param", "update_tree has no anchor_retention parameter", f.span.loc())
        return
    sites = {"insert_frontier": [], "insert_tree": [], "add_checkpoint": [], "retain_anchor_checkpoint": []}
    for bb, t in b.calls():
        if b.blocks[bb].cleanup or t.callee.indirect is not None:
            continue
        m = re.search(r"::(insert_frontier|insert_tree|add_checkpoint|retain_anchor_checkpoint)(::<.*>)?$", t.callee.target_p())
        if m:
            sites[m.group(1)].append((bb, t))
    retains = []
    for bb, t in sites["retain_anchor_checkpoint"]:
        if defuse.strip_refs(du.origin(t.args[1])) != ("arg", pol):
            chk.fail("KEEP", "update_tree/policy", "retain_anchor_checkpoint is given %s, not the caller's policy"
                     % defuse.show(du.origin(t.args[1]))[:60], t.span.loc())
        retains.append((bb, defuse.strip_refs(du.origin(t.args[2]))))

    def only_error_exits(frm, to):
        """`to` is reached from `frm` under `?` continuations only"""
        extra = [c for c in guards.edge_conditions(b, to) if c not in guards.edge_conditions(b, frm)
                 and not b.blocks[c[0]].term.span.has_macro("desugar:QuestionMark")]
        return b.dominates(frm, to) and not extra
    n = 0
    for bb, t in sites["insert_frontier"]:
        o = du.origin(t.args[2])
        hid = defuse.strip_refs(o[2][0]) if o[0] == "agg" and o[1].endswith("Retention::Checkpoint") and o[2] else None
        n += 1
        if hid is not None and any(hh == hid and only_error_exits(bb, rb) for rb, hh in retains):
            chk.ok("KEEP", "update_tree: the frontier checkpoint's height is registered with the retention policy", sample=True)
        else:
            chk.fail("KEEP", "update_tree/pair/insert_frontier", "the checkpoint created by insert_frontier (%s) is not "
                     "followed by retain_anchor_checkpoint for the same height" % defuse.show(o)[:80], t.span.loc())
    for bb, t in sites["add_checkpoint"]:
        hid = defuse.strip_refs(du.origin(t.args[1]))
        n += 1
        if any(hh == hid and only_error_exits(bb, rb) for rb, hh in retains):
            chk.ok("KEEP", "update_tree: a checkpoint added for a missing height is registered with the retention policy",
                   sample=True)
        else:
            chk.fail("KEEP", "update_tree/pair/add_checkpoint", "add_checkpoint(%s) is not followed by "
                     "retain_anchor_checkpoint for the same height" % defuse.show(hid)[:60], t.span.loc())
        # guard: tests between the loop over the missing heights and the insertion
        for sw, v, _tb in guards.edge_conditions(b, bb):
            tm = b.blocks[sw].term
            if tm.span.macros or tm.discr is None or tm.discr.kind not in ("copy", "move"):
                continue
            o = du.origin(tm.discr)
            txt = defuse.show(o)
            # (comparison functions are left out of the key: `h > min` and `!(h <= min)` are the same guard)
            names = sorted(set(re.findall(r"\b([a-z_][a-z_0-9]*)\(", txt)) - {"branch", "map_err", "expect", "next",
                                                                              "into_iter", "store", "deref", "gt", "ge",
                                                                              "lt", "le", "eq", "ne", "cmp"})
            state = [x for x in names if re.search(r"checkpoint|store|prun|min_|max_", x)]
            policy = "retains" in names or "should_retain_anchor" in names
            if state and not policy:
                chk.fail("KEEP", "update_tree/guard/%s" % "+".join(names), "a checkpoint for a height this pool is missing "
                         "is added only under `%s` (edge value %s): a test on the tree's checkpoint state that holds "
                         "or fails regardless of whether the policy retains the height, so a retained boundary old "
                         "enough inside a long batch gets no checkpoint in this pool" % (txt[:120], v), tm.span.loc())
            else:
                chk.ok("KEEP", "update_tree: the test `%s` on adding a missing checkpoint does not depend on the tree's "
                       "pruning state alone" % txt[:60])
    for bb, t in sites["insert_tree"]:
        cps = defuse.strip_refs(du.origin(t.args[2]))
        n += 1
        # a loop over the keys of the same map, each key registered, dominating the insertion
        good = False
        for rb, hh in retains:
            txt = defuse.show(hh)
            if "keys(" in txt and defuse.show(cps) in txt and b.dominates(rb, bb) is False and rb in b.reachable(0):
                # the registration loop's header dominates the insertion; its body does not
                hdr = [sw for sw, _v, _tb in guards.edge_conditions(b, rb) if b.blocks[sw].term.span.has_macro("desugar:ForLoop")]
                good = any(b.dominates(x, bb) for x in hdr)
        if good:
            chk.ok("KEEP", "update_tree: every key of the checkpoint map handed to insert_tree is registered with the "
                   "policy in a loop that completes before the insertion", sample=True)
        else:
            chk.fail("KEEP", "update_tree/pair/insert_tree", "the heights of the checkpoint map given to insert_tree are "
                     "not registered with the retention policy before the insertion (which prunes)", t.span.loc())
    if n < 3:
        chk.fail("KEEP", "update_tree/sites", "expected insert_frontier, insert_tree and add_checkpoint in update_tree, "
                 "found %d checkpoint-creating call(s)" % n, f.span.loc())
    # the helper
    hb = h.body
    hdu = Deep(hb)
    er = [(bb, t) for bb, t in hb.calls() if t.callee.indirect is None and re.search(r"::ensure_retained(::<.*>)?$", t.callee.target_p())]
    good = False
    if len(er) == 1 and defuse.strip_refs(hdu.origin(er[0][1].args[1])) == ("arg", 2):
        for sw, v, _tb in guards.edge_conditions(hb, er[0][0]):
            tm = hb.blocks[sw].term
            if tm.discr is None or tm.discr.kind not in ("copy", "move") or guards.truth(tm, v) is not True:
                continue
            o = hdu.origin(tm.discr)
            if o[0] == "call" and o[1].endswith("should_retain_anchor") and \
                    [defuse.strip_refs(x) for x in o[2]] == [("arg", 1), ("arg", 2)]:
                good = True
    sdu = Deep(sr.body)
    so = sdu.origin_local(0)
    inner = None
    if so[0] == "call" and so[1].endswith("::is_some_and") and defuse.strip_refs(so[2][0]) == ("arg", 0):
        cl = so[2][1]
        if cl[0] == "agg" and cl[1].startswith("closure:"):
            g = next((x for x in w.fns.values() if x.id == cl[1][8:] or x.p == cl[1][8:]), None)
            if g is not None:
                calls = [t for _bb, t in g.body.calls() if t.callee.indirect is None]
                inner = [t.callee.target_p().rsplit("::", 1)[-1] for t in calls]
    if good and inner == ["retains"]:
        chk.ok("KEEP", "retain_anchor_checkpoint: ensure_retained(height) runs exactly under should_retain_anchor(policy, "
               "height) = policy.is_some_and(|p| p.retains(height))", sample=True)
    else:
        chk.fail("KEEP", "retain_anchor_checkpoint/shape", "retain_anchor_checkpoint no longer calls ensure_retained(height) "
                 "exactly when the policy retains the height (helper calls: %s)" % inner, h.span.loc())


def bind(chk, w, pb):
    body = pb.body
    n = 0
    for bb, t in body.calls():
        if t.callee.indirect is not None or t.dest is None or t.dest.proj:
            continue
        tg = w.fns.get(t.callee.target_id())
        if tg is None:
            continue
        ptags = [x for x in (ps_rules.name_tag(a) for a in tg.argnames) if x]
        if len(ptags) < 2 or not re.match(r"\[.*; \d+\]$", body.local_ty(t.dest.local)):
            continue
        binds = {}
        for blk in body.blocks:
            for s in blk.stmts:
                if s.kind == "=" and s.rv.kind == "use" and s.rv.ops[0].kind in ("copy", "move"):
                    sp = s.rv.ops[0].place
                    if sp.local == t.dest.local and len(sp.proj) == 1:
                        m = re.match(r"\[(\d+) of \d+\]$", sp.proj[0])
                        if m and not s.place.proj:
                            binds[int(m.group(1))] = ps_rules.name_tag(body.local_name(s.place.local))
        if not binds:
            continue
        n += 1
        bad = ["result[%d] is bound to a %s variable but corresponds to the %s parameter"
               % (i, ps_rules.POOLS[tg_], ps_rules.POOLS[ptags[i]])
               for i, tg_ in sorted(binds.items()) if tg_ and i < len(ptags) and tg_ != ptags[i]]
        if bad:
            chk.fail("BIND", "%s/%s" % (pb.p, tg.p), "; ".join(bad), t.span.loc())
        else:
            chk.ok("BIND", "%s: results %s bound to %s" % (tg.p.rsplit("::", 1)[-1], sorted(binds),
                                                           [ps_rules.POOLS.get(binds[i]) for i in sorted(binds)]),
                   sample=True)
    if n == 0:
        chk.fail("BIND", "none", "no pool-ordered array result is destructured in put_blocks any more",
                 pb.span.loc())


def names_in(w, f, depth=0):
    """pool tags of every name a function body mentions (locals, captured variables, fields,
    callees), closures it creates included"""
    tags = {}

    def add(n, where):
        t = ps_rules.name_tag(n)
        if t:
            tags.setdefault(t, []).append("%s (%s)" % (n, where))
    body = f.body
    for i, (_ty, nm) in enumerate(body.locals):
        if nm:
            add(nm, "local")
    for nm, _pl in body.upvars:
        add(nm, "captured")
    for blk in body.blocks:
        for s in blk.stmts:
            if s.kind == "=":
                for pl in [s.place] + [o.place for o in s.rv.ops if o.kind in ("copy", "move")] + \
                        ([s.rv.place] if s.rv.kind in ("ref", "disc") else []):
                    for p in pl.proj:
                        if p.startswith("."):
                            add(p[1:], "field")
        t = blk.term
        if t.kind == "call" and t.callee.indirect is None:
            add(t.callee.target_p().rsplit("::", 1)[-1], "callee")
            if depth < 2:
                for c in t.callee.closures or ():
                    if c in w.fns:
                        for k, v in names_in(w, w.fns[c], depth + 1).items():
                            tags.setdefault(k, []).extend(v)
    return tags


def cohere(chk, w, pb):
    # (a) per-pool helper calls: all singleton-tagged operands of one call carry one tag
    fns = [pb] + [w.fns[c] for c in w.callees(pb.id) if c in w.fns and w.fns[c].is_closure()]
    for f in fns:
        du = defuse.DefUse(f.body)
        ordn = {}
        for bb, t in f.body.calls():
            if t.callee.indirect is not None or not re.search(POOL_CALLEES, t.callee.target_p()):
                continue
            name = t.callee.target_p().rsplit("::", 1)[-1]
            tags = set()
            detail = []
            for a in t.args:
                at = ps_rules.origin_tags(f.body, du.origin(a))
                if len(at) == 1:
                    tags |= at
                    detail.append("%s:%s" % (defuse.show(du.origin(a))[:40], list(at)[0]))
            # the destination variable's name also carries the pool
            if t.dest is not None and not t.dest.proj:
                dt = ps_rules.name_tag(f.body.local_name(t.dest.local))
                if dt:
                    tags.add(dt)
            ordn[name] = ordn.get(name, 0) + 1
            if len(tags) > 1:
                chk.fail("COHERE", "%s/%s#%d" % (f.p, name, ordn[name]),
                         "%s mixes pools %s: %s" % (name, sorted(ps_rules.POOLS[x] for x in tags), detail),
                         t.span.loc())
            elif tags:
                chk.ok("COHERE", "%s call #%d uses only %s operands [%s]"
                       % (name, ordn[name], ps_rules.POOLS[list(tags)[0]], t.span.loc()))
    # (b) closures handed to with_<pool>_tree_mut touch only that pool
    found = set()
    for bb, t in pb.body.calls():
        if t.callee.indirect is not None:
            continue
        m = re.search(r"::with_(sapling|orchard|ironwood)_tree_mut$", t.callee.p or "")
        if not m:
            continue
        pool = {v: k for k, v in ps_rules.POOLS.items()}[m.group(1)]
        found.add(pool)
        for c in t.callee.closures or ():
            if c not in w.fns:
                continue
            tags = names_in(w, w.fns[c])
            other = {k: v for k, v in tags.items() if k != pool}
            if other:
                chk.fail("COHERE", "%s/with_%s_tree_mut-closure" % (pb.p, m.group(1)),
                         "the closure that updates the %s tree also refers to %s" %
                         (m.group(1), {ps_rules.POOLS[k]: v[:2] for k, v in other.items()}), t.span.loc())
            else:
                chk.ok("COHERE", "the closure given to with_%s_tree_mut refers to %s data only"
                       % (m.group(1), m.group(1)), sample=True)
    if found != {"S", "O", "I"}:
        chk.fail("COHERE", "pools-updated", "put_blocks updates the trees of %s only"
                 % sorted(ps_rules.POOLS[x] for x in found), pb.span.loc())


def _arg_leaves(o, acc=None, depth=0):
    acc = acc if acc is not None else set()
    if not isinstance(o, tuple) or depth > 40:
        return acc
    if o[0] == "arg":
        acc.add(o[1])
    for x in o[1:]:
        if isinstance(x, tuple):
            _arg_leaves(x, acc, depth + 1)
        elif isinstance(x, list):
            for y in x:
                _arg_leaves(y, acc, depth + 1)
    return acc


def retain_source(chk, w, pb):
    """the policy handed to ll::put_blocks by a WalletWrite::put_blocks implementation is a
    function of the wallet alone (its parameters, configuration and stored migrations): it must
    not depend on the batch being stored (from_state / blocks), or the boundaries of some batches
    would go unretained"""
    n = 0
    for f in sorted(w.fns.values(), key=lambda f: f.p):
        if f.is_closure() or "::tests::" in f.p or "::testing" in f.p or f.id == pb.id:
            continue
        if not f.p.endswith("::put_blocks"):
            continue
        du = defuse.DefUse(f.body)
        for bb, t in f.body.calls():
            if f.body.blocks[bb].cleanup or t.callee.indirect is not None or t.callee.target_id() != pb.id:
                continue
            try:
                j = pb.argnames.index("anchor_retention")
            except ValueError:
                return
            o = du.origin(t.args[j])
            leaves = _arg_leaves(o)
            batch = sorted(f.argnames[i] for i in leaves if i < len(f.argnames) and
                           f.argnames[i] in ("from_state", "blocks", "block", "scanned_blocks"))
            filt = re.findall(r"\b(filter|take_if|xor|zip|and_then|then_some|then)\(", defuse.show(o))
            n += 1
            if not batch and "local" not in repr(o)[:0] and not [x for x in filt if x != "then"]:
                chk.ok("RETAIN", "%s: the policy given to ll::put_blocks depends on the wallet only (%s)"
                       % (f.p.split(" as ")[0].lstrip("<")[:60], defuse.show(o)[:80]), sample=True)
            else:
                chk.fail("RETAIN", "%s/policy-source" % f.p, "the anchor-retention policy handed to "
                         "ll::put_blocks depends on the batch being stored (%s%s): boundaries inside "
                         "some batches would not be retained" % (batch, (", via " + ",".join(filt)) if filt else ""),
                         t.span.loc())
    if n == 0:
        chk.fail("RETAIN", "policy-source/missing", "no WalletWrite::put_blocks implementation calling "
                 "ll::wallet::put_blocks was found")


def retain(chk, w, pb):
    retain_source(chk, w, pb)
    # index of the anchor_retention parameter of put_blocks
    try:
        ai = pb.argnames.index("anchor_retention")
    except ValueError:
        chk.fail("RETAIN", "param", "put_blocks has no anchor_retention parameter any more", pb.span.loc())
        return
    du = defuse.DefUse(pb.body)
    # batch_ensure_heights receives it
    okb = False
    for bb, t in pb.body.calls():
        if t.callee.indirect is None and t.callee.target_p().endswith("::batch_ensure_heights"):
            tg = w.fns.get(t.callee.target_id())
            if tg and "anchor_retention" in tg.argnames:
                j = tg.argnames.index("anchor_retention")
                o = defuse.strip_refs(du.origin(t.args[j]))
                if o == ("arg", ai):
                    okb = True
    if okb:
        chk.ok("RETAIN", "batch_ensure_heights receives put_blocks' anchor_retention", sample=True)
    else:
        chk.fail("RETAIN", "batch_ensure_heights", "batch_ensure_heights is not given the caller's "
                 "anchor-retention policy", pb.span.loc())
    # each pool's update_tree receives the captured policy
    pools = set()
    for c in w.callees(pb.id):
        f = w.fns.get(c)
        if f is None or not f.is_closure() or f.root != pb.id:
            continue
        cdu = defuse.DefUse(f.body)
        upnames = {repr(pl): nm for nm, pl in f.body.upvars}
        for bb, t in f.body.calls():
            if t.callee.indirect is not None or not t.callee.target_p().endswith("::update_tree"):
                continue
            tg = w.fns.get(t.callee.target_id())
            if not tg or "anchor_retention" not in tg.argnames:
                continue
            j = tg.argnames.index("anchor_retention")
            o = cdu.origin(t.args[j])
            txt = defuse.show(o)
            # the operand must be the captured variable named anchor_retention
            src_ok = False
            a = t.args[j]
            if a.kind in ("copy", "move"):
                # follow copies back to a projection of the closure environment
                chain = o
                while chain and chain[0] in ("ref", "deref", "field", "proj"):
                    if chain[0] == "field":
                        pass
                    chain = chain[1]
                src_ok = chain == ("arg", 0)
            idx = None
            m = re.search(r"arg0\.(\d+)", txt.replace("*", "").replace("&", ""))
            if m:
                idx = m.group(1)
            name = None
            for nm, pl in f.body.upvars:
                if pl.proj and pl.proj[-1] == "." + str(idx) or (len(pl.proj) >= 2 and pl.proj[-2] == "." + str(idx)):
                    name = nm
            pool = ps_rules.name_tag(" ".join(n for n, _ in f.body.upvars) + " " +
                                     " ".join(x[1] or "" for x in f.body.locals))
            tags = names_in(w, f)
            ptag = list(tags)[0] if len(tags) == 1 else None
            if src_ok and name == "anchor_retention":
                pools.add(ptag)
                chk.ok("RETAIN", "%s tree update passes the captured anchor_retention to update_tree"
                       % ps_rules.POOLS.get(ptag, "?"), sample=True)
            else:
                chk.fail("RETAIN", "%s/update_tree" % f.p, "update_tree's anchor_retention argument is "
                         "%s (captured variable: %s), not the caller's policy" % (txt, name), t.span.loc())
    if pools >= {"S", "O", "I"}:
        chk.ok("control", "three update_tree calls (one per pool) were examined")
    else:
        chk.fail("RETAIN", "pools", "update_tree with the retention policy was found only for %s"
                 % sorted(ps_rules.POOLS.get(p, "?") for p in pools), pb.span.loc())
