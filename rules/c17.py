"""C17 — pool-migration schedules, anchors, expiries: the clauses whose truth is in the shape of the code.

Decided on the MIR of zcash_pool_migration::scheduling and zcash_protocol::zip318 (structural):
  DELAY   DelayDistribution::draw returns only a value that passed `value <= self.cap` on the way
          out of the rejection loop (edge condition of the only return, same local, not reassigned)
  MONO    cumulative_broadcast_heights: the running height starts as the caller's start height, is
          only ever replaced by `height + <drawn u32>` through BlockHeight's saturating addition,
          and every pushed element is that running height — so the heights never decrease from the
          start height and never wrap; both public schedulers hand their start height on unchanged
  EXPIRY  every Schedule is built with expiry = zip318::expiry_height(its own broadcast height);
          expiry_height is from_u32(h - h % EXPIRY_MODULUS) + EXPIRY_WINDOW with the saturating
          addition and EXPIRY_WINDOW = 2 * EXPIRY_MODULUS
          ; every MigrationTransaction created (preparation layers, transfers) or rebuilt gets
          expiry_height(its own scheduled height) or the plan's Schedule entry; deferring a schedule
          (shift_schedule) only adds to the scheduled height and keeps the signed expiry (documented)
  SHUFFLE shuffle_in_place touches the slice only through len() and swap() (a product of
          transpositions is a permutation); shuffle_indices shuffles (0..n).collect()
  ANCHOR  the sampled boundary is returned only after `lowest <= candidate <= highest` and
          `age <= ANCHOR_AGE_CAP`, is most_recent - age * interval through checked arithmetic, age
          starts at 1 and only grows; both callers derive most_recent with boundary_at_or_below,
          highest as most_recent - interval (absent => None) and test lowest <= highest before
          sampling; the lower bound is max(boundary_at_or_below(activation) + interval,
          boundary_at_or_above(funding))
  CODE    Zip318Classification::to_code / from_code are inverse on the four classifications and an
          unrecognised code decodes to Unknown
  CLASSIFY the decision tables of classify / classify_preparation / classify_crossing (paths with
          their tests), evaluated over an abstraction of the evidence (each field unanswered or
          answered with a value of one of the classes the tests distinguish): nothing answered is
          Unknown; Nonconforming is never retracted by a further answer; Conforms is changed by no
          further answer except a negative confirmatory observation (the documented obligation)
Not decided (value-level): termination of the rejection loops under biased streams, the wake-up
schedule (coverage, minimality), uniformity of the draws.
"""
import re

import defuse
import extract
import guards as G
import zf
from common import Check

P = "zcash_pool_migration::scheduling::"
Z318 = "zcash_protocol::zip318::"
BH_ADD = "<zcash_protocol::consensus::BlockHeight as core::ops::Add<u32>>::add"


def _calls(body, rx):
    return [(bb, t) for bb, t in body.calls() if not body.blocks[bb].cleanup and
            t.callee.indirect is None and re.search(rx, t.callee.target_p())]


def _one(chk, w, rule, name):
    fs = w.by_p.get(name, [])
    if len(fs) != 1:
        chk.fail(rule, name.rsplit("::", 1)[-1] + "/missing", "%s not found" % name)
        return None
    return fs[0]


def _root(du, op):
    """(local,) or (local, projection): the single-definition value an operand is a pure copy of"""
    if op.kind not in ("copy", "move"):
        return None
    local, proj = op.place.local, list(op.place.proj)
    for _ in range(24):
        d = du.single(local)
        if d is None:
            return None
        kind, _bi, x = d
        if kind == "stmt" and x.rv.kind == "use" and x.rv.ops[0].kind in ("copy", "move"):
            sp = x.rv.ops[0].place
            local, proj = sp.local, list(sp.proj) + proj
            continue
        return (local,) if not proj else (local, tuple(proj))
    return None


def _bin_of_switch(body, du, sw):
    """(op, left operand, right operand) of the comparison a switch tests, through `!` and copies;
    returns (op, a, b, negated)"""
    t = body.blocks[sw].term
    d = t.discr
    neg = False
    hops = 0
    while d.kind in ("copy", "move") and not d.place.proj and hops < 6:
        hops += 1
        s = du.single(d.place.local)
        if s is None or s[0] != "stmt":
            return None
        rv = s[2].rv
        if rv.kind == "bin":
            return rv.op, rv.ops[0], rv.ops[1], neg
        if rv.kind == "un" and rv.op == "Not":
            neg = not neg
            d = rv.ops[0]
            continue
        if rv.kind == "use":
            d = rv.ops[0]
            continue
        return None
    return None


def _range_contains(body, du, sw):
    """(root of x, origin of lo, origin of hi, inclusive?) when the switch tests `range.contains(&x)` for a
    range built right there from two bounds"""
    t = body.blocks[sw].term
    d = t.discr
    if d is None or d.kind not in ("copy", "move") or d.place.proj:
        return None
    s = du.single(d.place.local)
    if s is None or s[0] != "call":
        return None
    c = s[2]
    m = re.search(r"core::ops::(RangeInclusive|Range)::<.*>::contains(::<.*>)?$", c.callee.target_p() if c.callee.indirect is None else "")
    if not m or len(c.args) != 2:
        return None
    ro = defuse.strip_refs(du.origin(c.args[0]))
    if ro[0] == "call" and ro[1].endswith("::new") and len(ro[2]) == 2:
        lo_o, hi_o = ro[2]
    elif ro[0] == "agg" and len(ro[2]) >= 2:
        lo_o, hi_o = ro[2][0], ro[2][1]
    else:
        return None
    # x: the local behind the reference
    xa = c.args[1]
    xs = du.single(xa.place.local) if xa.kind in ("copy", "move") and not xa.place.proj else None
    hops = 0
    while xs is not None and xs[0] == "stmt" and xs[2].rv.kind == "use" and hops < 4:
        xa = xs[2].rv.ops[0]
        xs = du.single(xa.place.local) if xa.kind in ("copy", "move") and not xa.place.proj else None
        hops += 1
    if xs is None or xs[0] != "stmt" or xs[2].rv.kind != "ref":
        return None
    import zf
    pl = xs[2].rv.place
    hops = 0
    while tuple(pl.proj) == ("*",) and hops < 4:        # a reborrow `&*r`: go to what r refers to
        ds = du.single(pl.local)
        if ds is None or ds[0] != "stmt" or ds[2].rv.kind != "ref":
            break
        pl = ds[2].rv.place
        hops += 1
    root = _root(du, zf.Op("copy", pl))
    return (root, lo_o, hi_o, m.group(1) == "RangeInclusive")


def _holds(body, du, bb, want_op, left_root, right_pred):
    """some edge condition of bb establishes `left want_op right` for the local left_root (not
    reassigned since) and a right operand accepted by right_pred(origin)"""
    FLIP = {"Le": "Ge", "Ge": "Le", "Lt": "Gt", "Gt": "Lt", "Eq": "Eq", "Ne": "Ne"}
    NEG = {"Le": "Gt", "Gt": "Le", "Lt": "Ge", "Ge": "Lt", "Eq": "Ne", "Ne": "Eq"}
    IMPLIES = {"Le": ("Le", "Lt", "Eq"), "Ge": ("Ge", "Gt", "Eq")}       # a stricter test is fine
    for sw, v, tb in G.edge_conditions(body, bb):
        tr = G.truth(body.blocks[sw].term, v)
        bn = _bin_of_switch(body, du, sw)
        if tr is True and bn is None:
            # `(lo..=hi).contains(&x)` / `(lo..hi).contains(&x)` held: x >= lo and x <= hi (< hi)
            rc = _range_contains(body, du, sw)
            if rc is not None:
                x_root, lo_o, hi_o, incl = rc
                if x_root == left_root and G.stable(body, du, [left_root[0]], sw, tb, bb):
                    if want_op == "Ge" and right_pred(lo_o):
                        return True
                    if want_op == "Le" and right_pred(hi_o):
                        return True
                    if want_op == "Lt" and not incl and right_pred(hi_o):
                        return True
        if tr is None or bn is None:
            continue
        op, a, b_, neg = bn
        if neg:
            tr = not tr
        if not tr:
            op = NEG.get(op)
        for o, x, y in ((op, a, b_), (FLIP.get(op), b_, a)):
            if o in IMPLIES.get(want_op, (want_op,)) and _root(du, x) == left_root and right_pred(du.origin(y)) and \
                    G.stable(body, du, [left_root[0]], sw, tb, bb):
                return True
    return False


def _ret_roots(body, du):
    """[(block, root local of the value assigned to _0)] for every definition of the return place"""
    out = []
    for kind, bi, x in du.defs.get(0, []):
        if kind == "stmt" and x.rv.kind == "use":
            out.append((bi, _root(du, x.rv.ops[0])))
        else:
            out.append((bi, None))
    return out


def rule_delay(chk, w):
    f = _one(chk, w, "DELAY", P + "DelayDistribution::draw_inner")
    d = _one(chk, w, "DELAY", P + "DelayDistribution::draw")
    if f is None or d is None:
        return
    b, du = f.body, defuse.DefUse(f.body)
    rets = _ret_roots(b, du)

    def is_cap(o):
        return defuse.show(o) in ("get(*arg0.cap)", "get(arg0.cap)")
    if rets and all(r is not None and _holds(b, du, bi, "Le", r, is_cap) for bi, r in rets):
        chk.ok("DELAY", "draw_inner returns a delay only on the edge where `delay <= self.cap.get()` held for "
               "that same value (%d return site)" % len(rets), sample=True)
    else:
        chk.fail("DELAY", "draw_inner/cap", "a value can be returned without having passed `value <= cap` "
                 "(return definitions: %s)" % rets, f.span.loc())
    o = defuse.show(defuse.DefUse(d.body).origin_local(0))
    if o == "draw_inner(&*arg0, &*arg1)":
        chk.ok("DELAY", "draw returns draw_inner(self, rng)")
    else:
        chk.fail("DELAY", "draw", "draw returns %s" % o, d.span.loc())
    # every delay the schedulers consume comes from draw_inner / draw of a DelayDistribution
    for nm in ("schedule_broadcast_heights", "schedule_prep_broadcast_heights"):
        g = _one(chk, w, "DELAY", P + nm)
        if g is None:
            continue
        cl = [c for c in w.fns.values() if c.is_closure() and c.root == g.id]
        good = len(cl) == 1 and re.match(r"draw(_inner)?\(&?\*?\*?arg0\.0, &?\*?arg1\)$",
                                         defuse.show(defuse.DefUse(cl[0].body).origin_local(0)) or "")
        if good:
            chk.ok("DELAY", "%s draws each delay with DelayDistribution::draw_inner" % nm)
        else:
            chk.fail("DELAY", nm + "/closure", "%s's delay closure returns %s" % (
                nm, [defuse.show(defuse.DefUse(c.body).origin_local(0)) for c in cl]), g.span.loc())


def _cumulative_by_map(w, f):
    """cumulative_broadcast_heights as `(0..n).map(|_| { running = running + draw(rng); running }).collect()`:
    the result is the collected map over 0..n of a closure that captures one mutable running height, defined in
    the function only by `start`; the closure's only store through that capture is BlockHeight + draw(..) of the
    captured value, and it returns the captured value after the store"""
    b, du = f.body, defuse.DefUse(f.body)
    ret = du.origin_local(0)
    if not (ret[0] == "call" and ret[1].endswith("::collect") and ret[2] and ret[2][0][0] == "call" and
            ret[2][0][1].endswith("::map") and len(ret[2][0][2]) == 2):
        return False
    rng_, cl = ret[2][0][2]
    if not (rng_[0] == "agg" and rng_[1].endswith("Range") and rng_[2][0] == ("const", 0) and rng_[2][1] == ("arg", 1)):
        return False
    if not (cl[0] == "agg" and cl[1].startswith("closure:")):
        return False
    g = w.fns.get(cl[1][8:]) or next((x for x in w.fns.values() if x.p == cl[1][8:]), None)
    if g is None:
        return False
    # which capture is the running height: a `&mut local` whose only definition is `start`
    runs = [i for i, c in enumerate(cl[2]) if c[0] == "ref" and c[1] == ("arg", 0)]
    if len(runs) != 1:
        return False
    k = runs[0]
    gb, gdu = g.body, defuse.DefUse(g.body)

    def is_cap(o):
        o = defuse.strip_refs(o)
        return o[0] == "field" and o[2] == ".%d" % k and defuse.strip_refs(o[1]) in (("local", 1), ("arg", 0))
    stores = [st for blk in gb.blocks if not blk.cleanup for st in blk.stmts
              if st.kind == "=" and st.place.proj and st.place.proj[0] == "*" and is_cap(gdu.origin_place(
                  type(st.place)([st.place.local])))]
    if len(stores) != 1 or stores[0].rv.kind != "use":
        return False
    v = gdu.origin(stores[0].rv.ops[0])
    if not (v[0] == "call" and v[1] == BH_ADD and is_cap(v[2][0]) and v[2][1][0] == "call" and
            v[2][1][1].endswith("::call")):
        return False
    r = gdu.origin_local(0)
    return is_cap(r)


def rule_mono(chk, w):
    f = _one(chk, w, "MONO", P + "cumulative_broadcast_heights")
    add = _one(chk, w, "MONO", BH_ADD)
    if f is None or add is None:
        return
    b, du = f.body, defuse.DefUse(f.body)
    pushes = _calls(b, r"Vec::<T, A>::push$")
    run = None
    if len(pushes) == 1:
        o = du.origin(pushes[0][1].args[1])
        run = o[1] if o[0] == "local" else None
    kinds = []
    for kind, bi, x in du.defs.get(run, []) if run is not None else []:
        if kind == "stmt" and x.rv.kind == "use" and du.origin(x.rv.ops[0]) == ("arg", 0):
            kinds.append("start")
        elif kind == "stmt" and x.rv.kind == "use" and (lambda o: o[0] == "call" and o[1] == BH_ADD and
                                                         o[2][0] == ("local", run) and
                                                         defuse.show(o[2][1]).startswith("call(&arg2"))(
                du.origin(x.rv.ops[0])):
            kinds.append("add-drawn")
        else:
            kinds.append("other")
    if run is None and not pushes and _cumulative_by_map(w, f):
        chk.ok("MONO", "the running height starts as `start`; the closure mapped over 0..n replaces it by `height + "
               "draw(rng)` and yields it; the collected values are returned", sample=True)
    elif run is not None and sorted(set(kinds)) == ["add-drawn", "start"] and kinds.count("start") == 1:
        chk.ok("MONO", "the running height starts as `start`, is only replaced by `height + draw(rng)` and is what "
               "gets pushed", sample=True)
    else:
        chk.fail("MONO", "cumulative/shape", "the pushed value is defined by %s (pushes: %d)" % (kinds, len(pushes)),
                 f.span.loc())
    o = defuse.show(defuse.DefUse(add.body).origin_local(0))
    if o == "zcash_protocol::consensus::BlockHeight::BlockHeight{saturating_add(arg0.0, arg1)}":
        chk.ok("MONO", "BlockHeight + u32 is the saturating addition: never below the left operand, never wraps")
    else:
        chk.fail("MONO", "BlockHeight::add", "BlockHeight + u32 is %s" % o, add.span.loc())
    for nm in ("schedule_broadcast_heights", "schedule_prep_broadcast_heights"):
        g = _one(chk, w, "MONO", P + nm)
        if g is None:
            continue
        o = defuse.DefUse(g.body).origin_local(0)
        if o[0] == "call" and o[1].endswith("::cumulative_broadcast_heights") and o[2][0] == ("arg", 1) and \
                o[2][1] == ("arg", 2):
            chk.ok("MONO", "%s hands its start height and count to cumulative_broadcast_heights unchanged" % nm)
        else:
            chk.fail("MONO", nm, "%s returns %s" % (nm, defuse.show(o)[:200]), g.span.loc())


def rule_expiry(chk, w):
    SCHED = P + "Schedule"
    n = 0
    for f in w.fns.values():
        if f.crate.name != "zcash_pool_migration" or "::tests::" in f.p:
            continue
        du = None
        for blk in f.body.blocks:
            if blk.cleanup:
                continue
            for s in blk.stmts:
                if s.kind == "=" and s.rv.kind == "agg" and s.rv.agg[0] == "adt" and s.rv.agg[1] == SCHED:
                    du = du or defuse.DefUse(f.body)
                    fields = list(s.rv.agg[3])
                    ob = du.origin(s.rv.ops[fields.index("broadcast_height")])
                    oe = du.origin(s.rv.ops[fields.index("expiry_height")])
                    n += 1
                    if oe[0] == "call" and oe[1] == Z318 + "expiry_height" and oe[2] == [ob]:
                        chk.ok("EXPIRY", "%s builds Schedule{broadcast_height: h, expiry_height: expiry_height(h)}"
                               % f.p.replace(P, ""), sample=True)
                    else:
                        chk.fail("EXPIRY", "Schedule/%s" % f.p.replace(P, ""), "a Schedule is built with broadcast "
                                 "height %s and expiry %s" % (defuse.show(ob), defuse.show(oe)), s.span.loc())
    if n == 0:
        chk.fail("EXPIRY", "Schedule/missing", "no construction of Schedule found")
    e = _one(chk, w, "EXPIRY", Z318 + "expiry_height")
    if e is None:
        return
    mod = (w.consts.get(Z318 + "EXPIRY_MODULUS") or {}).get("v")
    win = (w.consts.get(Z318 + "EXPIRY_WINDOW") or {}).get("v")
    o = defuse.show(defuse.DefUse(e.body).origin_local(0))
    want = "add(from_u32((from(arg0) Sub (from(arg0) Rem %s))), %s)" % (mod, win)
    calls = [t.callee.target_p() for _bb, t in e.body.calls()]
    if o == want and BH_ADD in calls and mod and win == 2 * mod:
        chk.ok("EXPIRY", "expiry_height(h) = from_u32(h - h %% %d) + %d (saturating), window = 2 * modulus" % (mod, win),
               sample=True)
    else:
        chk.fail("EXPIRY", "expiry_height", "expiry_height returns %s (modulus %s, window %s)" % (o, mod, win),
                 e.span.loc())


def _expiry_of(f, du, op):
    """the root local of the height whose canonical expiry an operand is: ('canon', root) |
    ('plan',) when it is read from the plan's Schedule | None"""
    r = _root(du, op)
    if r is not None and len(r) == 1:
        d = du.single(r[0])
        if d is not None and d[0] == "call" and d[2].callee.indirect is None and \
                d[2].callee.target_p() == Z318 + "expiry_height":
            return ("canon", _root(du, d[2].args[0]))
    if "scheduling::Schedule::expiry_height" in defuse.show(du.origin(op)):
        return ("plan",)
    return None


def rule_expiry_tx(chk, w):
    """the expiry a migration transaction is created or rebuilt with is the canonical expiry of the
    scheduled height stored beside it"""
    MT = "zcash_pool_migration::engine::MigrationTransaction"
    n = 0
    for f in sorted(w.fns.values(), key=lambda f: f.p):
        if f.crate.name != "zcash_pool_migration" or "::tests::" in f.p or "::testing::" in f.p:
            continue
        if f.p.endswith("MigrationTransaction::from_parts") or f.p.endswith("core::clone::Clone>::clone"):
            continue            # field-by-field pass-through of an existing record
        b = f.body
        du = None
        stores = {}
        for blk in b.blocks:
            if blk.cleanup:
                continue
            for s in blk.stmts:
                if s.kind != "=":
                    continue
                if s.rv.kind == "agg" and s.rv.agg[0] == "adt" and s.rv.agg[1] == MT:
                    du = du or defuse.DefUse(b)
                    fields = list(s.rv.agg[3])
                    so = s.rv.ops[fields.index("scheduled_height")]
                    eo = s.rv.ops[fields.index("expiry_height")]
                    e = _expiry_of(f, du, eo)
                    n += 1
                    key = "tx/%s" % f.p.rsplit("::", 1)[-1]
                    if e and e[0] == "canon" and e[1] is not None and e[1] == _root(du, so):
                        chk.ok("EXPIRY", "%s creates a transaction with expiry_height(scheduled_height) of its own "
                               "scheduled height" % f.p.rsplit("::", 1)[-1], sample=True)
                    elif e and e[0] == "plan":
                        chk.ok("EXPIRY", "%s takes the expiry from the plan's Schedule entry (canonical by "
                               "construction, rule EXPIRY/Schedule)" % f.p.rsplit("::", 1)[-1])
                    else:
                        chk.fail("EXPIRY", key, "a migration transaction is created with scheduled height %s and "
                                 "expiry %s" % (defuse.show(du.origin(so))[:120], defuse.show(du.origin(eo))[:160]),
                                 s.span.loc())
                elif s.place.proj and s.place.proj[-1] in (".expiry_height", ".scheduled_height") and \
                        MT in b.local_ty(s.place.local) and s.rv.kind == "use":
                    stores.setdefault((s.place.local, tuple(s.place.proj[:-1])), {})[s.place.proj[-1]] = s
        for base, st in stores.items():
            if ".expiry_height" not in st:
                continue            # deferring a schedule keeps the signed expiry (documented)
            du = du or defuse.DefUse(b)
            n += 1
            e = _expiry_of(f, du, st[".expiry_height"].rv.ops[0])
            sch = st.get(".scheduled_height")
            if e and e[0] == "canon" and sch is not None and e[1] is not None and e[1] == _root(du, sch.rv.ops[0]):
                chk.ok("EXPIRY", "%s re-stamps expiry_height(scheduled_height) together with the new scheduled "
                       "height" % f.p.rsplit("::", 1)[-1], sample=True)
            else:
                chk.fail("EXPIRY", "tx-store/%s" % f.p.rsplit("::", 1)[-1], "the expiry of a stored transaction is "
                         "replaced by %s (scheduled height stored beside it: %s)" % (
                             defuse.show(du.origin(st[".expiry_height"].rv.ops[0]))[:160], sch is not None),
                         st[".expiry_height"].span.loc())
    if n < 3:
        chk.fail("EXPIRY", "tx/missing", "expected the creation and rebuild sites of MigrationTransaction, found %d" % n)
    # deferring a schedule only ever adds (saturating) to the scheduled height
    sh = [f for f in w.fns.values() if f.p.endswith("::shift_schedule") and f.crate.name == "zcash_pool_migration"]
    if len(sh) == 1:
        b, du = sh[0].body, defuse.DefUse(sh[0].body)
        vals = []
        for blk in b.blocks:
            if blk.cleanup:
                continue
            for s in blk.stmts:
                if s.kind == "=" and s.place.proj and s.place.proj[-1] == ".scheduled_height":
                    vals.append(defuse.show(du.origin(s.rv.ops[0])) if s.rv.kind == "use" else s.rv.kind)
        if vals and all(re.match(r"add\(\*?.*\.scheduled_height, arg1\)$", v) for v in vals):
            chk.ok("MONO", "shift_schedule only replaces a scheduled height by itself + delta (saturating), %d sites"
                   % len(vals))
        else:
            chk.fail("MONO", "shift_schedule", "shift_schedule stores %s" % vals, sh[0].span.loc())
    else:
        chk.fail("MONO", "shift_schedule/missing", "shift_schedule not found")


def rule_shuffle(chk, w):
    f = _one(chk, w, "SHUFFLE", P + "shuffle_in_place")
    g = _one(chk, w, "SHUFFLE", P + "shuffle_indices")
    if f is None or g is None:
        return
    b, du = f.body, defuse.DefUse(f.body)
    bad, uses = [], 0
    # every local that is a (re)borrow of the slice parameter
    alias = {1}
    changed = True
    while changed:
        changed = False
        for blk in b.blocks:
            if blk.cleanup:
                continue
            for s in blk.stmts:
                if s.kind != "=" or s.place.proj:
                    continue
                rv = s.rv
                src = None
                if rv.kind in ("ref", "raw"):
                    src = rv.place.local
                elif rv.kind in ("use", "cast") and rv.ops and rv.ops[0].kind in ("copy", "move"):
                    src = rv.ops[0].place.local
                if src in alias and s.place.local not in alias:
                    alias.add(s.place.local)
                    changed = True
    for bi, blk in enumerate(b.blocks):
        if blk.cleanup:
            continue
        for s in blk.stmts:
            if s.kind in ("=", "setdisc") and s.place.local in alias and "*" in s.place.proj:
                bad.append("direct store through the slice at %s" % s.span.loc())
        t = blk.term
        if t.kind == "call":
            if any(a.kind in ("copy", "move") and a.place.local in alias for a in t.args):
                uses += 1
                nm = t.callee.target_p() if t.callee.indirect is None else "<indirect>"
                if not re.search(r"core::slice::<impl \[T\]>::(len|swap|is_empty|reverse|rotate_left|rotate_right)$", nm):
                    bad.append("the slice is handed to %s at %s" % (nm, t.span.loc()))
            if t.dest is not None and t.dest.local in alias and "*" in t.dest.proj:
                bad.append("call result stored through the slice at %s" % t.span.loc())
    if not bad and uses >= 2 and _calls(b, r"<impl \[T\]>::swap$"):
        chk.ok("SHUFFLE", "shuffle_in_place touches the slice only through len() and swap(): the result is a "
               "permutation of the input", sample=True)
    else:
        chk.fail("SHUFFLE", "shuffle_in_place", "; ".join(bad) or "no swap found", f.span.loc())
    du = defuse.DefUse(g.body)
    o = defuse.show(du.origin_local(0))
    sh = [defuse.show(du.origin(t.args[0])) for _bb, t in _calls(g.body, r"::shuffle_in_place$")]
    if o == "collect(core::ops::Range::Range{0, arg0})" and sh == ["&*deref_mut(&%s)" % o]:
        chk.ok("SHUFFLE", "shuffle_indices(n) = shuffle_in_place of (0..n).collect()")
    else:
        chk.fail("SHUFFLE", "shuffle_indices", "shuffle_indices returns %s after shuffling %s" % (o, sh), g.span.loc())


def rule_anchor(chk, w):
    f = _one(chk, w, "ANCHOR", P + "sample_recency_weighted_boundary")
    if f is None:
        return
    b, du = f.body, defuse.DefUse(f.body)
    rets = _ret_roots(b, du)
    cap = (w.consts.get(Z318 + "ANCHOR_AGE_CAP") or {}).get("v")
    age_calls = _calls(b, r"::draw_anchor_age$")
    age = age_calls[0][1].dest.local if len(age_calls) == 1 and age_calls[0][1].dest is not None else None
    ok_all = bool(rets) and age is not None and cap is not None
    why = []
    for bi, r in rets:
        if r is None:
            ok_all = False
            why.append("a value that is not the tested candidate is returned (return site in block %d): it has "
                       "passed neither the range test nor the age cap" % bi)
            continue
        lo = _holds(b, du, bi, "Ge", r, lambda o: o == ("arg", 1))
        hi = _holds(b, du, bi, "Le", r, lambda o: o == ("arg", 2))
        ag = _holds(b, du, bi, "Le", (age,), lambda o: o == ("const", cap))
        co = defuse.show(du.origin_local(r[0])) + (" as Some).0" if len(r) > 1 and r[1] == ("as Some", ".0") else "")
        co = "(" + co if co.endswith(" as Some).0") else co
        shape = re.match(r"\(and_then\(checked_mul\(draw_anchor_age\(&\*arg4\), get\(block_count\(&arg0\)\)\), "
                         r"closure:.*\{&arg3\}\) as Some\)\.0$", co)
        if not (lo and hi and ag and shape):
            ok_all = False
            why.append("candidate >= lowest: %s, <= highest: %s, age <= cap: %s, shape: %s (%s)"
                       % (lo, hi, ag, bool(shape), co[:120]))
    cl = [c for c in w.fns.values() if c.is_closure() and c.root == f.id]
    sub = [defuse.show(defuse.DefUse(c.body).origin_local(0)) for c in cl]
    if sub != ["checked_sub(*arg0.0, arg1)"]:
        ok_all = False
        why.append("offset closure returns %s" % sub)
    if ok_all:
        chk.ok("ANCHOR", "the sampled boundary is most_recent - age * interval (checked), returned only when "
               "lowest <= candidate <= highest and age <= %d" % cap, sample=True)
    else:
        chk.fail("ANCHOR", "sample/guards", "; ".join(why) or "anchors missing", f.span.loc())
    # age starts at 1 and only grows
    a = _one(chk, w, "ANCHOR", P + "draw_anchor_age")
    if a is not None:
        ba, dua = a.body, defuse.DefUse(a.body)
        rr = _ret_roots(ba, dua)
        roots = set()
        for kind, bi, x in dua.defs.get(0, []):
            if kind == "stmt" and x.rv.kind == "use" and x.rv.ops[0].kind in ("copy", "move"):
                roots.add(x.rv.ops[0].place.local)
        kinds = []
        for l in roots:
            for kind, bi, x in dua.defs.get(l, []):
                s_ = defuse.show(dua.origin(x.rv.ops[0])) if kind == "stmt" and x.rv.kind == "use" else "?"
                kinds.append("one" if s_ == "1" else ("incr" if s_ == "(_%d Add 1)" % l else "other:" + s_))
        if len(roots) == 1 and sorted(set(kinds)) == ["incr", "one"]:
            chk.ok("ANCHOR", "draw_anchor_age returns a counter that starts at 1 and is only incremented: the "
                   "anchor is strictly below the most recent boundary")
        else:
            chk.fail("ANCHOR", "age", "draw_anchor_age returns %s defined by %s" % (sorted(roots), kinds), a.span.loc())
    # bounds
    lc = _one(chk, w, "ANCHOR", P + "lowest_candidate_boundary")
    if lc is not None:
        o = defuse.show(defuse.DefUse(lc.body).origin_local(0))
        want = "max(saturating_add(boundary_at_or_below_u32(&arg0, arg1), get(block_count(&arg0))), " \
               "boundary_at_or_above_u32(&arg0, arg2))"
        if o == want:
            chk.ok("ANCHOR", "lowest candidate = max(boundary_at_or_below(activation) + interval, "
                   "boundary_at_or_above(funding))", sample=True)
        else:
            chk.fail("ANCHOR", "lowest", "lowest_candidate_boundary returns %s" % o, lc.span.loc())
    cb = _one(chk, w, "ANCHOR", P + "candidate_boundary_bounds")
    if cb is not None:
        bc, duc = cb.body, defuse.DefUse(cb.body)
        ts = _calls(bc, r"bool>::then_some$")
        good = False
        if len(ts) == 1:
            c0 = defuse.show(duc.origin(ts[0][1].args[0]))
            c1 = defuse.show(duc.origin(ts[0][1].args[1]))
            hi = "(branch(checked_sub(arg3, get(block_count(&arg0)))) as Continue).0"
            lo = "lowest_candidate_boundary(arg0, arg1, arg2)"
            good = c0 == "(%s Le %s)" % (lo, hi) and c1 == "tuple{%s, %s}" % (lo, hi)
        if good:
            chk.ok("ANCHOR", "candidate bounds: highest = most_recent - interval (None when absent), "
                   "Some((lowest, highest)) exactly when lowest <= highest")
        else:
            chk.fail("ANCHOR", "bounds", "candidate_boundary_bounds is not `(lowest <= highest).then_some((lowest, "
                     "most_recent - interval))`", cb.span.loc())
    MR = "boundary_at_or_below_u32(&arg0, from(arg%d))"
    d = _one(chk, w, "ANCHOR", P + "draw_anchor_boundary")
    if d is not None:
        dd = defuse.DefUse(d.body)
        cbs = [[defuse.show(dd.origin(a)) for a in t.args] for _bb, t in _calls(d.body, r"::candidate_boundary_bounds$")]
        sm = [[defuse.show(dd.origin(a)) for a in t.args] for _bb, t in _calls(d.body, r"::sample_recency_weighted_boundary$")]
        mr = MR % 3
        br = "(branch(candidate_boundary_bounds(arg0, from(arg1), from(arg2), %s)) as Continue).0" % mr
        if cbs == [["arg0", "from(arg1)", "from(arg2)", mr]] and \
                sm == [["arg0", br + ".0", br + ".1", mr, "&*arg4"]]:
            chk.ok("ANCHOR", "draw_anchor_boundary: most_recent = boundary_at_or_below(tip); bounds from "
                   "(interval, activation, funding, most_recent); None when empty; samples within them")
        else:
            chk.fail("ANCHOR", "draw_anchor_boundary", "bounds from %s, sampling with %s" % (cbs, sm), d.span.loc())
    r = _one(chk, w, "ANCHOR", P + "redraw_anchor_boundary")
    if r is not None:
        rb, dr = r.body, defuse.DefUse(r.body)
        sm = [(bb, [defuse.show(dr.origin(a)) for a in t.args]) for bb, t in
              _calls(rb, r"::sample_recency_weighted_boundary$")]
        mr = MR % 2
        hi = "(branch(checked_sub(%s, get(block_count(&arg0)))) as Continue).0" % mr
        lo = "boundary_at_or_above_u32(&arg0, from(arg1))"
        good = len(sm) == 1 and sm[0][1] == ["arg0", lo, hi, mr, "&*arg3"]
        if good:
            # lowest <= highest holds on the way to the sampling call
            lo_call = [t.dest.local for _bb, t in _calls(rb, r"::boundary_at_or_above_u32$") if t.dest is not None]
            good = len(lo_call) == 1 and _holds(rb, dr, sm[0][0], "Le", (lo_call[0],),
                                                lambda o: defuse.show(o) == hi)
        if good:
            chk.ok("ANCHOR", "redraw_anchor_boundary: highest = most_recent - interval (None when absent), lowest = "
                   "boundary_at_or_above(prior), sampling only when lowest <= highest")
        else:
            chk.fail("ANCHOR", "redraw_anchor_boundary", "sampling with %s" % sm, r.span.loc())
    for nm, want in (("boundary_at_or_below", "from_u32((from(arg1) Sub rem(from(arg1), *arg0.0)))"),):
        g = _one(chk, w, "ANCHOR", Z318 + "AnchorBucketInterval::" + nm)
        if g is not None:
            o = defuse.show(defuse.DefUse(g.body).origin_local(0))
            if o == want:
                chk.ok("ANCHOR", "AnchorBucketInterval::%s(h) = h - h %% interval (a grid boundary)" % nm)
            else:
                chk.fail("ANCHOR", nm, "%s returns %s" % (nm, o), g.span.loc())
    for nm in ("boundary_at_or_below_u32", "boundary_at_or_above_u32"):
        g = _one(chk, w, "ANCHOR", P + nm)
        if g is not None:
            o = defuse.show(defuse.DefUse(g.body).origin_local(0))
            if o == "from(%s(&*arg0, from_u32(arg1)))" % nm[:-4]:
                chk.ok("ANCHOR", "%s wraps AnchorBucketInterval::%s" % (nm, nm[:-4]))
            else:
                chk.fail("ANCHOR", nm, "%s returns %s" % (nm, o), g.span.loc())


def rule_grid_and_codes(chk, w):
    """boundary_at_or_above / is_boundary have the prescribed arithmetic; the classification's integer
    codes decode to what encoded them (unknown codes to Unknown)."""
    ab = _one(chk, w, "ANCHOR", Z318 + "AnchorBucketInterval::boundary_at_or_above")
    if ab is not None:
        b, du = ab.body, defuse.DefUse(ab.body)
        ret = defuse.show(du.origin_local(0))
        m = re.match(r"from_u32\(_(\d+)\)$", ret)
        alts = []
        guard = None
        if m:
            l = int(m.group(1))
            for kind, bi, x in du.defs.get(l, []):
                if kind == "stmt" and x.rv.kind == "use":
                    alts.append((bi, defuse.show(du.origin(x.rv.ops[0]))))
                elif kind == "call":
                    alts.append((bi, defuse.show(("call", x.callee.target_p(), [du.origin(a) for a in x.args]))))
            sw = [(bi, blk.term) for bi, blk in enumerate(b.blocks) if not blk.cleanup and blk.term.kind == "switch"]
            if len(sw) == 1 and defuse.show(du.origin(sw[0][1].discr)) == "(rem(from(arg1), *arg0.0) Eq 0)":
                t = sw[0][1]
                zero_tb = t.otherwise if [a for a, _x in t.arms] == [0] else dict(t.arms).get(1)
                nz_tb = dict(t.arms).get(0)
                guard = {}
                for bi, txt in alts:
                    if zero_tb is not None and (bi == zero_tb or b.dominates(zero_tb, bi)):
                        guard["boundary"] = txt
                    if nz_tb is not None and (bi == nz_tb or b.dominates(nz_tb, bi)):
                        guard["between"] = txt
        want = {"boundary": "from(arg1)",
                "between": "saturating_add(from(arg1), (get(*arg0.0) Sub rem(from(arg1), *arg0.0)))"}
        if guard == want:
            chk.ok("ANCHOR", "boundary_at_or_above(h) = h when h % interval == 0, else h + (interval - h % interval) "
                   "(saturating)", sample=True)
        else:
            chk.fail("ANCHOR", "boundary_at_or_above", "boundary_at_or_above computes %s" % (guard or alts), ab.span.loc())
    ib = _one(chk, w, "ANCHOR", Z318 + "AnchorBucketInterval::is_boundary")
    if ib is not None:
        o = defuse.show(defuse.DefUse(ib.body).origin_local(0))
        if o == "(rem(from(arg1), *arg0.0) Eq 0)":
            chk.ok("ANCHOR", "is_boundary(h) = (h % interval == 0)")
        else:
            chk.fail("ANCHOR", "is_boundary", "is_boundary computes %s" % o, ib.span.loc())
    # classification codes
    tc = _one(chk, w, "CODE", Z318 + "Zip318Classification::to_code")
    fc = _one(chk, w, "CODE", Z318 + "Zip318Classification::from_code")
    if tc is None or fc is None:
        return
    cv = [v["name"] for v in w.adts[Z318 + "Zip318Classification"]["variants"]]
    kv = [v["name"] for v in w.adts[Z318 + "Zip318TxKind"]["variants"]]

    def leaf_const(b, tb):
        cur, hops = tb, 0
        while cur is not None and hops < 4:
            hops += 1
            for s in b.blocks[cur].stmts:
                if s.kind == "=" and s.place.local == 0 and s.rv.kind == "use" and s.rv.ops[0].kind == "const":
                    return s.rv.ops[0].info.get("v")
            tt = b.blocks[cur].term
            cur = tt.target if tt.kind == "goto" else None
        return None
    b, du = tc.body, defuse.DefUse(tc.body)
    enc = {}
    for bi, blk in enumerate(b.blocks):
        t = blk.term
        if blk.cleanup or t.kind != "switch":
            continue
        o = du.origin(t.discr)
        txt = defuse.show(o[1]) if o[0] == "disc" else ""
        if txt == "*arg0":
            for v, tb in t.arms:
                if isinstance(v, int) and v < len(cv) and b.blocks[tb].term.kind != "switch":
                    c = leaf_const(b, tb)
                    if c is not None:
                        enc[cv[v]] = c
        elif txt == "(*arg0 as Conforms).0":
            for v, tb in t.arms:
                if isinstance(v, int) and v < len(kv):
                    c = leaf_const(b, tb)
                    if c is not None:
                        enc["Conforms(%s)" % kv[v]] = c
    b, du = fc.body, defuse.DefUse(fc.body)
    dec, other = {}, None
    for bi, blk in enumerate(b.blocks):
        t = blk.term
        if blk.cleanup or t.kind != "switch" or defuse.show(du.origin(t.discr)) != "arg0":
            continue
        for v, tb in list(t.arms) + [("else", t.otherwise)]:
            if tb is None:
                continue
            for s in b.blocks[tb].stmts:
                if s.kind == "=" and s.place.local == 0 and s.rv.kind == "agg" and s.rv.agg[1] == Z318 + "Zip318Classification":
                    name = s.rv.agg[2]
                    if s.rv.ops:
                        name = "%s(%s)" % (name, defuse.show(du.origin(s.rv.ops[0])).rsplit("::", 1)[-1].strip("{}"))
                    if v == "else":
                        other = name
                    else:
                        dec[v] = name
    want_keys = {"Unknown", "Nonconforming"} | {"Conforms(%s)" % k for k in kv}
    inv = {c: n for n, c in enc.items()}
    known_ok = set(enc) == want_keys and len(inv) == len(enc) and \
        all(dec.get(c, other) == n for n, c in enc.items()) and \
        all(inv.get(c) == n for c, n in dec.items())
    if known_ok and other == "Unknown":
        chk.ok("CODE", "from_code(to_code(x)) = x for every classification %s; an unrecognised code decodes to Unknown"
               % dict(sorted(enc.items(), key=lambda x: x[1])), sample=True)
    else:
        chk.fail("CODE", "tables", "to_code %s, from_code %s (other codes -> %s)" % (enc, dec, other), tc.span.loc())


def rule_classify(chk, w):
    """Monotonicity of classify over the information order of its evidence, decided on the decision
    tables of classify / classify_preparation / classify_crossing (loop-free paths with the tests
    they take), evaluated over an abstraction of the evidence: every field is unanswered or answered
    with a value of one of the classes the tests distinguish."""
    import itertools
    fns = {"classify": _one(chk, w, "CLASSIFY", Z318 + "classify")}
    if None in fns.values():
        return
    # the helpers classify delegates to (a call whose result is the classification), transitively; their
    # number and names are the code's business
    work = ["classify"]
    while work:
        n = work.pop()
        for _bb, t in fns[n].body.calls():
            if t.callee.indirect is None and t.dest is not None and t.dest.local == 0 and not t.dest.proj and \
                    t.callee.target_p().startswith(Z318):
                hn = t.callee.target_p().rsplit("::", 1)[-1]
                hf = w.by_p.get(t.callee.target_p(), [])
                if hn not in fns and len(hf) == 1:
                    fns[hn] = hf[0]
                    work.append(hn)
    tables = {}
    for n, f in fns.items():
        b, du = f.body, defuse.DefUse(f.body)
        try:
            paths = G.loopfree_paths(b)
        except ValueError as e:
            chk.fail("CLASSIFY", n + "/paths", "%s is not loop-free (%s)" % (n, e), f.span.loc())
            return
        rows = []
        for taken, blocks in paths:
            conds = []
            for sw, v in taken:
                o = du.origin(b.blocks[sw].term.discr)
                conds.append((defuse.show(o) if o[0] != "disc" else "disc(%s)" % defuse.show(o[1]), v,
                              [a for a, _t in b.blocks[sw].term.arms]))
            outs = []
            for bi in blocks:
                for s in b.blocks[bi].stmts:
                    if s.kind == "=" and s.place.local == 0 and not s.place.proj and s.rv.kind == "agg":
                        outs.append(s.rv.agg[2])
                t = b.blocks[bi].term
                if t.kind == "call" and t.dest is not None and t.dest.local == 0 and not t.dest.proj:
                    outs.append(("call", t.callee.target_p().rsplit("::", 1)[-1],
                                 [defuse.show(du.origin(a)) for a in t.args]))
            if len(outs) != 1:
                chk.fail("CLASSIFY", n + "/outcome", "a path of %s has the outcomes %s" % (n, outs), f.span.loc())
                return
            rows.append((conds, outs[0]))
        tables[n] = rows
    chk.analysed["classify_paths"] = {n: len(r) for n, r in tables.items()}
    BOOLS = ["anchor_on_grid", "fee_is_canonical", "other_bundles_present", "expiry_is_canonical", "source_is_send_to_self"]
    dom = {f_: [None, 0, 1] for f_ in BOOLS}
    dom["source_actions"] = [None, "prep", "two", "preptwo", "other"]
    dom["destination_actions"] = [None, 0, 1, 7]
    dom["sole_destination_value"] = [None, "canon", "noncanon"]
    fields = sorted(dom)

    class Unrecognised(Exception):
        pass

    def ev(txt, st, arg2):
        m = re.match(r"^(eq|ne)\(&\*arg0\.(\w+), &core::option::Option::Some\{(\d+)\}\)$", txt)
        if m:
            v_ = st[m.group(2)]
            if m.group(2) == "source_actions":
                same = v_ is not None and int(m.group(3)) == 2 and v_ in ("two", "preptwo")
                if int(m.group(3)) != 2:
                    raise Unrecognised(txt)
            else:
                same = v_ is not None and v_ == int(m.group(3))
            return int(same == (m.group(1) == "eq"))
        m = re.match(r"^\(\(\*arg0\.(\w+) as Some\)\.0 (Ne|Eq) (\d+)\)$", txt)
        if m and m.group(1) in st and isinstance(st[m.group(1)], int):
            return int((st[m.group(1)] == int(m.group(3))) == (m.group(2) == "Eq"))
        m = re.match(r"^disc\(\*arg0\.(\w+)\)$", txt)
        if m:
            return int(st[m.group(1)] is not None)
        m = re.match(r"^\(\*arg0\.(\w+) as Some\)\.0$", txt)
        if m and m.group(1) in st and isinstance(st[m.group(1)], int):
            return st[m.group(1)]
        # the source action count: the helper's parameter, or the Some payload when tested in classify itself
        SA = "(*arg0.source_actions as Some).0"
        if SA in txt and txt != SA:
            txt = txt.replace(SA, "arg2")
            arg2 = st["source_actions"]
        if txt == "(arg2 Ne preparation_tx_actions(&*arg1))":
            return int(arg2 not in ("prep", "preptwo"))
        if txt == "(arg2 Eq preparation_tx_actions(&*arg1))":
            return int(arg2 in ("prep", "preptwo"))
        m = re.match(r"^\(arg2 (Ne|Eq) (\d+)\)$", txt)
        if m and int(m.group(2)) == 2:
            return int((arg2 not in ("two", "preptwo")) == (m.group(1) == "Ne"))
        if txt == "is_canonical_denomination(&*arg1, (*arg0.sole_destination_value as Some).0)":
            return int(st["sole_destination_value"] == "canon")
        raise Unrecognised(txt)

    def run(n, st, arg2=None, depth=0):
        hits = []
        for conds, out in tables[n]:
            ok = True
            for txt, v, arms in conds:
                x = ev(txt, st, arg2)
                if (v == "else" and x in arms) or (v != "else" and x != v):
                    ok = False
                    break
            if ok:
                hits.append(out)
        if len(hits) != 1:
            raise Unrecognised("%d paths of %s match one evidence state" % (len(hits), n))
        out = hits[0]
        if isinstance(out, tuple):
            if out[2][0] != "&*arg0" and out[2][0] != "arg0":
                raise Unrecognised("callee is given other evidence: %s" % out[2][0])
            if out[2][2] != "(*arg0.source_actions as Some).0":
                raise Unrecognised("callee is given %s as the source action count" % out[2][2])
            return run(out[1], st, st["source_actions"], depth + 1)
        return out
    CONFIRM = ("anchor_on_grid", "fee_is_canonical")
    bad_mono, bad_refute, n_states = [], [], 0
    try:
        cache = {}
        for vals in itertools.product(*[dom[f_] for f_ in fields]):
            st = dict(zip(fields, vals))
            cache[vals] = run("classify", st)
        for vals, c in cache.items():
            n_states += 1
            for i, f_ in enumerate(fields):
                if vals[i] is not None:
                    continue
                for nv in dom[f_][1:]:
                    v2 = vals[:i] + (nv,) + vals[i + 1:]
                    c2 = cache[v2]
                    if c == "Nonconforming" and c2 != "Nonconforming":
                        bad_refute.append((dict(zip(fields, vals)), f_, nv, c, c2))
                    elif c == "Conforms" and c2 != "Conforms" and f_ not in CONFIRM:
                        bad_mono.append((dict(zip(fields, vals)), f_, nv, c, c2))
                    elif c == "Conforms" and c2 != "Conforms" and f_ in CONFIRM and nv != 0:
                        bad_mono.append((dict(zip(fields, vals)), f_, nv, c, c2))
        bottom = cache[tuple(None for _ in fields)]
    except Unrecognised as e:
        chk.fail("CLASSIFY", "tests", "classify tests something this rule does not understand: %s" % e, fns["classify"].span.loc())
        return

    def brief(x):
        st, f_, nv, c, c2 = x
        return "%s with %s learning %s=%s becomes %s" % (c, {k: v for k, v in st.items() if v is not None}, f_, nv, c2)
    if bottom == "Unknown":
        chk.ok("CLASSIFY", "with nothing answered the classification is Unknown")
    else:
        chk.fail("CLASSIFY", "bottom", "with nothing answered classify returns %s" % bottom, fns["classify"].span.loc())
    if not bad_refute:
        chk.ok("CLASSIFY", "a refutation is never retracted: Nonconforming stays Nonconforming under every further "
               "answer (%d abstract evidence states)" % n_states, sample=True)
    else:
        chk.fail("CLASSIFY", "refute", "%d refinement(s) retract a refutation, e.g. %s" % (len(bad_refute), brief(bad_refute[0])),
                 fns["classify"].span.loc())
    if not bad_mono:
        chk.ok("CLASSIFY", "a Conforms decision is changed by no further answer except a negative confirmatory "
               "observation (anchor_on_grid / fee_is_canonical = false; documented obligation on the source)", sample=True)
    else:
        chk.fail("CLASSIFY", "monotone", "%d refinement(s) change a reached decision, e.g. %s" % (len(bad_mono), brief(bad_mono[0])),
                 fns["classify"].span.loc())


def main(tier):
    chk = Check("C17", "other", tier)
    chk.explanation = (
        "Decides the clauses of C17 that are visible in the shape of the code, on MIR def-use origins and "
        "edge conditions: drawn delays are returned only after the cap test; cumulative broadcast "
        "heights start at the commit height and only grow by saturating addition; every Schedule's "
        "expiry is the canonical expiry of its own broadcast height and expiry_height has the canonical "
        "form; shuffles touch the slice only through swap; the sampled anchor boundary is returned "
        "only inside [lowest, highest] with age in 1..=cap, computed with checked arithmetic from the "
        "most recent boundary, and the bounds have the prescribed form. Not decided: termination of "
        "the rejection loops, the wake-up schedule, monotonicity of classification, uniformity.")
    chk.trusted = ["rustc MIR", "core integer arithmetic (saturating_add, checked_mul/sub, max)",
                   "zcash_protocol::consensus::BlockHeight conversions"]
    chk.rule("DELAY", "delays are returned only after the cap test", floor=4)
    chk.rule("MONO", "broadcast heights start at the commit height and only grow (saturating)", floor=5)
    chk.rule("EXPIRY", "every Schedule / created or rebuilt transaction carries the canonical expiry of its height", floor=5)
    chk.rule("SHUFFLE", "shuffles are products of swaps", floor=2)
    chk.rule("ANCHOR", "sampled anchors lie in the candidate set; bounds have the prescribed form", floor=11)
    chk.rule("CODE", "classification codes decode to what encoded them", floor=1)
    chk.rule("CLASSIFY", "classification is monotone in the evidence", floor=3)
    w = zf.World(extract.facts_dir("all"), ["zcash_pool_migration", "zcash_protocol"])
    rule_delay(chk, w)
    rule_mono(chk, w)
    rule_expiry(chk, w)
    rule_expiry_tx(chk, w)
    rule_shuffle(chk, w)
    rule_anchor(chk, w)
    rule_grid_and_codes(chk, w)
    rule_classify(chk, w)
    chk.finish()
