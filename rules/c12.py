"""C12 — ZIP 321 requests: only valid requests parse, tables agree, no panic (structural clauses).

Decided on the MIR of the zip321 crate (and zcash_protocol::memo):
  VC-1   Payment / TransactionRequest are built only by their listed constructors; from_uri
         obtains every payment from parse::to_payment
  RULES  the ZIP 321 rejections are live and cannot be bypassed: a payment without an address is
         RecipientMissing; assuming the recipient is transparent-only and the amount equals zero,
         to_payment returns ZeroValuedTransparentOutput and never stores the amount; assuming the
         recipient cannot receive a memo it returns TransparentMemo and never stores the memo;
         assuming has_duplicate_param, from_uri returns DuplicateParameter and never records the
         parameter; `req-` names are refused; more than 9999 payments / an index above 9999 are
         TooManyPayments; Payment::new applies the same two payment rules as the parser
  GRAMMAR the index grammar admits 1..=9999 without leading zero (first digit from "123456789",
         at most 3 more digits) and amounts at most 8 decimals (abstract interpretation of the
         length tests), amounts enter through checked_mul(COIN)/checked_add/Zatoshis::from_u64
  NAMES  the parameter names the renderer emits are exactly the names the parser gives a typed
         meaning; names the parser reserves cannot enter a Payment's other_params unchecked
  PF     no undischarged class-A panic site reachable from from_uri / to_uri / new / total
Not decided: exact decimal conversion for every amount, percent-encoding round trip of arbitrary
Unicode, memo byte preservation (base64 is external).
"""
import re

import absint as A
import assume as S
import defuse
import extract
import panics
import vc
import zf
from common import Check

Z = "zip321::"
TYPED = {"address": "Addr", "amount": "Amount", "memo": "Memo", "label": "Label", "message": "Message"}


def _calls(body, rx):
    return [(bb, t) for bb, t in body.calls() if not body.blocks[bb].cleanup and
            t.callee.indirect is None and re.search(rx, t.callee.target_p())]


def _field_stores(body, field):
    return [bi for bi, blk in enumerate(body.blocks) if not blk.cleanup for s in blk.stmts
            if s.kind == "=" and s.place.proj and s.place.proj[0] == "." + field]


def _err_aggs(res, adt):
    return {a.rv.agg[2] for _b, a in res.aggs if a.rv.agg[1] == adt}


def rule_vc(chk, w):
    vc.vc1(chk, "VC-1", w, Z + "Payment", r"^zip321::(Payment::(new|without_memo)|parse::to_payment)$")
    vc.vc1(chk, "VC-1", w, Z + "TransactionRequest",
           r"^zip321::TransactionRequest::(empty|new|from_indexed|from_uri(::\{closure#\d+\})?)$")
    fu = w.by_p.get(Z + "TransactionRequest::from_uri", [])
    if len(fu) != 1:
        chk.fail("VC-1", "from_uri/missing", "from_uri not found")
        return
    owned = vc.owned(w, fu[0])
    makers = {t.callee.target_p() for g in owned for _bb, t in g.body.calls()
              if t.callee.indirect is None and re.search(r"Payment::(new|without_memo)$|parse::to_payment$",
                                                         t.callee.target_p())}
    if makers == {Z + "parse::to_payment"}:
        chk.ok("VC-1", "from_uri obtains its payments only from parse::to_payment", sample=True)
    else:
        chk.fail("VC-1", "from_uri/payment-source", "from_uri builds payments through %s" % sorted(makers),
                 fu[0].span.loc())


def _root_place(du, o):
    """(local, field-or-None) behind an origin tree made of refs / field reads / accessor calls"""
    fld = None
    while isinstance(o, tuple) and o:
        if o[0] in ("ref", "deref"):
            o = o[1]
        elif o[0] == "field":
            fld = o[2]
            o = o[1]
        elif o[0] == "variant":
            o = o[1]
        elif o[0] == "call" and o[2] and re.search(r"::(as_ref|as_deref|recipient_address|deref|borrow|unwrap|"
                                                   r"expect|clone)$", o[1]):
            if o[1].endswith("::recipient_address"):
                fld = ".recipient_address"
            o = o[2][0]
        else:
            break
    if isinstance(o, tuple) and o and o[0] == "local":
        return o[1], fld
    if isinstance(o, tuple) and o and o[0] == "arg":
        return o[1] + 1, fld
    return None, fld


def _recipient_fixed(chk, w, f):
    """ZIP 321's per-payment rules relate a parameter to the payment's address, wherever the address
    parameter stands in the URI. So the address the tests consult must not be (re)assigned in the
    loop that runs the tests — otherwise the outcome depends on the parameter order."""
    b = f.body
    du = defuse.DefUse(b)
    TESTS = r"ZcashAddress::(is_transparent_only|can_receive_memo)$"
    found = []          # (test name, block in to_payment, origin of the receiver in to_payment)
    for bb, t in _calls(b, TESTS):
        found.append((t.callee.target_p().rsplit("::", 1)[-1], bb, du.origin(t.args[0])))
    for g in [g for g in w.fns.values() if g.is_closure() and g.root == f.id]:
        du2 = defuse.DefUse(g.body)
        for _bb, t in _calls(g.body, TESTS):
            o = defuse.strip_refs(du2.origin(t.args[0]))
            if o != ("arg", 1):
                found.append((t.callee.target_p().rsplit("::", 1)[-1], None, None))
                continue
            # the combinator call in to_payment that is handed this closure
            for bb, t2 in b.calls():
                if b.blocks[bb].cleanup:
                    continue
                if any((lambda x: x[0] == "agg" and x[1] == "closure:" + g.id)(du.origin(a)) for a in t2.args[1:]):
                    found.append((t.callee.target_p().rsplit("::", 1)[-1], bb, du.origin(t2.args[0])))
    if not found:
        chk.fail("RULES", "to_payment/recipient-fixed/missing", "no address-dependent validity test found in "
                 "to_payment or its closures", f.span.loc())
        return
    reach = {}
    bad = []
    for name, bb, o in found:
        if bb is None:
            bad.append("%s: receiver not traceable to to_payment" % name)
            continue
        loc, fld = _root_place(du, o)
        if loc is None:
            bad.append("%s: receiver %s not traceable to a local" % (name, defuse.show(o)))
            continue
        for kind, db, x in du.defs.get(loc, []):
            pl = x.place if kind != "call" and hasattr(x, "place") else getattr(x, "dest", None)
            proj = tuple(pl.proj) if pl is not None else ()
            if kind == "partial" and fld is not None and proj and proj[0] != fld:
                continue            # another field of the same struct
            r1 = reach.setdefault(db, b.reachable(db))
            r2 = reach.setdefault(bb, b.reachable(bb))
            if (bb in r1 or bb == db) and (db in r2 or db == bb) and (db != bb or bb in r2):
                bad.append("%s consults _%d%s, which is assigned in the same loop (%s)"
                           % (name, loc, fld or "", x.span.loc()))
    if bad:
        chk.fail("RULES", "to_payment/recipient-fixed", "the payment rules depend on where the address "
                 "parameter stands: " + "; ".join(sorted(set(bad))), f.span.loc())
    else:
        chk.ok("RULES", "to_payment: the address consulted by %s is fixed before the parameter loop"
               % sorted({n for n, _b, _o in found}))


def rule_rules(chk, w):
    tp = w.by_p.get(Z + "parse::to_payment", [])
    if len(tp) != 1:
        chk.fail("RULES", "to_payment/missing", "parse::to_payment not found")
        return
    f = tp[0]
    b = f.body
    du = defuse.DefUse(b)
    ZE = Z + "Zip321Error"
    # recipient
    oko = _calls(b, r"Option::<T>::ok_or$")
    good = False
    for bb, t in oko:
        if "RecipientMissing{arg1}" in defuse.show(du.origin(t.args[1])):
            res = S.after_call(b, bb, S.E("Result", "Err"))
            good = res is not None and {rv for _b, rv in res.returns} <= {"variant:Err"} and \
                not any(a.rv.agg[1] == Z + "Payment" for _b, a in res.aggs)
    if good:
        chk.ok("RULES", "to_payment: no address among the parameters => Err(RecipientMissing(index)), "
               "no Payment is built", sample=True)
    else:
        chk.fail("RULES", "to_payment/recipient", "a payment without a recipient address is not refused "
                 "with RecipientMissing", f.span.loc())
    # zero-valued transparent output
    it = _calls(b, r"ZcashAddress::is_transparent_only$")
    eq = [(bb, t) for bb, t in _calls(b, r"Zatoshis as core::cmp::PartialEq>::eq$")
          if defuse.show(du.origin(t.args[1])) in ("&0", "0")]
    if len(it) == 1 and len(eq) == 1:
        start = it[0][0] if b.dominates(it[0][0], eq[0][0]) else eq[0][0]
        res = S.explore(b, start, {}, call_results={it[0][0]: S.B(True), eq[0][0]: S.B(True)})
        st = set(_field_stores(b, "amount"))
        if not res.too_big and {rv for _b, rv in res.returns} <= {"variant:Err"} and \
                "ZeroValuedTransparentOutput" in _err_aggs(res, ZE) and not (st & res.blocks) and st:
            chk.ok("RULES", "to_payment: transparent-only recipient and amount == 0 => "
                   "Err(ZeroValuedTransparentOutput), the amount is never stored", sample=True)
        else:
            chk.fail("RULES", "to_payment/zero-transparent", "a zero-valued output to a transparent-only "
                     "recipient is not refused (returns %s, amount stored: %s)"
                     % (sorted({rv for _b, rv in res.returns}), bool(st & res.blocks)), it[0][1].span.loc())
        # and the amount is stored only after that test
        if st and all(b.dominates(it[0][0], x) or b.dominates(eq[0][0], x) for x in st):
            chk.ok("RULES", "to_payment: every store of the amount follows the zero/transparent test")
        else:
            chk.fail("RULES", "to_payment/amount-unguarded", "the amount can be stored without the "
                     "zero-valued transparent output test", f.span.loc())
    else:
        chk.fail("RULES", "to_payment/zero-transparent/missing", "is_transparent_only / `== Zatoshis::ZERO` "
                 "test not found in to_payment (%d, %d)" % (len(it), len(eq)), f.span.loc())
    # memo
    cm = _calls(b, r"ZcashAddress::can_receive_memo$")
    if len(cm) == 1:
        res = S.explore(b, cm[0][0], {}, call_results={cm[0][0]: S.B(False)})
        st = set(_field_stores(b, "memo"))
        if not res.too_big and {rv for _b, rv in res.returns} <= {"variant:Err"} and \
                "TransparentMemo" in _err_aggs(res, ZE) and not (st & res.blocks) and st and \
                all(b.dominates(cm[0][0], x) for x in st):
            chk.ok("RULES", "to_payment: a memo for a recipient that cannot receive one => "
                   "Err(TransparentMemo), the memo is never stored", sample=True)
        else:
            chk.fail("RULES", "to_payment/memo", "a memo for a recipient that cannot receive memos is not "
                     "refused", cm[0][1].span.loc())
    else:
        chk.fail("RULES", "to_payment/memo/missing", "can_receive_memo test not found in to_payment",
                 f.span.loc())
    # the address consulted by the validity tests is fixed before the parameters are examined
    _recipient_fixed(chk, w, f)
    # duplicates
    fu = w.by_p.get(Z + "TransactionRequest::from_uri", [])
    if len(fu) == 1:
        b = fu[0].body
        hd = _calls(b, r"parse::has_duplicate_param$")
        pushes = {bb for bb, _t in _calls(b, r"Vec::<T, A>::push$")}
        if len(hd) == 1:
            res = S.after_call(b, hd[0][0], S.B(True))
            if res is not None and {rv for _b, rv in res.returns} <= {"variant:Err"} and \
                    "DuplicateParameter" in _err_aggs(res, ZE) and not (pushes & res.blocks) and pushes and \
                    all(b.dominates(hd[0][0], x) for x in pushes):
                chk.ok("RULES", "from_uri: a duplicate parameter for a payment index => "
                       "Err(DuplicateParameter), the parameter is not recorded", sample=True)
            else:
                chk.fail("RULES", "from_uri/duplicate", "a duplicate parameter is not refused",
                         hd[0][1].span.loc())
        else:
            chk.fail("RULES", "from_uri/duplicate/missing", "has_duplicate_param is not consulted by from_uri",
                     fu[0].span.loc())
    # has_duplicate_param: one `true` return per parameter kind
    hdp = w.by_p.get(Z + "parse::has_duplicate_param", [])
    kinds = [v["name"] for v in (w.adts.get(Z + "parse::Param") or {"variants": []})["variants"]]
    if len(hdp) == 1 and kinds:
        # the decision may sit in the function itself (a loop with `return true`) or in a closure it
        # hands to an iterator adaptor (`iter().any(|p0| match ..)`)
        doms = set()
        bodies = [hdp[0].body] + [g.body for g in w.fns.values() if g.is_closure() and g.root == hdp[0].id]
        for b in bodies:
            du = defuse.DefUse(b)
            # blocks in which the result becomes true or a computed boolean (e.g. `n == n0`)
            trues = [bi for bi, blk in enumerate(b.blocks) if not blk.cleanup for s in blk.stmts
                     if s.kind == "=" and s.place.local == 0 and not s.place.proj and s.rv.kind == "use" and
                     (s.rv.ops[0].kind != "const" or s.rv.ops[0].info.get("v") == 1)]
            trues += [bi for bi, blk in enumerate(b.blocks) if not blk.cleanup and blk.term.kind == "call" and
                      blk.term.dest is not None and blk.term.dest.local == 0 and not blk.term.dest.proj and
                      b.local_ty(0) == "bool"]
            if b.local_ty(0) != "bool":
                continue
            for tb in trues:
                sw = vc.controlling_switch(b, tb)
                hops = 0
                while sw is not None and hops < 6:
                    d = b.blocks[sw].term
                    for v, tgt in d.arms:
                        if tgt == tb or b.dominates(tgt, tb):
                            for st in b.blocks[sw].stmts:
                                if st.kind == "=" and st.rv.kind == "disc" and st.place.local == d.discr.place.local:
                                    doms.add((defuse.show(du.origin_place(st.rv.place))[:12], v))
                    sw = vc.controlling_switch(b, sw)
                    hops += 1
        got = {v for _w, v in doms if isinstance(v, int)}
        if got >= set(range(len(kinds))):
            chk.ok("RULES", "has_duplicate_param returns true for a repeated parameter of every kind (%s)"
                   % ", ".join(kinds))
        else:
            chk.fail("RULES", "has_duplicate_param/kinds", "has_duplicate_param reports a duplicate only "
                     "for kinds %s of %s" % (sorted(kinds[i] for i in got if i < len(kinds)), kinds),
                     hdp[0].span.loc())
    else:
        chk.fail("RULES", "has_duplicate_param/missing", "has_duplicate_param not found")
    # req- parameters
    tip = w.by_p.get(Z + "parse::to_indexed_param", [])
    if len(tip) == 1:
        b = tip[0].body
        du = defuse.DefUse(b)
        sw_ = [(bb, t) for bb, t in _calls(b, r"str>::starts_with$")
               if defuse.show(du.origin(t.args[1])).strip("&*") == "'req-'"]
        if len(sw_) == 1:
            res = S.after_call(b, sw_[0][0], S.B(True))
            if res is not None and {rv for _b, rv in res.returns} <= {"variant:Err"} and \
                    not any(a.rv.agg[1] == Z + "parse::IndexedParam" for _b, a in res.aggs):
                chk.ok("RULES", "to_indexed_param: an unrecognised `req-` parameter is refused", sample=True)
            else:
                chk.fail("RULES", "req", "an unknown `req-` parameter is not refused", sw_[0][1].span.loc())
        else:
            chk.fail("RULES", "req/missing", "the `req-` prefix test was not found", tip[0].span.loc())
    # payment count / index bound
    for nm, rx in (("new", r"\(len\(&arg0\) Gt 9999\)"), ("from_indexed", None)):
        f = w.by_p.get(Z + "TransactionRequest::" + nm, [])
        if len(f) != 1:
            chk.fail("RULES", nm + "/missing", "TransactionRequest::%s not found" % nm)
            continue
        b = f[0].body
        du = defuse.DefUse(b)
        good = False
        if rx:
            for bi, blk in enumerate(b.blocks):
                for si, s in enumerate(blk.stmts):
                    if s.kind == "=" and s.rv.kind == "bin" and re.match(rx, defuse.show(du.origin_local(s.place.local))):
                        res = S.explore(b, bi, {}, inject={(bi, si): S.B(True)})
                        good = {rv for _b, rv in res.returns} <= {"variant:Err"} and \
                            "TooManyPayments" in _err_aggs(res, Z + "Zip321Error")
        else:
            cl = [g for g in w.fns.values() if g.is_closure() and g.root == f[0].id]
            lim = [defuse.show(defuse.DefUse(g.body).origin_local(0)) for g in cl]
            fnd = _calls(b, r"Iterator>?::find$")
            if len(fnd) == 1 and any(re.search(r"Gt 9999\)$", x) for x in lim):
                res = S.after_call(b, fnd[0][0], S.E("Option", "Some"))
                good = res is not None and {rv for _b, rv in res.returns} <= {"variant:Err"} and \
                    "TooManyPayments" in _err_aggs(res, Z + "Zip321Error")
        if good:
            chk.ok("RULES", "TransactionRequest::%s refuses more than 9999 payments / an index above 9999"
                   % nm)
        else:
            chk.fail("RULES", nm + "/too-many", "TransactionRequest::%s does not refuse payment indices "
                     "above 9999" % nm, f[0].span.loc())
    # Payment::new applies the same payment rules as the parser
    pn = w.by_p.get(Z + "Payment::new", [])
    if len(pn) == 1:
        b = pn[0].body
        du = defuse.DefUse(b)
        PE = Z + "PaymentError"
        cm = _calls(b, r"ZcashAddress::can_receive_memo$")
        ism = _calls(b, r"Option::<T>::is_some$")
        it = _calls(b, r"ZcashAddress::is_transparent_only$")
        okn = False
        if len(cm) == 1 and len(ism) == 1 and len(it) == 1:
            r1 = S.explore(b, 0, {}, call_results={ism[0][0]: S.B(True), cm[0][0]: S.B(False)})
            r1ok = {rv for _b, rv in r1.returns} <= {"variant:Err"} and "TransparentMemo" in _err_aggs(r1, PE)
            eqs = _calls(b, r"PartialEq.*::eq$")
            r2ok = False
            for ebb, _t in eqs:
                r2 = S.explore(b, 0, {}, call_results={ism[0][0]: S.B(False), it[0][0]: S.B(True),
                                                        ebb: S.B(True)})
                r2ok = r2ok or ({rv for _b, rv in r2.returns} <= {"variant:Err"} and
                                "ZeroValuedTransparentOutput" in _err_aggs(r2, PE))
            okn = r1ok and r2ok
        if okn:
            chk.ok("RULES", "Payment::new refuses a memo for a non-memo recipient and a zero-valued "
                   "transparent output, like the parser", sample=True)
        else:
            chk.fail("RULES", "Payment::new", "Payment::new does not apply both payment rules of the "
                     "parser", pn[0].span.loc())
    else:
        chk.fail("RULES", "Payment::new/missing", "Payment::new not found")


def _len_limit(w, g):
    """(max length for Some, min length for None) of a `|s| if s.len() > N {None} else {Some(s)}`;
    (None, None) unless the length tested is that of the very string handed on"""
    du_ = defuse.DefUse(g.body)
    lens = [defuse.strip_refs(du_.origin(t.args[0])) for _bb, t in _calls(g.body, r"<impl str>::len$")]
    while lens and lens[0][0] == "deref":
        lens[0] = lens[0][1]
    if len(lens) != 1 or lens[0] != ("arg", 1):
        return None, None
    it = A.Interp(w, lambda f: False, {})
    it.record_aggs = {"core::option::Option"}
    it.analyse(g)
    some, none = None, None
    for s in it.sites:
        if s.kind != "enum-agg":
            continue
        fs = [v for k, v in s.state.facts.items()]
        if len(fs) != 1 or len(fs[0].ivs) != 1:
            return None, None
        if s.variant == "Some":
            some = fs[0].ivs[0][1]
        elif s.variant == "None":
            none = fs[0].ivs[0][0]
    return some, none


def rule_grammar(chk, w):
    iname = w.by_p.get(Z + "parse::indexed_name", [])
    pam = w.by_p.get(Z + "parse::parse_amount", [])
    if len(iname) != 1 or len(pam) != 1:
        chk.fail("GRAMMAR", "missing", "indexed_name / parse_amount not found")
        return
    du = defuse.DefUse(iname[0].body)
    first = [defuse.show(du.origin(t.args[0])).strip("&*") for _bb, t in _calls(iname[0].body, r"complete::one_of$")]
    cl = [g for g in w.fns.values() if g.is_closure() and g.root == iname[0].id]
    lim = [_len_limit(w, g) for g in cl]
    more = _calls(iname[0].body, r"complete::digit0$|complete::digit0::")
    if first == ["'123456789'"] and lim == [(3, 4)]:
        chk.ok("GRAMMAR", "payment index = one of 1-9 followed by at most 3 digits: 1..=9999, no "
               "leading zero", sample=True)
    else:
        chk.fail("GRAMMAR", "index", "the payment index grammar is first digit %s, further digits "
                 "limited to %s" % (first, lim), iname[0].span.loc())
    cl = [g for g in w.fns.values() if g.is_closure() and g.root == pam[0].id and
          g.body.local_ty(0).startswith("core::option::Option<&")]
    lim = [_len_limit(w, g) for g in cl]
    if lim == [(8, 9)]:
        chk.ok("GRAMMAR", "amounts carry at most 8 decimal digits", sample=True)
    else:
        chk.fail("GRAMMAR", "decimals", "the decimal part of an amount is limited to %s digits" % lim,
                 pam[0].span.loc())
    # the whole amount string must be consumed, and the value goes through the checked constructors
    conv = [g for g in w.fns.values() if g.is_closure() and g.root == pam[0].id and
            g.body.local_ty(0).startswith("core::result::Result<zcash_protocol::value::Zatoshis")]
    # ... or a named function handed to map_res instead of a closure
    named = {o.info.get("p") for blk in pam[0].body.blocks for st in blk.stmts if st.kind == "="
             for o in (st.rv.ops or []) if o.kind == "const" and "fn" in o.info}
    named |= {o.info.get("p") for _bb, t in pam[0].body.calls() for o in t.args if o.kind == "const" and "fn" in o.info}
    helpers = [g for g in w.fns.values() if not g.is_closure() and g.p in named and g.body is not None and
               g.crate.name == "zip321" and
               g.body.local_ty(0).startswith("core::result::Result<zcash_protocol::value::Zatoshis")]
    conv += helpers
    coin = w.consts.get("zcash_protocol::value::COIN", {}).get("v")
    good = False
    if len(conv) == 1:
        roots = {pam[0].id} | {g.id for g in helpers}
        allcl = [g for g in w.fns.values() if (g.is_closure() and g.root in roots) or g in helpers]
        names = [t.callee.target_p() for g in allcl for _bb, t in g.body.calls()
                 if t.callee.indirect is None]
        fnrefs = [o.info.get("p") or "" for g in allcl for blk in g.body.blocks for st in blk.stmts
                  if st.kind == "=" for o in (st.rv.ops or []) if o.kind == "const" and "fn" in o.info]
        fnrefs += [o.info.get("p") or "" for g in allcl for _bb, t in g.body.calls() for o in t.args
                   if o.kind == "const" and "fn" in o.info]
        du2 = defuse.DefUse(conv[0].body)
        mulargs = [defuse.show(du2.origin(t.args[1])) for _bb, t in _calls(conv[0].body, r"<impl u64>::checked_mul$")]
        good = mulargs == [str(coin)] and \
            any(n.endswith("<impl u64>::checked_add") for n in names) and \
            any(x.endswith("value::Zatoshis::from_u64") for x in fnrefs + names) and \
            not any(re.search(r"wrapping_|saturating_|unchecked_", n) for n in names)
    allc = _calls(pam[0].body, r"combinator::all_consuming")
    if good and allc:
        chk.ok("GRAMMAR", "parse_amount: coins.checked_mul(COIN).checked_add(zats) through "
               "Zatoshis::from_u64; the whole string must be consumed", sample=True)
    else:
        chk.fail("GRAMMAR", "amount-conversion", "parse_amount does not convert through checked_mul(COIN) / "
                 "checked_add / Zatoshis::from_u64 over the whole string", pam[0].span.loc())
    ast = w.by_p.get(Z + "render::amount_str", [])
    if len(ast) == 1:
        du = defuse.DefUse(ast[0].body)
        txt = " ".join(defuse.show(du.origin_local(l)) for l in range(1, len(ast[0].body.locals))
                       if ast[0].body.local_name(l) in ("coins", "zats"))
        if "Div %s" % coin in txt and "Rem %s" % coin in txt:
            chk.ok("GRAMMAR", "render::amount_str splits the amount by the same COIN constant")
        else:
            chk.fail("GRAMMAR", "amount_str", "amount_str does not split by COIN (%s)" % txt[:120],
                     ast[0].span.loc())
    else:
        chk.fail("GRAMMAR", "amount_str/missing", "render::amount_str not found")


def _tree_calls(o, acc=None):
    """callee names in a defuse origin tree"""
    acc = [] if acc is None else acc
    if isinstance(o, tuple):
        if o and o[0] == "call":
            acc.append(o[1])
            if o[1].endswith("Engine::decode"):
                return acc          # what is decoded is judged separately
        for x in o[1:]:
            if isinstance(x, (tuple, list)):
                for y in (x if isinstance(x, list) else [x]):
                    _tree_calls(y, acc)
    return acc


def _strip_view(o):
    """through references and Vec/slice views of the same bytes"""
    while isinstance(o, tuple) and o:
        if o[0] in ("ref", "deref"):
            o = o[1]
        elif o[0] == "call" and re.search(r"Deref>::deref$|::as_slice$|::as_ref$|::borrow$", o[1]) and o[2]:
            o = o[2][0]
        else:
            break
    return o


def rule_memo(chk, w):
    """Structural necessary conditions of "memo bytes survive the round trip": the renderer encodes
    exactly MemoBytes::as_slice, the parser decodes the whole parameter with the same base64 engine
    for every length the renderer can produce, hands the decoded bytes unchanged to
    MemoBytes::from_bytes, and from_bytes accepts exactly the lengths 0..=N of the memo array."""
    enc = w.by_p.get(Z + "memo_to_base64", [])
    dec = w.by_p.get(Z + "memo_from_base64", [])
    fb = w.by_p.get("zcash_protocol::memo::MemoBytes::from_bytes", [])
    adt = w.adts.get("zcash_protocol::memo::MemoBytes")
    m = re.search(r"\[u8; (\d+)\]", adt["variants"][0]["fields"][0]["ty"]) if adt else None
    if len(enc) != 1 or len(dec) != 1 or len(fb) != 1 or not m:
        chk.fail("MEMO", "missing", "memo_to_base64 / memo_from_base64 / MemoBytes::from_bytes not found")
        return
    n = int(m.group(1))
    longest = (n * 4 + 2) // 3          # unpadded base64 length of n bytes
    # renderer
    b = enc[0].body
    du = defuse.DefUse(b)
    ec = _calls(b, r"base64::Engine::encode$")
    e_engine = None
    if len(ec) == 1:
        e_engine = defuse.strip_refs(du.origin(ec[0][1].args[0]))
        data = du.origin(ec[0][1].args[1])
        if data[0] == "call" and data[1].endswith("memo::MemoBytes::as_slice") and \
                defuse.strip_refs(data[2][0]) == ("arg", 0) and e_engine[0] == "constdef":
            chk.ok("MEMO", "memo_to_base64 encodes MemoBytes::as_slice(memo) with %s" % e_engine[1], sample=True)
        else:
            chk.fail("MEMO", "render", "memo_to_base64 encodes %s with %s" % (defuse.show(data), defuse.show(e_engine)),
                     enc[0].span.loc())
    else:
        chk.fail("MEMO", "render/missing", "memo_to_base64 does not call base64 encode exactly once", enc[0].span.loc())
    # parser: decode site, its engine, its argument, and the lengths it is reached for
    b = dec[0].body
    du = defuse.DefUse(b)
    dc = _calls(b, r"base64::Engine::decode$")
    if len(dc) != 1:
        chk.fail("MEMO", "parse/missing", "memo_from_base64 does not call base64 decode exactly once", dec[0].span.loc())
        return
    d_engine = defuse.strip_refs(du.origin(dc[0][1].args[0]))
    d_arg = defuse.strip_refs(du.origin(dc[0][1].args[1]))
    if d_engine == e_engine and d_arg == ("arg", 0):
        chk.ok("MEMO", "memo_from_base64 decodes the whole parameter with the renderer's engine")
    else:
        chk.fail("MEMO", "parse/decode", "memo_from_base64 decodes %s with %s (renderer: %s)"
                 % (defuse.show(d_arg), defuse.show(d_engine), defuse.show(e_engine)), dec[0].span.loc())
    it = A.Interp(w, lambda f: False, {})
    it.analyse(dec[0])
    lens = {}
    for s in it.sites:
        if s.kind == "unmodelled" and re.search(r"<impl str>::len$|<impl \[T\]>::len$", s.callee or ""):
            lens[(s.span.line, s.span.col)] = s
    site = [s for s in it.sites if s.kind == "unmodelled" and (s.callee or "").endswith("base64::Engine::decode")]
    bad = None
    if len(site) != 1:
        bad = "decode site not reached by the abstract interpretation"
    else:
        for k, iv in site[0].state.facts.items():
            txt = str(k)
            mm = re.search(r"'zip321::memo_from_base64', (\d+), (\d+)\)", txt)
            if not mm or (int(mm.group(1)), int(mm.group(2))) not in lens:
                bad = "decoding is conditional on %s, which this rule does not understand" % txt[:80]
                break
            if not any(lo <= 0 and hi >= longest for lo, hi in iv.ivs):
                bad = "decoding is only reached for input lengths %s, but a %d-byte memo renders to %d " \
                      "characters" % (iv, n, longest)
                break
    if bad is None:
        chk.ok("MEMO", "the decoder is reached for every input length 0..=%d (the rendering of a %d-byte memo)"
               % (longest, n), sample=True)
    else:
        chk.fail("MEMO", "parse/length", bad, dec[0].span.loc())
    # decoded bytes reach from_bytes unchanged
    fns = [dec[0]] + [g for g in w.fns.values() if g.is_closure() and g.root == dec[0].id]
    hits = []
    for g in fns:
        du2 = defuse.DefUse(g.body)
        for _bb, t in _calls(g.body, r"memo::MemoBytes::from_bytes$"):
            hits.append((g, _strip_view(du2.origin(t.args[0]))))
    ALLOWED = r"Engine::decode$|::map_err$|::and_then$|::branch$|::from_residual$|Deref>::deref$|::as_slice$"
    ok, why = False, "no single MemoBytes::from_bytes call"
    if len(hits) == 1:
        g, o = hits[0]
        if g.is_closure() and o == ("arg", 1):
            # the closure is the argument of a combinator whose receiver is the (error-mapped) decode result
            recv = [du.origin(t.args[0]) for _bb, t in _calls(b, r"Result::<T, E>::(and_then|map)$")
                    if any(x == ("agg", "closure:" + g.id, []) or (x[0] == "agg" and x[1] == "closure:" + g.id)
                           for x in [du.origin(a) for a in t.args[1:]])]
            src = recv[0] if len(recv) == 1 else None
        else:
            src = o
        calls = _tree_calls(src) if src is not None else []
        ok = src is not None and any(c.endswith("Engine::decode") for c in calls) and \
            all(re.search(ALLOWED, c) for c in calls)
        why = "from_bytes is given %s" % (defuse.show(src) if src is not None else defuse.show(o))
    if ok:
        chk.ok("MEMO", "the decoded bytes go unchanged to MemoBytes::from_bytes; only error conversions in between")
    else:
        chk.fail("MEMO", "parse/from_bytes", "the decoded bytes do not reach MemoBytes::from_bytes unchanged "
                 "(%s)" % why,
                 dec[0].span.loc())
    # from_bytes accepts exactly 0..=n
    it = A.Interp(w, lambda f: False, {})
    it.record_aggs = {"core::result::Result"}
    it.analyse(fb[0])
    rng = {}
    for s in it.sites:
        if s.kind == "enum-agg" and s.adt == "core::result::Result":
            fs = list(s.state.facts.values())
            rng.setdefault(s.variant, []).append(tuple(fs[0].ivs) if len(fs) == 1 else None)
    if rng.get("Ok") == [((0, n),)] and rng.get("Err") and all(r and r[0][0] == n + 1 for r in rng["Err"]):
        chk.ok("MEMO", "MemoBytes::from_bytes returns Ok exactly for lengths 0..=%d" % n, sample=True)
    else:
        chk.fail("MEMO", "from_bytes/range", "MemoBytes::from_bytes returns Ok for lengths %s and Err for %s; "
                 "the memo array holds %d bytes" % (rng.get("Ok"), rng.get("Err"), n), fb[0].span.loc())


def rule_dup(chk, w):
    """No duplicate parameter can be recorded, the lead address included: in from_uri a parameter
    joins an existing per-index list only on the false edge of has_duplicate_param(that list, that
    parameter); a fresh one-element list is put into the index only when the index has no list yet
    (the map lookup answered None) or before any query parameter has been grouped."""
    import guards as G
    import sqlfx
    fs = w.by_p.get(Z + "TransactionRequest::from_uri", [])
    if len(fs) != 1:
        chk.fail("DUP", "missing", "TransactionRequest::from_uri not found")
        return
    f = fs[0]
    bodies = [f] + [g for g in w.fns.values() if g.is_closure() and g.root == f.id]
    n = 0
    for g in bodies:
        b, du = g.body, defuse.DefUse(g.body)
        cyc = sqlfx.cyclic_blocks(b)
        lookups = [bb for bb, t in b.calls() if not b.blocks[bb].cleanup and t.callee.indirect is None and
                   re.search(r"BTreeMap::<K, V, A>::(get_mut|get|entry|contains_key)$", t.callee.target_p())]
        for bb, t in b.calls():
            if b.blocks[bb].cleanup or t.callee.indirect is not None:
                continue
            p_ = t.callee.target_p()
            conds = []
            for sw, v, _tb in G.edge_conditions(b, bb):
                o = du.origin(b.blocks[sw].term.discr)
                conds.append((o, v, G.truth(b.blocks[sw].term, v)))
            if re.search(r"core::vec::Vec::<T, A>::(push|insert|extend|append|extend_from_slice)$", p_) and \
                    "Param" in (b.local_ty(t.args[0].place.local) if t.args and t.args[0].kind in ("copy", "move") else ""):
                n += 1
                ok = any(o[0] == "call" and o[1].endswith("parse::has_duplicate_param") and tr is False for o, _v, tr in conds)
                if ok:
                    chk.ok("DUP", "from_uri: a parameter joins an existing list only after has_duplicate_param answered false",
                           sample=True)
                else:
                    chk.fail("DUP", "from_uri/%s#%d" % (p_.rsplit("::", 1)[-1], n), "a parameter is added to a payment's "
                             "parameter list (%s) without the duplicate test: a repeated parameter — e.g. the lead address "
                             "and an `address=` for the same payment — is recorded" % p_.rsplit("::", 1)[-1], t.span.loc())
            elif re.search(r"BTreeMap::<K, V, A>::insert$", p_):
                # only the index of parameter lists (BTreeMap<usize, Vec<Param>>), not e.g. the map of built payments
                mty = b.local_ty(t.args[0].place.local) if t.args and t.args[0].kind in ("copy", "move") else ""
                if "Param" not in mty and "Param" not in defuse.show(du.origin(t.args[0])) and \
                        not any("Param" in (b.local_ty(a.place.local) or "") for a in t.args[1:] if a.kind in ("copy", "move")):
                    continue
                n += 1
                # the lookup answered None: arm 0, or the `else` of a switch that only names Some
                absent = any(o[0] == "disc" and re.match(r"^get(_mut)?\(", defuse.show(o[1])) and
                             (v == 0 or (v == "else" and [a_ for a_, _t2 in b.blocks[sw_].term.arms] == [1]))
                             for (o, v, _tr), (sw_, _v2, _tb2) in zip(conds, G.edge_conditions(b, bb)))
                first = bb not in cyc and bool(lookups) and not any(bb in b.reachable(lb) for lb in lookups) and \
                    all(lb in b.reachable(bb) for lb in lookups)
                if absent or first:
                    chk.ok("DUP", "from_uri: a fresh list is put into the index %s" % (
                        "only when the index has none" if absent else "before any query parameter is grouped"))
                else:
                    chk.fail("DUP", "from_uri/map-insert#%d" % n, "a parameter list is put into the index although one "
                             "may already be there: the parameters recorded before are replaced unseen", t.span.loc())
            elif re.search(r"btree_map::(Vacant|Occupied)?Entry.*::(or_default|or_insert\w*|and_modify|insert)$|"
                           r"BTreeMap::<K, V, A>::entry$", p_):
                n += 1
                chk.fail("DUP", "from_uri/entry#%d" % n, "the index is updated through the entry API (%s), which this rule "
                         "cannot tie to the duplicate test" % p_.rsplit("::", 1)[-1], t.span.loc())
    if n < 3:
        chk.fail("DUP", "sites", "expected the three additions to the index (lead address, fresh list, push), found %d" % n,
                 f.span.loc())


def rule_memo_tags(chk, w):
    """Memo <-> MemoBytes: the decoder recognises the two marked forms exactly as the encoder writes
    them — `Empty` only for the lead byte MemoBytes::empty() writes FOLLOWED BY ZEROS ONLY (anything
    else with that lead byte must survive as Future), `Arbitrary` for the lead byte the encoder sets."""
    import guards as G
    dec = [f for f in w.fns.values() if f.p == "<zcash_protocol::memo::Memo as core::convert::TryFrom<&zcash_protocol::memo::MemoBytes>>::try_from"]
    emp = w.by_p.get("zcash_protocol::memo::MemoBytes::empty", [])
    enc = [f for f in w.fns.values() if f.p == "<zcash_protocol::memo::MemoBytes as core::convert::From<&zcash_protocol::memo::Memo>>::from"]
    if len(dec) != 1 or len(emp) != 1 or len(enc) != 1:
        chk.fail("MEMO", "tags/missing", "Memo::try_from / MemoBytes::empty / From<&Memo> not found")
        return

    def lead_stores(f):
        out = []
        for blk in f.body.blocks:
            if blk.cleanup:
                continue
            for s in blk.stmts:
                if s.kind == "=" and s.place.proj and str(s.place.proj[-1]).startswith("[") and s.rv.kind == "use" and \
                        s.rv.ops[0].kind == "const" and s.rv.ops[0].info.get("v") is not None:
                    out.append(s.rv.ops[0].info["v"])
        return out
    e_enc = lead_stores(emp[0])
    a_enc = [v for v in lead_stores(enc[0])]
    b, du = dec[0].body, defuse.DefUse(dec[0].body)
    got = {}
    for bi, blk in enumerate(b.blocks):
        if blk.cleanup:
            continue
        for s in blk.stmts:
            if s.kind == "=" and s.rv.kind == "agg" and s.rv.agg[0] == "adt" and s.rv.agg[1] == "zcash_protocol::memo::Memo":
                lead, allz = None, False
                for sw, v, _tb in G.edge_conditions(b, bi):
                    o = du.origin(b.blocks[sw].term.discr)
                    t = defuse.show(o) if o[0] != "disc" else ""
                    if o[0] == "proj" and isinstance(v, int):
                        lead = v
                    if o[0] == "call" and o[1].endswith("Iterator::all") and G.truth(b.blocks[sw].term, v) is True and \
                            re.search(r"skip\(iter\(.*\), 1\)", t):
                        clo = [x for x in o[2] if x[0] == "agg" and x[1].startswith("closure:")]
                        g = w.fns.get(clo[0][1][len("closure:"):]) if clo else None
                        if g is not None and re.match(r"^\(\*?\*?arg1 Eq 0\)$", defuse.show(defuse.DefUse(g.body).origin_local(0))):
                            allz = True
                got[s.rv.agg[2]] = (lead, allz)
    ok = e_enc == [got.get("Empty", (None,))[0]] and got.get("Empty", (None, False))[1] and \
        got.get("Arbitrary", (None,))[0] in a_enc and len(e_enc) == 1
    if ok:
        chk.ok("MEMO", "Memo::try_from yields Empty only for %#x followed by zeros (what MemoBytes::empty writes) and "
               "Arbitrary for the encoder's lead byte %#x" % (e_enc[0], got["Arbitrary"][0]), sample=True)
    else:
        chk.fail("MEMO", "tags", "Memo::try_from yields Empty for lead byte %s (rest all zero required: %s) and Arbitrary for "
                 "%s; the encoder writes %s / %s — memo bytes that are not the canonical empty memo decode to Empty and "
                 "are lost" % (got.get("Empty", (None,))[0], got.get("Empty", (None, False))[1],
                               got.get("Arbitrary", (None,))[0], e_enc, a_enc), dec[0].span.loc())


def _str_consts(g):
    out = []
    for blk in g.body.blocks:
        for s in blk.stmts:
            if s.kind == "=":
                for o in (s.rv.ops or []):
                    if o.kind == "const" and ("str" in o.info):
                        out.append(o.info["str"])
                    elif o.kind == "const" and "txt" in o.info:
                        out.extend(re.findall(r"(?<![a-z\\])[a-z]{3,}", re.sub(r"\\x[0-9a-f]{2}", " ", o.info["txt"])))
        t = blk.term
        if t.kind == "call":
            for o in t.args:
                if o.kind == "const" and "str" in o.info:
                    out.append(o.info["str"])
    for pb in getattr(g, "promoted", []) or []:
        for blk in pb.blocks:
            for s in blk.stmts:
                if s.kind == "=":
                    for o in (s.rv.ops or []):
                        if o.kind == "const" and "str" in o.info:
                            out.append(o.info["str"])
    return out


def rule_names(chk, w):
    tip = w.by_p.get(Z + "parse::to_indexed_param", [])
    if len(tip) != 1:
        chk.fail("NAMES", "to_indexed_param/missing", "to_indexed_param not found")
        return
    b = tip[0].body
    du = defuse.DefUse(b)
    # parser: literal name -> Param kind built under it
    parsed = {}
    for bb, t in _calls(b, r"PartialEq for str>::eq$"):
        lit = defuse.show(du.origin(t.args[1])).strip("&*'")
        res = S.after_call(b, bb, S.B(True))
        if res is None:
            continue
        # the first other-name test reached after this one delimits the arm
        kinds = set()
        later = {x for x, _t in _calls(b, r"PartialEq for str>::eq$|str>::starts_with$") if x != bb}
        res = S.explore(b, t.target, {t.dest.local: S.B(True)}, avoid=tuple(later))
        for g in [tip[0]] + vc.owned(w, tip[0]):
            pass
        for _b2, c in res.calls:
            for a in c.args:
                o = du.origin(a)
                if o[0] == "fn" and o[1] and "Param::" in o[1]:
                    kinds.add(o[1].rsplit("::", 1)[-1])
        for _b2, a in res.aggs:
            if a.rv.agg[1] == Z + "parse::Param":
                kinds.add(a.rv.agg[2])
        for g in vc.owned(w, tip[0]):
            if any(bb2 in res.blocks for bb2, s_ in [(bi, s_) for bi, blk in enumerate(b.blocks) for s_ in blk.stmts
                                                      if s_.kind == "=" and s_.rv.kind == "agg" and
                                                      s_.rv.agg[0] == "closure" and s_.rv.agg[1] == g.id]):
                for blk in g.body.blocks:
                    for s_ in blk.stmts:
                        if s_.kind == "=" and s_.rv.kind == "agg" and s_.rv.agg[0] == "adt" and \
                                s_.rv.agg[1] == Z + "parse::Param":
                            kinds.add(s_.rv.agg[2])
        parsed[lit] = sorted(kinds)
    if {k: v for k, v in parsed.items()} == {k: [v] for k, v in TYPED.items()}:
        chk.ok("NAMES", "parser: %s" % ", ".join("%s -> Param::%s" % (k, v[0]) for k, v in sorted(parsed.items())),
               sample=True)
    else:
        chk.fail("NAMES", "parse-table", "to_indexed_param maps names to kinds as %s (expected %s)"
                 % (parsed, TYPED), tip[0].span.loc())
    # Param::name is the inverse table
    pnm = w.by_p.get(Z + "parse::Param::name", [])
    # renderer: the literal names it emits
    rendered = set()
    for nm in ("render::addr_param", "render::amount_param", "render::memo_param"):
        g = w.by_p.get(Z + nm, [])
        if len(g) != 1:
            chk.fail("NAMES", nm + "/missing", "%s not found" % nm)
            continue
        for c in _str_consts(g[0]):
            m = re.match(r"^([a-z]+)$", c) or re.match(r"^([a-z]+)(?=[.=]|$)", c)
            if m and m.group(1) in TYPED:
                rendered.add(m.group(1))
    tu = w.by_p.get(Z + "TransactionRequest::to_uri", [])
    pp = [g for g in w.fns.values() if g.p.startswith(Z + "TransactionRequest::to_uri::payment_params")]
    for g in pp:
        gdu = defuse.DefUse(g.body)
        for _bb, t in _calls(g.body, r"render::str_param$"):
            o = defuse.show(gdu.origin(t.args[0])).strip("&*'")
            if re.match(r"^[a-z]+$", o):
                rendered.add(o)
    if rendered == set(TYPED):
        chk.ok("NAMES", "renderer emits exactly the typed names %s" % sorted(rendered), sample=True)
    else:
        chk.fail("NAMES", "render-table", "the renderer emits the names %s, the parser understands %s"
                 % (sorted(rendered), sorted(TYPED)))
    # free-form names: rendered verbatim by str_param, so every path that can put a name into
    # other_params must keep the parser's reserved names (and `req-`) out
    reserved = sorted(parsed)
    pn = w.by_p.get(Z + "Payment::new", [])
    tn = w.by_p.get(Z + "TransactionRequest::new", [])
    by_literals = False
    if len(pn) == 1:
        lits = {c for x in [pn[0]] + vc.owned(w, pn[0]) for c in _str_consts(x)}
        by_literals = set(reserved) <= lits
    by_roundtrip = False
    if len(tn) == 1:
        b = tn[0].body
        du = defuse.DefUse(b)
        for bb, t in _calls(b, r"PartialEq>?::(eq|ne)$"):
            args = [defuse.show(du.origin(a)) for a in t.args]
            if not all("TransactionRequest" in x for x in args):
                continue
            if any("from_uri(" in a for a in args) and any("from_uri(" not in a for a in args):
                differ = t.callee.target_p().endswith("::ne")
                res = S.after_call(b, bb, S.B(True if differ else False))
                by_roundtrip = res is not None and {rv for _b, rv in res.returns} <= {"variant:Err"}
    if by_literals or by_roundtrip:
        chk.ok("NAMES", "a request whose free-form parameter is named like a typed one is refused (%s)"
               % ("Payment::new tests the reserved names" if by_literals else
                  "TransactionRequest::new requires the re-parsed request to equal the request"),
               sample=True)
    else:
        chk.fail("NAMES", "reserved/TransactionRequest::new", "a free-form parameter may be named %s: the "
                 "renderer writes the name verbatim, the parser gives it a typed meaning, and neither "
                 "Payment::new nor TransactionRequest::new notices - a request accepted by "
                 "TransactionRequest::new renders to a URI that parses to a different request" % reserved,
                 tn[0].span.loc() if tn else None)

REVIEWED = {
    "zcash_protocol::memo::MemoBytes::as_slice/index-call:[T; N][I]#1":
        ("self.0[..end] with end = last non-zero position + 1 <= 512", []),
    "zcash_protocol::memo::MemoBytes::from_bytes/len-call:copy_from_slice#1":
        ("memo[..bytes.len()] and bytes have the same length; bytes.len() <= 512 is tested first",
         ["G-memo-len"]),
    "zcash_protocol::memo::MemoBytes::from_bytes/index-call:[T; N][I]#1":
        ("..bytes.len() inside the 512-byte array; bytes.len() <= 512 is tested first", ["G-memo-len"]),
    "zip321::TransactionRequest::to_uri/unwrap:unwrap:Option#1":
        ("first element of a map whose len() matched 1", ["G-len-1"]),
    "zip321::TransactionRequest::to_uri/unwrap:unwrap:Option#2":
        ("first element of a map whose len() matched 1", ["G-len-1"]),
}


def rule_pf(chk, w):
    g = {}
    fb = w.by_p.get("zcash_protocol::memo::MemoBytes::from_bytes", [])
    g["G-memo-len"] = False
    if len(fb) == 1:
        b = fb[0].body
        du = defuse.DefUse(b)
        # every path to the copy took an edge on which `bytes.len() <= 512` held (however the test is written:
        # `len > 512 => return Err`, `if len <= 512 { copy }`, `len < 513`), the slice it fills is memo[..bytes.len()]
        # of the 512-byte array, and the source is `bytes` itself
        import guards as G_
        cps = _calls(b, r"::copy_from_slice$")
        oks = []
        for cb, ct in cps:
            dst, src = du.origin(ct.args[0]), defuse.strip_refs(du.origin(ct.args[1]))
            dtxt = defuse.show(dst)
            bounded = False
            for sw, v, _tb in G_.edge_conditions(b, cb):
                tm = b.blocks[sw].term
                tr = G_.truth(tm, v)
                o = du.origin(tm.discr) if tm.discr is not None and tm.discr.kind in ("copy", "move") else None
                if tr is None or o is None or o[0] != "bin":
                    continue
                op, x, y = o[1], o[2], o[3]
                if not tr:
                    op = {"Gt": "Le", "Ge": "Lt", "Lt": "Ge", "Le": "Gt"}.get(op)
                if defuse.show(x) == "len(&*arg0)" and y[0] == "const" and \
                        ((op == "Le" and y[1] <= 512) or (op == "Lt" and y[1] <= 513)):
                    bounded = True
            oks.append(bounded and src == ("arg", 0) and "RangeTo{len(&*arg0)}" in dtxt.replace("core::ops::RangeTo::", ""))
        g["G-memo-len"] = bool(oks) and all(oks)
    tu = w.by_p.get(Z + "TransactionRequest::to_uri", [])
    g["G-len-1"] = False
    if len(tu) == 1:
        b = tu[0].body
        du = defuse.DefUse(b)
        un = [bb for bb, _t in _calls(b, r"Option::<T>::unwrap$")]
        for sb, blk in enumerate(b.blocks):
            t = blk.term
            if t.kind == "switch" and re.match(r"len\(&\*arg0\.payments\)$", defuse.show(du.origin(t.discr))):
                tgt = dict(t.arms).get(1)
                g["G-len-1"] = tgt is not None and bool(un) and all(b.dominates(tgt, u) or tgt == u for u in un)
    for k, v in sorted(g.items()):
        chk.ok("G", "%s holds" % k) if v else chk.fail("G", k, "guard %s no longer holds" % k)
    ents = []
    for n in ("TransactionRequest::from_uri", "TransactionRequest::to_uri", "TransactionRequest::new",
              "TransactionRequest::from_indexed", "TransactionRequest::total", "memo_from_base64",
              "memo_to_base64", "Payment::new"):
        f = w.by_p.get(Z + n, [])
        if len(f) == 1:
            ents.append(f[0])
        else:
            chk.fail("PF", "entry/" + n, "entry point %s not found" % n)

    def scope(f):
        return f.crate.name in ("zip321", "zcash_protocol")
    sites, parent, reached = panics.reachable_sites(w, ents, scope)
    chk.analysed.update({"functions_reachable": len(reached),
                         "class_B_sites_inventoried_not_armed": len([1 for _f, s, _k in sites if s["cls"] == "B"])})
    for f, s, key in sites:
        key = panics.resolve_key(REVIEWED, key, s)
        if s["cls"] != "A":
            continue
        loc = s["span"].loc()
        auto = panics.auto_discharge(f, s)
        if auto:
            chk.ok("PF", "%s [%s]: %s" % (key, loc, auto))
        elif key in REVIEWED and all(g.get(x) for x in REVIEWED[key][1]):
            chk.ok("PF", "%s [%s]: reviewed — %s" % (key, loc, REVIEWED[key][0]), sample=True)
            chk.exception("PF", key, REVIEWED[key][0])
        else:
            chk.fail("PF", key, "panic site (%s %s) reachable from the ZIP 321 entry points and not "
                     "discharged" % (s["kind"], s["detail"]), loc,
                     [w.fns[x].p for x in w.path_to(parent, f.id)])


def main(tier):
    chk = Check("C12", "other", tier)
    chk.explanation = (
        "Structural clauses of C12 on the MIR of zip321: who may construct Payment / "
        "TransactionRequest; the ZIP 321 rejections are live and cannot be bypassed (assume-analysis "
        "of to_payment, from_uri, to_indexed_param, new, from_indexed, Payment::new); the index and "
        "amount grammars' length limits (abstract interpretation) and the checked amount conversion; "
        "agreement of the renderer's and the parser's parameter-name tables, including names that "
        "reach other_params unchecked; panic-site reachability. Address parsing itself is C10's. Not "
        "decided: exact decimal conversion, percent-encoding and memo byte round trips.")
    chk.trusted = ["rustc MIR", "nom / percent-encoding / base64 behave as documented and do not panic",
                   "C09 for Zatoshis::from_u64", "ZcashAddress::try_from_encoded (C10)"]
    chk.rule("VC-1", "Payment / TransactionRequest only from their constructors", floor=8)
    chk.rule("RULES", "ZIP 321 rejections are live and cannot be bypassed", floor=11)
    chk.rule("GRAMMAR", "index / decimal length limits and checked amount conversion", floor=4)
    chk.rule("MEMO", "memo rendering and parsing are inverse in shape and admit every memo length", floor=6)
    chk.rule("DUP", "every recorded parameter passed the duplicate test or starts a fresh list", floor=3)
    chk.rule("NAMES", "renderer and parser agree on parameter names", floor=3)
    chk.rule("G", "guards of reviewed panic sites", floor=2)
    chk.rule("PF", "no undischarged class-A panic site", floor=5)
    w = zf.World(extract.facts_dir("all"), ["zip321", "zcash_protocol", "zcash_address"])
    rule_vc(chk, w)
    rule_rules(chk, w)
    rule_grammar(chk, w)
    rule_memo(chk, w)
    rule_memo_tags(chk, w)
    rule_dup(chk, w)
    rule_names(chk, w)
    rule_pf(chk, w)
    chk.finish()
