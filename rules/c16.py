"""C16 — one clause: "The plan does not depend on the random generator".

Non-interference of the `rng` parameter of plan_denominations and of every
DenominationStrategy::plan implementation (non-test code): on the MIR, the parameter and every
reborrow/copy of it may only be (a) left unused or (b) handed on, unchanged, as the argument of
a workspace function whose corresponding parameter is itself non-interfering (checked
recursively, through trait-method calls by class-hierarchy expansion).  Any other use — a call
into the RNG API, a dereference, a store — makes the plan depend on the generator.
All arithmetic clauses of C16 (canonical 1-2-5 prefix, conservation, change bound) are NOT decided.
"""
import re

import extract
import zf
from common import Check


def rng_params(f):
    """indices (0-based) of parameters that carry a random generator"""
    out = []
    rng_tys = set()
    for p in f.preds:
        m = re.match(r"(\w+): (?:rand_core|rand)::(?:RngCore|CryptoRng|Rng)\b", p)
        if m:
            rng_tys.add(m.group(1))
    for i in range(f.body.argc):
        ty = f.body.local_ty(i + 1)
        base = re.sub(r"^&('\w+ )?(mut )?", "", ty)
        if base in rng_tys or re.search(r"\bdyn (rand_core|rand)::(RngCore|CryptoRng)", ty):
            out.append(i)
    return out


class Taint:
    def __init__(self, w):
        self.w = w
        self.memo = {}
        self.why = {}

    def clean(self, f, i, stack=()):
        """True if parameter i of f cannot influence anything (non-interference)"""
        key = (f.id, i)
        if key in self.memo:
            return self.memo[key]
        if key in stack:
            return True      # coinductive hypothesis
        body = f.body
        carriers = {i + 1}
        changed = True
        while changed:
            changed = False
            for blk in body.blocks:
                for s in blk.stmts:
                    if s.kind != "=" or s.place.proj:
                        continue
                    src = None
                    if s.rv.kind == "use" and s.rv.ops[0].kind in ("copy", "move"):
                        src = s.rv.ops[0].place
                    elif s.rv.kind in ("ref", "raw"):
                        src = s.rv.place
                    if src is not None and src.local in carriers and \
                            all(p == "*" for p in src.proj) and s.place.local not in carriers:
                        carriers.add(s.place.local)
                        changed = True
        ok = True
        for bi, blk in enumerate(body.blocks):
            if blk.cleanup:
                continue
            for s in blk.stmts:
                if s.kind != "=":
                    continue
                used = self._uses_stmt(s, carriers)
                if used and not self._is_carrier_def(s, carriers):
                    ok = False
                    self.why[key] = "value derived from the generator at %s: %r" % (s.span.loc(), s)
            t = blk.term
            if t.kind in ("call", "tailcall"):
                for j, a in enumerate(t.args):
                    if a.kind in ("copy", "move") and a.place.local in carriers:
                        if any(p != "*" for p in a.place.proj):
                            ok = False
                            self.why[key] = "field of the generator passed at %s" % t.span.loc()
                            continue
                        tg = self.w.call_targets(t, include_closures=False) \
                            if t.callee.indirect is None else []
                        if not tg:
                            ok = False
                            self.why[key] = "generator passed to %s at %s" % (
                                t.callee.target_p() if t.callee.indirect is None else "<indirect>",
                                t.span.loc())
                            continue
                        for g in tg:
                            gf = self.w.fns[g]
                            if j >= gf.body.argc or not self.clean(gf, j, stack + (key,)):
                                ok = False
                                self.why[key] = "generator passed to %s (parameter %d), which uses " \
                                                "it: %s" % (gf.p, j, self.why.get((g, j), "?"))
                # closures capturing the generator
                if t.callee.indirect is None:
                    for c in t.callee.closures or ():
                        pass
            elif t.kind == "switch" and t.discr.kind in ("copy", "move") and \
                    t.discr.place.local in carriers:
                ok = False
                self.why[key] = "branch on the generator at %s" % t.span.loc()
        # captured by a closure created here
        for blk in body.blocks:
            for s in blk.stmts:
                if s.kind == "=" and s.rv.kind == "agg" and s.rv.agg[0] == "closure":
                    for o in s.rv.ops:
                        if o.kind in ("copy", "move") and o.place.local in carriers:
                            ok = False
                            self.why[key] = "generator captured by a closure at %s" % s.span.loc()
        self.memo[key] = ok
        return ok

    def _is_carrier_def(self, s, carriers):
        return (not s.place.proj and s.place.local in carriers)

    def _uses_stmt(self, s, carriers):
        rv = s.rv
        places = []
        if rv.kind in ("ref", "raw", "disc"):
            places.append(rv.place)
        for o in rv.ops:
            if o.kind in ("copy", "move"):
                places.append(o.place)
        return any(p.local in carriers for p in places)


ST = "zcash_pool_migration::denomination::strategies::CanonicalOneTwoFive::"
MINF, MAXF, CAPF = "*arg0.min_denomination_zatoshi", "*arg0.max_denomination_zatoshi", "*arg0.max_notes"


def _mut_ref_target(body, du, op):
    """local behind `&mut local` passed as an operand (None if not a plain mutable borrow)"""
    if op.kind not in ("copy", "move") or op.place.proj:
        return None
    d = du.single(op.place.local)
    n = 0
    while d is not None and d[0] == "stmt" and n < 6:
        n += 1
        rv = d[2].rv
        if rv.kind in ("ref", "raw"):
            if not (d[2].ty or "").startswith("&mut"):
                return None
            if not rv.place.proj:
                return rv.place.local
            if tuple(rv.place.proj) == ("*",):
                d = du.single(rv.place.local)
                continue
            return None
        if rv.kind == "use" and rv.ops[0].kind in ("copy", "move") and not rv.ops[0].place.proj:
            d = du.single(rv.ops[0].place.local)
            continue
        return None
    return None


def structure(chk, w):
    """structural clauses of the canonical strategy (see module docstring of the rule names)"""
    import defuse
    import sqlfx
    import vc
    try:
        wmn, new, split = w.fn(ST + "with_max_notes"), w.fn(ST + "new"), w.fn(ST + "unconstrained_split")
        pd = w.fn("zcash_pool_migration::denomination::plan_denominations")
    except KeyError as e:
        chk.fail("CFG", "missing", "strategy function not found: %s" % e)
        return
    plan = [f for f in w.fns.values() if f.p.endswith("DenominationStrategy>::plan") and
            "CanonicalOneTwoFive" in f.p]
    # ---- CFG: the normative bounds and the caller's cap reach the strategy unmodified
    coin = w.consts.get("zcash_protocol::value::COIN", {}).get("v")
    cap = w.consts.get("zcash_protocol::zip318::DENOM_CAP", {}).get("v")
    floor = w.consts.get("zcash_protocol::zip318::MAX_RESIDUAL_VALUE", {}).get("v")
    if coin and cap == 10000 * coin and floor * 100 == coin:
        chk.ok("CFG", "DENOM_CAP = 10,000 ZEC and MAX_RESIDUAL_VALUE = 0.01 ZEC", sample=True)
    else:
        chk.fail("CFG", "constants", "DENOM_CAP = %s, MAX_RESIDUAL_VALUE = %s zatoshi (COIN = %s): not "
                 "10,000 ZEC / 0.01 ZEC" % (cap, floor, coin))
    du = defuse.DefUse(wmn.body)
    calls = [t for bb, t in wmn.body.calls() if t.callee.indirect is None and
             t.callee.target_p() == ST + "new" and not wmn.body.blocks[bb].cleanup]
    got = [defuse.show(du.origin(a)) for a in calls[0].args] if len(calls) == 1 else None
    if got == ["get(arg0)", str(cap), str(floor), "arg1"]:
        chk.ok("CFG", "with_max_notes(cap, buffer) = new(cap unmodified, DENOM_CAP, MAX_RESIDUAL_VALUE, "
               "buffer)", sample=True)
    else:
        chk.fail("CFG", "with_max_notes", "with_max_notes builds the strategy as new(%s): the caller's "
                 "note cap or the normative ZIP 318 bounds do not reach it unmodified" % got,
                 wmn.span.loc())
    du = defuse.DefUse(new.body)
    agg = [st for blk in new.body.blocks for st in blk.stmts
           if st.kind == "=" and st.rv.kind == "agg" and st.rv.agg[0] == "adt"]
    got = dict(zip(agg[0].rv.agg[3], [defuse.show(du.origin(o)) for o in agg[0].rv.ops])) if len(agg) == 1 else {}
    want = {"max_notes": "arg0", "max_denomination_zatoshi": "from(arg1)",
            "min_denomination_zatoshi": "from(arg2)", "buffer_zatoshi": "from(arg3)"}
    if got == want:
        chk.ok("CFG", "new stores cap, maximum, minimum and buffer into their own fields")
    else:
        chk.fail("CFG", "new", "CanonicalOneTwoFive::new stores %s" % got, new.span.loc())
    du = defuse.DefUse(pd.body)
    sh = {t.callee.target_p().rsplit("::", 1)[-1]: [defuse.show(du.origin(a)) for a in t.args]
          for bb, t in pd.body.calls() if t.callee.indirect is None and not pd.body.blocks[bb].cleanup}
    if sh.get("with_max_notes") == ["arg2", "arg3"] and \
            sh.get("plan", [None] * 5)[1:4] == ["arg0", "arg1", "arg4"]:
        chk.ok("CFG", "plan_denominations hands its cap, buffer, balance, note count and preparation "
               "fee to the strategy unmodified")
    else:
        chk.fail("CFG", "plan_denominations", "plan_denominations calls %s" % sh, pd.span.loc())
    # ---- BOUND / CAP: what enters the canonical split
    b = split.body
    du = defuse.DefUse(b)
    cyc = sqlfx.cyclic_blocks(b)

    def dominated_by_test(bb, pred, arm):
        """a switch whose condition satisfies pred and whose `arm` (1 = true) target dominates bb"""
        for sb, blk in enumerate(b.blocks):
            t = blk.term
            if t.kind != "switch" or not pred(defuse.show(du.origin(t.discr))):
                continue
            arms = dict(t.arms)
            tgt = arms.get(arm, t.otherwise if arm not in arms else None)
            if tgt is not None and (tgt == bb or b.dominates(tgt, bb)) and \
                    not any(b.dominates(o, bb) or o == bb for v, o in list(arms.items()) +
                            [("o", t.otherwise)] if o is not None and o != tgt):
                return True
        return False
    pushes = [(bb, t) for bb, t in b.calls() if t.callee.indirect is None and
              t.callee.target_p().endswith("Vec::<T, A>::push") and not b.blocks[bb].cleanup]
    lits = []
    for bb, blk in enumerate(b.blocks):
        t = blk.term
        if t.kind == "call" and t.callee.indirect is None and t.dest is not None and \
                t.callee.target_p().endswith("box_assume_init_into_vec_unsafe"):
            for st in blk.stmts:
                if st.kind == "=" and st.rv.kind == "agg" and st.rv.agg[0] == "array":
                    lits.append((bb, st))
    if not pushes and not lits:
        chk.fail("BOUND", "no-element", "no value enters unconstrained_split's result", split.span.loc())
    n = 0
    for bb, st in lits:
        for op in st.rv.ops:
            n += 1
            v = defuse.show(du.origin(op))
            rng = "&new(%s, %s)" % (MINF, MAXF)
            cont = [(cb, t) for cb, t in b.calls() if t.callee.indirect is None and
                    t.callee.target_p().endswith("RangeInclusive::<Idx>::contains") and
                    [defuse.show(du.origin(a)) for a in t.args] == [rng, "&" + v]]
            okk = any(dominated_by_test(bb, lambda s_, c=cb: s_.startswith("contains(%s, &%s)" % (rng, v)), 1)
                      for cb, _t in cont)
            if not okk:
                # ... or spelled out as two comparisons, possibly collected in a boolean (`let within = a >= min && a <= max`)
                import guards
                lo = hi = False
                for o_, tr_ in guards.facts(b, du, bb):
                    if tr_ is None or o_[0] != "bin":
                        continue
                    op_ = o_[1] if tr_ else {"Ge": "Lt", "Gt": "Le", "Le": "Gt", "Lt": "Ge"}.get(o_[1])
                    x_, y_ = defuse.show(o_[2]), defuse.show(o_[3])
                    if (op_ == "Ge" and x_ == v and y_ == MINF) or (op_ == "Le" and x_ == MINF and y_ == v):
                        lo = True
                    if (op_ == "Le" and x_ == v and y_ == MAXF) or (op_ == "Ge" and x_ == MAXF and y_ == v):
                        hi = True
                okk = lo and hi
            if okk:
                chk.ok("BOUND", "the lone-note crossing %s enters the split only inside "
                       "(min..=max).contains(..)" % v, sample=True)
            else:
                chk.fail("BOUND", "literal#%d" % n, "the value %s is published as a crossing without "
                         "the (min_denomination..=max_denomination) range test: a crossing outside "
                         "[0.01, 10,000] ZEC is possible" % v, st.span.loc())
    for bb, t in pushes:
        n += 1
        x = du.origin(t.args[1])
        xs = defuse.show(x)
        good_src = x[0] == "call" and x[1].endswith("zip318::largest_one_two_five") and \
            defuse.show(x[2][1]) == MINF
        upper = False
        if good_src and x[2][0][0] == "local":
            defs = du.defs.get(x[2][0][1], [])
            forms = []
            for kind, _bi, d in defs:
                if kind == "call" and d.callee.indirect is None and d.callee.target_p() == "core::cmp::Ord::min" \
                        and MAXF in [defuse.show(du.origin(a)) for a in d.args]:
                    forms.append("min")
                elif kind == "stmt" and d.rv.kind in ("bin", "use"):
                    o = du.origin(d.rv.ops[0]) if d.rv.kind == "use" else ("bin", d.rv.op, du.origin(d.rv.ops[0]),
                                                                          du.origin(d.rv.ops[1]))
                    so = defuse.show(o)
                    forms.append("dec" if re.match(r"\(largest_one_two_five\(_\d+, %s\) Sub 1\)$"
                                                   % re.escape(MINF), so) else "other:" + so[:40])
                else:
                    forms.append("other")
            upper = bool(forms) and "min" in forms and all(f_ in ("min", "dec") for f_ in forms)
        elif good_src:
            upper = MAXF in defuse.show(x[2][0]) and "min(" in defuse.show(x[2][0])
        lower = dominated_by_test(bb, lambda s_: re.match(r"\(largest_one_two_five\(.*\) Lt %s\)$"
                                                           % re.escape(MINF), s_) is not None, 0)
        if not lower and good_src:
            # or: the value handed to largest_one_two_five is itself tested `>= min` (the helper
            # returns at least `floor` whenever its argument is at least `floor`)
            a_txt = re.escape(defuse.show(x[2][0]))
            lower = dominated_by_test(bb, lambda s_: re.match(r"\(%s Ge %s\)$" % (a_txt, re.escape(MINF)), s_)
                                      is not None, 1) or \
                dominated_by_test(bb, lambda s_: re.match(r"\(%s Lt %s\)$" % (a_txt, re.escape(MINF)), s_)
                                  is not None, 0)
        capped = dominated_by_test(bb, lambda s_: re.match(r"\(len\(.*\) Lt %s\)$" % re.escape(CAPF), s_)
                                   is not None, 1)
        if good_src and upper and lower:
            chk.ok("BOUND", "pushed crossing = largest_one_two_five(a, min) with a <= max_denomination "
                   "(every definition of a is min(_, max) or a previous crossing - 1) and the push "
                   "follows `crossing >= min`", sample=True)
        else:
            chk.fail("BOUND", "push#%d" % n, "a crossing %s is pushed without both bounds (from "
                     "largest_one_two_five: %s, capped by max_denomination: %s, tested against "
                     "min_denomination: %s)" % (xs[:70], good_src, upper, lower), t.span.loc())
        if capped:
            chk.ok("CAP", "every push happens under `crossings.len() < max_notes`", sample=True)
        else:
            chk.fail("CAP", "push#%d" % n, "a crossing is pushed without the `len() < max_notes` test: "
                     "the plan can exceed the note cap", t.span.loc())
    # the only mutation of the result vector is push
    res = {(_mut_ref_target(b, du, t.args[0]), t.callee.target_p().rsplit("::", 1)[-1])
           for bb, t in b.calls() if t.callee.indirect is None and t.args and not b.blocks[bb].cleanup
           and _mut_ref_target(b, du, t.args[0]) is not None}
    others = sorted(m for _l, m in res if m not in ("push",))
    if not others:
        chk.ok("BOUND", "the split is only ever extended by push")
    else:
        chk.fail("BOUND", "mutators", "the split vector is also modified by %s" % others, split.span.loc())
    # ---- PREFIX: reconciliation only truncates the canonical split
    if len(plan) != 1:
        chk.fail("PREFIX", "plan/missing", "CanonicalOneTwoFive::plan not found")
        return
    b = plan[0].body
    du = defuse.DefUse(b)
    sp = [t for bb, t in b.calls() if t.callee.indirect is None and
          t.callee.target_p() == ST + "unconstrained_split" and not b.blocks[bb].cleanup]
    fn_ = [t for bb, t in b.calls() if t.callee.indirect is None and
           t.callee.target_p().endswith("DenominationPlan::from_notes") and not b.blocks[bb].cleanup]
    if len(sp) != 1 or len(fn_) != 1 or sp[0].dest is None:
        chk.fail("PREFIX", "plan/shape", "plan does not compute one canonical split and build one plan "
                 "from it", plan[0].span.loc())
        return
    cv = sp[0].dest.local
    muts = {}
    for bb, t in b.calls():
        if b.blocks[bb].cleanup or t.callee.indirect is not None or not t.args:
            continue
        tgt = _mut_ref_target(b, du, t.args[0])
        if tgt is not None:
            muts.setdefault(tgt, []).append((bb, t.callee.target_p().rsplit("::", 1)[-1]))
    stores = [st for blk in b.blocks if not blk.cleanup for st in blk.stmts
              if st.kind == "=" and st.place.local == cv]
    cvm = sorted({m for _bb, m in muts.get(cv, [])})
    given = defuse.show(du.origin(fn_[0].args[2]))
    if cvm == ["pop"] and not stores and given.startswith("unconstrained_split("):
        chk.ok("PREFIX", "plan: the canonical split is only ever shortened from the back (pop) before "
               "it is published", sample=True)
    else:
        chk.fail("PREFIX", "plan/mutation", "the crossing values computed by unconstrained_split are "
                 "modified by %s (stores: %d) before publication; only pop keeps them a prefix of the "
                 "canonical split" % (cvm, len(stores)), plan[0].span.loc())
    # each pop of the crossings is paired with a pop of the prepared notes
    other = [l for l, ms in muts.items() if l != cv and {m for _b, m in ms} == {"pop"}]
    pops_cv = [bb for bb, m in muts.get(cv, []) if m == "pop"]
    paired = bool(other) and all(any(b.dominates(bb, ob) or b.dominates(ob, bb)
                                     for ob, _m in muts[other[0]]) for bb in pops_cv) and \
        len(pops_cv) == len(muts[other[0]])
    if paired:
        chk.ok("PREFIX", "every pop of the crossing values is paired with a pop of the prepared notes")
    else:
        chk.fail("PREFIX", "plan/unpaired-pop", "crossing values and prepared notes are not truncated "
                 "together", plan[0].span.loc())


import closures
_norm, _subst, _closure_result, _inline = closures.norm, closures.subst, closures.closure_result, closures.inline


def _deep(_defuse=None):
    return closures.deep()


def _fit(w, o, n=None):
    """(sum, count, fee, op, total) when `o` is the reconcile loop's fit test
    `sum.checked_add(count as u64 * fee).is_some_and(|c| c <= total)`, possibly wrapped as the
    predicate of Option::filter (the count is then the filtered payload)"""
    o = _norm(o)
    if o[0] == "call" and o[1].endswith("::filter") and len(o[2]) == 2:
        r = _closure_result(w, o[2][1], [("payload", o[2][0])])
        return _fit(w, r) if r is not None else None
    if not (o[0] == "call" and o[1].endswith("::is_some_and") and len(o[2]) == 2):
        return None
    a = _norm(o[2][0])
    cmp_ = _closure_result(w, o[2][1], [("c",)])
    cmp_ = _norm(cmp_) if cmp_ is not None else None
    if not (a[0] == "call" and a[1].endswith("::checked_add") and cmp_ and cmp_[0] == "bin" and
            cmp_[1] in ("Le", "Lt") and cmp_[2] == ("c",)):
        return None
    s_, m = a[2]
    if not (m[0] == "bin" and m[1] == "Mul"):
        return None
    cnt, fee = m[2], m[3]
    if cnt[0] == "cast":
        cnt = cnt[2]
    return (s_, cnt, fee, cmp_[1], cmp_[3])


def _terms(o):
    if o[0] == "bin" and o[1] == "Add":
        return _terms(o[2]) + _terms(o[3])
    return [o]


def optimistic(chk, w, split):
    """OPTIMISTIC: the canonical split reserves preparation fees under the documented model "one padded
    preparation transaction per FUNDING_OUTPUTS_PER_TX funding notes": the budget for the next part
    charges ceil(len / F) fees for the parts already chosen, and a candidate part is accepted iff
    chosen notes + candidate + buffer + ceil((len + 1) / F) fees <= balance. A different count makes the
    published values a different function of the balance than every other wallet computes."""
    import defuse
    import guards
    b = split.body
    du = _deep(defuse)(b)
    F = w.consts.get("zcash_pool_migration::preparation::FUNDING_OUTPUTS_PER_TX", {}).get("v")
    if not F:
        chk.fail("OPTIMISTIC", "const/missing", "FUNDING_OUTPUTS_PER_TX not found")
        return

    def is_F(o):
        return o == ("const", F) or (o[0] == "constdef" and o[1].endswith("FUNDING_OUTPUTS_PER_TX"))

    def ceil_of(o):
        """k when o is ceil(k / F) as u64"""
        if o[0] == "cast":
            o = o[2]
        if o[0] == "call" and o[1].endswith("::div_ceil") and len(o[2]) == 2 and is_F(o[2][1]):
            return o[2][0]
        if o[0] == "bin" and o[1] == "Div" and is_F(o[3]) and o[2][0] == "bin" and o[2][1] == "Sub" and \
                o[2][3] == ("const", 1) and o[2][2][0] == "bin" and o[2][2][1] == "Add":
            x, y = o[2][2][2], o[2][2][3]
            if is_F(y) or is_F(x):
                return x if is_F(y) else y
        if o[0] == "bin" and o[1] == "Div" and is_F(o[3]) and o[2][0] == "bin" and o[2][1] == "Add":
            x, y = o[2][2], o[2][3]
            for k, c in ((x, y), (y, x)):
                if c == ("const", F - 1) or (c[0] == "bin" and c[1] == "Sub" and is_F(c[2]) and c[3] == ("const", 1)):
                    return k
        return None

    def fee_term(ts):
        """(k, rest) when exactly one term is ceil(k / F) * prep_tx_fee"""
        hit = [(t, ceil_of(t[2] if t[3] == ("arg", 3) else t[3])) for t in ts
               if t[0] == "bin" and t[1] == "Mul" and ("arg", 3) in (t[2], t[3])]
        if len(hit) != 1:
            return None, ts
        return hit[0][1], [t for t in ts if t is not hit[0][0]]
    is_len = lambda o: o[0] == "call" and o[1].endswith("::len") and len(o[2]) == 1
    pushes = [bb for bb, t in b.calls() if t.callee.indirect is None and not b.blocks[bb].cleanup and
              t.callee.target_p().endswith("::push")]
    accept = budget = None
    seen_mul = 0
    for bi, blk in enumerate(b.blocks):
        t = blk.term
        if blk.cleanup or t.kind != "switch" or t.discr is None or t.discr.kind not in ("copy", "move"):
            continue
        c = closures.inline_fns(w, _norm(du.origin(t.discr)))
        if c[0] != "bin":
            continue
        sh = defuse.show(c)
        if "arg3" not in sh:
            continue
        seen_mul += 1
        if c[1] in ("Le", "Ge") and ("arg", 1) in (c[2], c[3]):
            cost = c[2] if c[3] == ("arg", 1) else c[3]
            if (c[1] == "Le") != (c[3] == ("arg", 1)):
                continue
            k, rest = fee_term(_terms(cost))
            guarded = any(any(sw == bi and guards.truth(t, v) is True for sw, v, _tb in guards.edge_conditions(b, pb))
                          for pb in pushes)
            accept = (k, rest, guarded, t)
        elif c[1] == "Lt" and c[2][0] == "call" and c[2][1].endswith("::saturating_sub") and c[2][2][0] == ("arg", 1):
            k, rest = fee_term(_terms(c[2][2][1]))
            budget = (k, rest, t)
    if accept is None or budget is None:
        chk.fail("OPTIMISTIC", "split/shape", "unconstrained_split no longer has the budget test `balance -sat- "
                 "committed < min note` and the acceptance test `cost <= balance` over fee reservations "
                 "(fee-dependent tests seen: %d)" % seen_mul, split.span.loc())
        return
    k, rest, t = budget
    if k is not None and is_len(k) and len(rest) == 1 and rest[0][0] == "local":
        chk.ok("OPTIMISTIC", "budget: the parts chosen so far are charged ceil(len / %d) preparation fees" % F, sample=True)
    else:
        chk.fail("OPTIMISTIC", "split/budget", "the budget for the next part does not charge ceil(len / "
                 "FUNDING_OUTPUTS_PER_TX) fees for the parts already chosen (count over: %s)" %
                 (defuse.show(k)[:60] if k is not None else "unrecognised"), t.span.loc())
    k, rest, guarded, t = accept
    k_ok = k is not None and k[0] == "bin" and k[1] == "Add" and ((is_len(k[2]) and k[3] == ("const", 1)) or
                                                                 (is_len(k[3]) and k[2] == ("const", 1)))
    kinds = sorted("notes" if r[0] == "local" else "crossing" if (r[0] == "call" and r[1].endswith("largest_one_two_five"))
                   else "buffer" if r == ("field", ("arg", 0), ".buffer_zatoshi") else "?" for r in rest)
    if k_ok and kinds == ["buffer", "crossing", "notes"] and guarded:
        chk.ok("OPTIMISTIC", "acceptance: a part is pushed iff chosen notes + part + buffer + ceil((len + 1) / %d) fees "
               "<= balance" % F, sample=True)
    else:
        chk.fail("OPTIMISTIC", "split/acceptance", "a candidate part is not accepted exactly under `chosen notes + part "
                 "+ buffer + ceil((len + 1) / FUNDING_OUTPUTS_PER_TX) * fee <= balance` (count over: %s; other terms: %s; "
                 "guards the push: %s)" % (defuse.show(k)[:60] if k is not None else "unrecognised", kinds, guarded),
                 t.span.loc())


def _fit_cmp(o):
    """the same fit test written with a match: `Some(c) if c <= total` over `sum.checked_add(count as u64 * fee)`
    - the comparison of the Some payload of the checked sum with the total"""
    o = _norm(o)
    if not (o[0] == "bin" and o[1] in ("Le", "Lt")):
        return None
    a = o[2]
    if not (a[0] == "field" and a[1][0] == "variant" and a[1][2].endswith("Some")):
        return None
    a = a[1][1]
    if not (a[0] == "call" and a[1].endswith("::checked_add") and len(a[2]) == 2):
        return None
    s_, m = a[2]
    if not (m[0] == "bin" and m[1] == "Mul"):
        return None
    cnt, fee = m[2], m[3]
    if cnt[0] == "cast":
        cnt = cnt[2]
    return (s_, cnt, fee, o[1], o[3])


def reserve(chk, w, plan):
    """RESERVE: what the plan reserves for preparation fees. `from_notes(total, fees, .., change)` is
    given fees = count * fee and change = total - sum(notes) - fees with saturating subtractions, so
    "notes + fees + change == balance" holds exactly when sum(notes) + count * fee <= total for the
    notes and the count that are published. Three necessary conditions, on the MIR of plan():
      fit    every oracle answer that can become the published count passed that very test (same sum,
             same fee, same total as the publication uses);
      stale  no part is dropped between that test and publication while the count stays;
      zero   the count 0 is published only when the split is empty."""
    import defuse
    import guards
    b = plan.body
    du = _deep(defuse)(b)
    pub = [(bb, t) for bb, t in b.calls() if t.callee.indirect is None and not b.blocks[bb].cleanup and
           t.callee.target_p().endswith("DenominationPlan::from_notes")]
    if len(pub) != 1 or len(pub[0][1].args) < 5:
        chk.fail("RESERVE", "plan/shape", "plan does not publish through one from_notes call", plan.span.loc())
        return
    pbb, pt = pub[0]
    total = _norm(du.origin(pt.args[0]))
    fees = _norm(du.origin(pt.args[1]))
    change = _norm(du.origin(pt.args[4]))
    ok = fees[0] == "bin" and fees[1] == "Mul"
    cnt = fees[2][2] if ok and fees[2][0] == "cast" else (fees[2] if ok else None)
    fee = fees[3] if ok else None
    ssub = lambda o: o[0] == "call" and o[1].endswith("::saturating_sub") and len(o[2]) == 2
    if not (ok and cnt[0] == "local" and ssub(change) and ssub(change[2][0]) and change[2][1] == fees and
            change[2][0][2][0] == total):
        chk.fail("RESERVE", "plan/publication", "the published fees are not `count * fee` with change = total - "
                 "sum(notes) - fees (fees: %s; change: %s)" % (defuse.show(fees)[:80], defuse.show(change)[:120]),
                 pt.span.loc())
        return
    chk.ok("RESERVE", "publication: fees = count * prep_tx_fee, change = total -sat- sum(notes) -sat- fees, total is "
           "the balance handed to from_notes", sample=True)
    notes_sum = change[2][0][2][1]
    V = cnt[1]
    # the vectors whose truncation invalidates a count
    pops = [bb for bb, t in b.calls() if t.callee.indirect is None and not b.blocks[bb].cleanup and
            t.callee.target_p().rsplit("::", 1)[-1] in ("pop", "truncate", "remove", "clear", "push", "insert",
                                                        "swap_remove", "drain", "retain")
            and t.args and _mut_ref_target(b, du, t.args[0]) is not None]
    empt = set()
    for bb, t in b.calls():
        if t.callee.indirect is None and t.callee.target_p().endswith("::is_empty") and t.dest is not None \
                and not b.blocks[bb].cleanup:
            nxt = b.blocks[t.target].term if t.target is not None else None
            if nxt is not None and nxt.kind == "switch" and nxt.discr is not None and \
                    nxt.discr.kind in ("copy", "move") and nxt.discr.place.local == t.dest.local:
                for v, tb in list(nxt.arms) + [("else", nxt.otherwise)]:
                    if tb is not None and guards.truth(nxt, v) is True:
                        empt.add((t.target, tb))
    defs = [(k, bb, x) for k, bb, x in du.defs.get(V, [])]

    def clear_reach(start_bb, cut=frozenset(), from_entry=False):
        """blocks reachable from the end of start_bb (or from entry up to and including blocks) without
        crossing another definition of the count and without the edges in `cut`"""
        seen, work = set(), [start_bb]
        first = True
        while work:
            x = work.pop()
            if x in seen:
                continue
            if not first and not from_entry and any(db == x for _k, db, _x in defs):
                seen.add(x)
                continue
            seen.add(x)
            first = False
            for y in b.blocks[x].term.succs():
                if (x, y) not in cut and not b.blocks[y].cleanup:
                    work.append(y)
        return seen

    def preds_reach(target, within):
        seen, work = set(), [target]
        pr = guards._preds(b)
        while work:
            x = work.pop()
            if x in seen or x not in within:
                continue
            seen.add(x)
            work.extend(pr.get(x, ()))
        return seen
    n_or = 0
    for k, dbb, x in defs:
        if k != "stmt" or x.rv.kind != "use":
            chk.fail("RESERVE", "count/def", "the published count is defined by something other than an "
                     "assignment", x.span.loc())
            continue
        val = _norm(du.origin(x.rv.ops[0]))
        fwd = clear_reach(dbb)
        if val == ("const", 0):
            # zero: is there a way entry -> def -> publication that never takes an `is_empty` true edge?
            to_def = set()
            seen, work = set(), [0]
            while work:
                y = work.pop()
                if y in seen:
                    continue
                seen.add(y)
                for z in b.blocks[y].term.succs():
                    if (y, z) not in empt and not b.blocks[z].cleanup:
                        work.append(z)
            to_def = seen
            after = clear_reach(dbb, cut=empt)
            if dbb in to_def and pbb in after:
                chk.fail("RESERVE", "count/zero-nonempty", "a count of 0 (no preparation fee) can be published "
                         "for a split that was not found empty", x.span.loc())
            else:
                chk.ok("RESERVE", "zero: the count 0 reaches publication only over the true edge of an is_empty "
                       "test of the split", sample=True)
            continue
        # an oracle answer - possibly handed on through a joined Option (`let fits = match .. { Some(n) if fit => Some(n),
        # _ => None }; match fits { Some(n) => break n, .. }`): look through the join at the Some(..) definitions
        join_bb = None
        if val[0] == "field" and val[1][0] == "variant" and val[1][2].endswith("Some") and val[1][1][0] == "local":
            somes = [(bi_, st_) for k_, bi_, st_ in du.defs.get(val[1][1][1], []) if k_ == "stmt" and
                     st_.rv.kind == "agg" and st_.rv.agg[0] == "adt" and st_.rv.agg[2] == "Some" and st_.rv.ops]
            if len(somes) == 1:
                join_bb = somes[0][0]
                val = _norm(du.origin(somes[0][1].rv.ops[0]))
        n_or += 1
        shown = defuse.show(val)
        if "<indirect>" not in shown and "::call" not in shown and "call(" not in shown:
            chk.fail("RESERVE", "count/source", "the published count is neither 0 nor an answer of the "
                     "preparation-cost oracle: %s" % shown[:100], x.span.loc())
            continue
        fit = None
        v0 = val
        if v0[0] == "field" and v0[1][0] == "variant" and v0[1][2].endswith("Some"):
            fit = _fit(w, v0[1][1])
            if fit is not None:
                payload = fit[1]
                fit = fit if payload[0] == "payload" else None
        if fit is None:
            for sw, v, tb in guards.edge_conditions(b, dbb) + (guards.edge_conditions(b, join_bb) if join_bb is not None else []):
                t = b.blocks[sw].term
                if guards.truth(t, v) is not True or t.discr is None or t.discr.kind not in ("copy", "move"):
                    continue
                f2 = _fit(w, du.origin(t.discr)) or _fit_cmp(du.origin(t.discr))
                if f2 is not None and f2[1] == val:
                    fit = f2
                    break
        if fit is None:
            chk.fail("RESERVE", "count/unfitted", "an oracle answer becomes the published count without having "
                     "passed `sum(notes) + count * fee <= total` (count: %s)" % shown[:100], x.span.loc())
        else:
            s_, _c, f_, op, t_ = fit
            diffs = [nm for nm, a, e in (("sum of prepared notes", s_, notes_sum), ("fee", f_, fee),
                                         ("total", t_, total)) if a != e]
            if diffs:
                chk.fail("RESERVE", "count/fit-mismatch", "the fit test an oracle answer passes is not over the "
                         "published quantities: %s differ(s) (test: %s + n * %s %s %s)" %
                         (diffs, defuse.show(s_)[:60], defuse.show(f_)[:30], op, defuse.show(t_)[:30]), x.span.loc())
            else:
                chk.ok("RESERVE", "fit: the oracle answer that becomes the count passed sum(notes) + n * fee %s total "
                       "over the same sum, fee and total the publication subtracts" % ("<=" if op == "Le" else "<"),
                       sample=True)
        stale = [pb for pb in pops if pb in fwd and pbb in clear_reach(pb)]
        if stale:
            chk.fail("RESERVE", "count/stale", "after an oracle answer is taken as the count, parts can still be "
                     "dropped before publication while the count stays", b.blocks[stale[0]].term.span.loc())
        else:
            chk.ok("RESERVE", "stale: no truncation of the split lies between taking the count and publishing it")
    if n_or == 0:
        chk.fail("RESERVE", "count/no-oracle", "no oracle answer ever becomes the published count", plan.span.loc())


def main(tier):
    chk = Check("C16", "other", tier)
    chk.explanation = (
        "Non-interference (taint) analysis on MIR for one clause of C16: the rng parameter of "
        "plan_denominations and of every DenominationStrategy::plan implementation cannot "
        "influence any value: it is either unused or only passed on to parameters that are "
        "themselves non-interfering. This clause quantifies over all RNG streams and is decided "
        "exactly. All arithmetic clauses (canonical denominations, conservation, change bound) are "
        "not decided.")
    chk.trusted = ["rustc MIR and trait resolution (class-hierarchy expansion for trait calls)"]
    chk.rule("RNG", "the rng parameter of the planning functions is non-interfering", floor=2)
    chk.rule("CFG", "normative bounds and the caller's cap reach the strategy unmodified", floor=4)
    chk.rule("BOUND", "every value entering the canonical split is range-tested", floor=3)
    chk.rule("CAP", "every push is under the note-cap test", floor=1)
    chk.rule("PREFIX", "reconciliation only truncates the canonical split", floor=2)
    chk.rule("RESERVE", "the reserved preparation fee is for the published notes and passed the fit test", floor=4)
    chk.rule("OPTIMISTIC", "the split reserves fees under the documented one-transaction-per-F-notes model", floor=2)
    chk.rule("control", "positive control", floor=1)
    w = zf.World(extract.facts_dir("all"), ["zcash_pool_migration", "zcash_pool_migration_memory", "zcash_protocol",
                                            "zcash_client_sqlite"])
    T = Taint(w)
    targets = []
    for f in w.fns.values():
        if "::tests::" in f.p or "::testing" in f.p or f.is_closure():
            continue
        if f.p == "zcash_pool_migration::denomination::plan_denominations":
            targets.append(f)
        elif f.trait == "zcash_pool_migration::denomination::DenominationStrategy" and \
                f.p.endswith("::plan"):
            targets.append(f)
    if not any(f.p.endswith("plan_denominations") for f in targets):
        chk.fail("RNG", "plan_denominations/missing", "plan_denominations not found")
    if not any(f.trait for f in targets):
        chk.fail("RNG", "strategy-impl/missing", "no DenominationStrategy::plan implementation found")
    for f in sorted(targets, key=lambda f: f.p):
        ps = rng_params(f)
        if not ps:
            chk.fail("RNG", f.p + "/no-rng-param", "planning function has no generator parameter any "
                     "more: the clause's anchor changed", f.span.loc())
            continue
        for i in ps:
            if T.clean(f, i):
                chk.ok("RNG", "%s: parameter %d (%s) cannot influence the plan"
                       % (f.p, i, f.body.local_name(i + 1) or f.argnames[i]), sample=True)
            else:
                chk.fail("RNG", "%s/param%d" % (f.p, i),
                         "the plan can depend on the random generator: %s" % T.why.get((f.id, i), "?"),
                         f.span.loc())
    chk.analysed["planning_functions"] = [f.p for f in targets]
    structure(chk, w)
    try:
        optimistic(chk, w, w.fn(ST + "unconstrained_split"))
    except KeyError:
        chk.fail("OPTIMISTIC", "split/missing", "unconstrained_split not found")
    for f in w.fns.values():
        if f.p.endswith("DenominationStrategy>::plan") and "CanonicalOneTwoFive" in f.p and not f.is_closure():
            reserve(chk, w, f)
    # control: a function that really draws from its generator must be flagged
    draw = None
    for f in w.fns.values():
        if f.crate.name == "zcash_pool_migration" and "::tests::" not in f.p and not f.is_closure():
            ps = rng_params(f)
            if ps and f.p.startswith("zcash_pool_migration::scheduling::"):
                if not T.clean(f, ps[0]):
                    draw = f
                    break
    if draw is not None:
        chk.ok("control", "%s, which draws from its generator, is classified as interfering" % draw.p)
    else:
        chk.fail("control", "drawing-fn", "no generator-using function was classified as interfering")
    chk.finish()
