"""C16 — one clause: "The plan does not depend on the random generator".

Non-interference of the `rng` parameter of plan_denominations and of every
DenominationStrategy::plan implementation (non-test code): on the MIR, the parameter and every
reborrow/copy of it may only be (a) left unused or (b) handed on, unchanged, as the argument of
a workspace function whose corresponding parameter is itself non-interfering (checked
recursively, through trait-method calls by class-hierarchy expansion).  Any other use — a call
into the RNG API, a dereference, a store — makes the plan depend on the generator.
All arithmetic clauses of C16 (canonical 1-2-5 prefix, conservation, change bound) are NOT decided.
"""
import re

import extract
import zf
from common import Check


def rng_params(f):
    """indices (0-based) of parameters that carry a random generator"""
    out = []
    rng_tys = set()
    for p in f.preds:
        m = re.match(r"(\w+): (?:rand_core|rand)::(?:RngCore|CryptoRng|Rng)\b", p)
        if m:
            rng_tys.add(m.group(1))
    for i in range(f.body.argc):
        ty = f.body.local_ty(i + 1)
        base = re.sub(r"^&('\w+ )?(mut )?", "", ty)
        if base in rng_tys or re.search(r"\bdyn (rand_core|rand)::(RngCore|CryptoRng)", ty):
            out.append(i)
    return out


class Taint:
    def __init__(self, w):
        self.w = w
        self.memo = {}
        self.why = {}

    def clean(self, f, i, stack=()):
        """True if parameter i of f cannot influence anything (non-interference)"""
        key = (f.id, i)
        if key in self.memo:
            return self.memo[key]
        if key in stack:
            return True      # coinductive hypothesis
        body = f.body
        carriers = {i + 1}
        changed = True
        while changed:
            changed = False
            for blk in body.blocks:
                for s in blk.stmts:
                    if s.kind != "=" or s.place.proj:
                        continue
                    src = None
                    if s.rv.kind == "use" and s.rv.ops[0].kind in ("copy", "move"):
                        src = s.rv.ops[0].place
                    elif s.rv.kind in ("ref", "raw"):
                        src = s.rv.place
                    if src is not None and src.local in carriers and \
                            all(p == "*" for p in src.proj) and s.place.local not in carriers:
                        carriers.add(s.place.local)
                        changed = True
        ok = True
        for bi, blk in enumerate(body.blocks):
            if blk.cleanup:
                continue
            for s in blk.stmts:
                if s.kind != "=":
                    continue
                used = self._uses_stmt(s, carriers)
                if used and not self._is_carrier_def(s, carriers):
                    ok = False
                    self.why[key] = "value derived from the generator at %s: %r" % (s.span.loc(), s)
            t = blk.term
            if t.kind in ("call", "tailcall"):
                for j, a in enumerate(t.args):
                    if a.kind in ("copy", "move") and a.place.local in carriers:
                        if any(p != "*" for p in a.place.proj):
                            ok = False
                            self.why[key] = "field of the generator passed at %s" % t.span.loc()
                            continue
                        tg = self.w.call_targets(t, include_closures=False) \
                            if t.callee.indirect is None else []
                        if not tg:
                            ok = False
                            self.why[key] = "generator passed to %s at %s" % (
                                t.callee.target_p() if t.callee.indirect is None else "<indirect>",
                                t.span.loc())
                            continue
                        for g in tg:
                            gf = self.w.fns[g]
                            if j >= gf.body.argc or not self.clean(gf, j, stack + (key,)):
                                ok = False
                                self.why[key] = "generator passed to %s (parameter %d), which uses " \
                                                "it: %s" % (gf.p, j, self.why.get((g, j), "?"))
                # closures capturing the generator
                if t.callee.indirect is None:
                    for c in t.callee.closures or ():
                        pass
            elif t.kind == "switch" and t.discr.kind in ("copy", "move") and \
                    t.discr.place.local in carriers:
                ok = False
                self.why[key] = "branch on the generator at %s" % t.span.loc()
        # captured by a closure created here
        for blk in body.blocks:
            for s in blk.stmts:
                if s.kind == "=" and s.rv.kind == "agg" and s.rv.agg[0] == "closure":
                    for o in s.rv.ops:
                        if o.kind in ("copy", "move") and o.place.local in carriers:
                            ok = False
                            self.why[key] = "generator captured by a closure at %s" % s.span.loc()
        self.memo[key] = ok
        return ok

    def _is_carrier_def(self, s, carriers):
        return (not s.place.proj and s.place.local in carriers)

    def _uses_stmt(self, s, carriers):
        rv = s.rv
        places = []
        if rv.kind in ("ref", "raw", "disc"):
            places.append(rv.place)
        for o in rv.ops:
            if o.kind in ("copy", "move"):
                places.append(o.place)
        return any(p.local in carriers for p in places)


def main(tier):
    chk = Check("C16", "other", tier)
    chk.explanation = (
        "Non-interference (taint) analysis on MIR for one clause of C16: the rng parameter of "
        "plan_denominations and of every DenominationStrategy::plan implementation cannot "
        "influence any value: it is either unused or only passed on to parameters that are "
        "themselves non-interfering. This clause quantifies over all RNG streams and is decided "
        "exactly. All arithmetic clauses (canonical denominations, conservation, change bound) are "
        "not decided.")
    chk.trusted = ["rustc MIR and trait resolution (class-hierarchy expansion for trait calls)"]
    chk.rule("RNG", "the rng parameter of the planning functions is non-interfering", floor=2)
    chk.rule("control", "positive control", floor=1)
    w = zf.World(extract.facts_dir("all"), ["zcash_pool_migration", "zcash_pool_migration_memory",
                                            "zcash_client_sqlite"])
    T = Taint(w)
    targets = []
    for f in w.fns.values():
        if "::tests::" in f.p or "::testing" in f.p or f.is_closure():
            continue
        if f.p == "zcash_pool_migration::denomination::plan_denominations":
            targets.append(f)
        elif f.trait == "zcash_pool_migration::denomination::DenominationStrategy" and \
                f.p.endswith("::plan"):
            targets.append(f)
    if not any(f.p.endswith("plan_denominations") for f in targets):
        chk.fail("RNG", "plan_denominations/missing", "plan_denominations not found")
    if not any(f.trait for f in targets):
        chk.fail("RNG", "strategy-impl/missing", "no DenominationStrategy::plan implementation found")
    for f in sorted(targets, key=lambda f: f.p):
        ps = rng_params(f)
        if not ps:
            chk.fail("RNG", f.p + "/no-rng-param", "planning function has no generator parameter any "
                     "more: the clause's anchor changed", f.span.loc())
            continue
        for i in ps:
            if T.clean(f, i):
                chk.ok("RNG", "%s: parameter %d (%s) cannot influence the plan"
                       % (f.p, i, f.body.local_name(i + 1) or f.argnames[i]), sample=True)
            else:
                chk.fail("RNG", "%s/param%d" % (f.p, i),
                         "the plan can depend on the random generator: %s" % T.why.get((f.id, i), "?"),
                         f.span.loc())
    chk.analysed["planning_functions"] = [f.p for f in targets]
    # control: a function that really draws from its generator must be flagged
    draw = None
    for f in w.fns.values():
        if f.crate.name == "zcash_pool_migration" and "::tests::" not in f.p and not f.is_closure():
            ps = rng_params(f)
            if ps and f.p.startswith("zcash_pool_migration::scheduling::"):
                if not T.clean(f, ps[0]):
                    draw = f
                    break
    if draw is not None:
        chk.ok("control", "%s, which draws from its generator, is classified as interfering" % draw.p)
    else:
        chk.fail("control", "drawing-fn", "no generator-using function was classified as interfering")
    chk.finish()
