"""C16 — one clause: "The plan does not depend on the random generator".

Non-interference of the `rng` parameter of plan_denominations and of every
DenominationStrategy::plan implementation (non-test code): on the MIR, the parameter and every
reborrow/copy of it may only be (a) left unused or (b) handed on, unchanged, as the argument of
a workspace function whose corresponding parameter is itself non-interfering (checked
recursively, through trait-method calls by class-hierarchy expansion).  Any other use — a call
into the RNG API, a dereference, a store — makes the plan depend on the generator.
All arithmetic clauses of C16 (canonical 1-2-5 prefix, conservation, change bound) are NOT decided.
"""
import re

import extract
import zf
from common import Check


def rng_params(f):
    """indices (0-based) of parameters that carry a random generator"""
    out = []
    rng_tys = set()
    for p in f.preds:
        m = re.match(r"(\w+): (?:rand_core|rand)::(?:RngCore|CryptoRng|Rng)\b", p)
        if m:
            rng_tys.add(m.group(1))
    for i in range(f.body.argc):
        ty = f.body.local_ty(i + 1)
        base = re.sub(r"^&('\w+ )?(mut )?", "", ty)
        if base in rng_tys or re.search(r"\bdyn (rand_core|rand)::(RngCore|CryptoRng)", ty):
            out.append(i)
    return out


class Taint:
    def __init__(self, w):
        self.w = w
        self.memo = {}
        self.why = {}

    def clean(self, f, i, stack=()):
        """True if parameter i of f cannot influence anything (non-interference)"""
        key = (f.id, i)
        if key in self.memo:
            return self.memo[key]
        if key in stack:
            return True      # coinductive hypothesis
        body = f.body
        carriers = {i + 1}
        changed = True
        while changed:
            changed = False
            for blk in body.blocks:
                for s in blk.stmts:
                    if s.kind != "=" or s.place.proj:
                        continue
                    src = None
                    if s.rv.kind == "use" and s.rv.ops[0].kind in ("copy", "move"):
                        src = s.rv.ops[0].place
                    elif s.rv.kind in ("ref", "raw"):
                        src = s.rv.place
                    if src is not None and src.local in carriers and \
                            all(p == "*" for p in src.proj) and s.place.local not in carriers:
                        carriers.add(s.place.local)
                        changed = True
        ok = True
        for bi, blk in enumerate(body.blocks):
            if blk.cleanup:
                continue
            for s in blk.stmts:
                if s.kind != "=":
                    continue
                used = self._uses_stmt(s, carriers)
                if used and not self._is_carrier_def(s, carriers):
                    ok = False
                    self.why[key] = "value derived from the generator at %s: %r" % (s.span.loc(), s)
            t = blk.term
            if t.kind in ("call", "tailcall"):
                for j, a in enumerate(t.args):
                    if a.kind in ("copy", "move") and a.place.local in carriers:
                        if any(p != "*" for p in a.place.proj):
                            ok = False
                            self.why[key] = "field of the generator passed at %s" % t.span.loc()
                            continue
                        tg = self.w.call_targets(t, include_closures=False) \
                            if t.callee.indirect is None else []
                        if not tg:
                            ok = False
                            self.why[key] = "generator passed to %s at %s" % (
                                t.callee.target_p() if t.callee.indirect is None else "<indirect>",
                                t.span.loc())
                            continue
                        for g in tg:
                            gf = self.w.fns[g]
                            if j >= gf.body.argc or not self.clean(gf, j, stack + (key,)):
                                ok = False
                                self.why[key] = "generator passed to %s (parameter %d), which uses " \
                                                "it: %s" % (gf.p, j, self.why.get((g, j), "?"))
                # closures capturing the generator
                if t.callee.indirect is None:
                    for c in t.callee.closures or ():
                        pass
            elif t.kind == "switch" and t.discr.kind in ("copy", "move") and \
                    t.discr.place.local in carriers:
                ok = False
                self.why[key] = "branch on the generator at %s" % t.span.loc()
        # captured by a closure created here
        for blk in body.blocks:
            for s in blk.stmts:
                if s.kind == "=" and s.rv.kind == "agg" and s.rv.agg[0] == "closure":
                    for o in s.rv.ops:
                        if o.kind in ("copy", "move") and o.place.local in carriers:
                            ok = False
                            self.why[key] = "generator captured by a closure at %s" % s.span.loc()
        self.memo[key] = ok
        return ok

    def _is_carrier_def(self, s, carriers):
        return (not s.place.proj and s.place.local in carriers)

    def _uses_stmt(self, s, carriers):
        rv = s.rv
        places = []
        if rv.kind in ("ref", "raw", "disc"):
            places.append(rv.place)
        for o in rv.ops:
            if o.kind in ("copy", "move"):
                places.append(o.place)
        return any(p.local in carriers for p in places)


ST = "zcash_pool_migration::denomination::strategies::CanonicalOneTwoFive::"
MINF, MAXF, CAPF = "*arg0.min_denomination_zatoshi", "*arg0.max_denomination_zatoshi", "*arg0.max_notes"


def _mut_ref_target(body, du, op):
    """local behind `&mut local` passed as an operand (None if not a plain mutable borrow)"""
    if op.kind not in ("copy", "move") or op.place.proj:
        return None
    d = du.single(op.place.local)
    n = 0
    while d is not None and d[0] == "stmt" and n < 6:
        n += 1
        rv = d[2].rv
        if rv.kind in ("ref", "raw"):
            if not (d[2].ty or "").startswith("&mut"):
                return None
            if not rv.place.proj:
                return rv.place.local
            if tuple(rv.place.proj) == ("*",):
                d = du.single(rv.place.local)
                continue
            return None
        if rv.kind == "use" and rv.ops[0].kind in ("copy", "move") and not rv.ops[0].place.proj:
            d = du.single(rv.ops[0].place.local)
            continue
        return None
    return None


def structure(chk, w):
    """structural clauses of the canonical strategy (see module docstring of the rule names)"""
    import defuse
    import sqlfx
    import vc
    try:
        wmn, new, split = w.fn(ST + "with_max_notes"), w.fn(ST + "new"), w.fn(ST + "unconstrained_split")
        pd = w.fn("zcash_pool_migration::denomination::plan_denominations")
    except KeyError as e:
        chk.fail("CFG", "missing", "strategy function not found: %s" % e)
        return
    plan = [f for f in w.fns.values() if f.p.endswith("DenominationStrategy>::plan") and
            "CanonicalOneTwoFive" in f.p]
    # ---- CFG: the normative bounds and the caller's cap reach the strategy unmodified
    coin = w.consts.get("zcash_protocol::value::COIN", {}).get("v")
    cap = w.consts.get("zcash_protocol::zip318::DENOM_CAP", {}).get("v")
    floor = w.consts.get("zcash_protocol::zip318::MAX_RESIDUAL_VALUE", {}).get("v")
    if coin and cap == 10000 * coin and floor * 100 == coin:
        chk.ok("CFG", "DENOM_CAP = 10,000 ZEC and MAX_RESIDUAL_VALUE = 0.01 ZEC", sample=True)
    else:
        chk.fail("CFG", "constants", "DENOM_CAP = %s, MAX_RESIDUAL_VALUE = %s zatoshi (COIN = %s): not "
                 "10,000 ZEC / 0.01 ZEC" % (cap, floor, coin))
    du = defuse.DefUse(wmn.body)
    calls = [t for bb, t in wmn.body.calls() if t.callee.indirect is None and
             t.callee.target_p() == ST + "new" and not wmn.body.blocks[bb].cleanup]
    got = [defuse.show(du.origin(a)) for a in calls[0].args] if len(calls) == 1 else None
    if got == ["get(arg0)", str(cap), str(floor), "arg1"]:
        chk.ok("CFG", "with_max_notes(cap, buffer) = new(cap unmodified, DENOM_CAP, MAX_RESIDUAL_VALUE, "
               "buffer)", sample=True)
    else:
        chk.fail("CFG", "with_max_notes", "with_max_notes builds the strategy as new(%s): the caller's "
                 "note cap or the normative ZIP 318 bounds do not reach it unmodified" % got,
                 wmn.span.loc())
    du = defuse.DefUse(new.body)
    agg = [st for blk in new.body.blocks for st in blk.stmts
           if st.kind == "=" and st.rv.kind == "agg" and st.rv.agg[0] == "adt"]
    got = dict(zip(agg[0].rv.agg[3], [defuse.show(du.origin(o)) for o in agg[0].rv.ops])) if len(agg) == 1 else {}
    want = {"max_notes": "arg0", "max_denomination_zatoshi": "from(arg1)",
            "min_denomination_zatoshi": "from(arg2)", "buffer_zatoshi": "from(arg3)"}
    if got == want:
        chk.ok("CFG", "new stores cap, maximum, minimum and buffer into their own fields")
    else:
        chk.fail("CFG", "new", "CanonicalOneTwoFive::new stores %s" % got, new.span.loc())
    du = defuse.DefUse(pd.body)
    sh = {t.callee.target_p().rsplit("::", 1)[-1]: [defuse.show(du.origin(a)) for a in t.args]
          for bb, t in pd.body.calls() if t.callee.indirect is None and not pd.body.blocks[bb].cleanup}
    if sh.get("with_max_notes") == ["arg2", "arg3"] and \
            sh.get("plan", [None] * 5)[1:4] == ["arg0", "arg1", "arg4"]:
        chk.ok("CFG", "plan_denominations hands its cap, buffer, balance, note count and preparation "
               "fee to the strategy unmodified")
    else:
        chk.fail("CFG", "plan_denominations", "plan_denominations calls %s" % sh, pd.span.loc())
    # ---- BOUND / CAP: what enters the canonical split
    b = split.body
    du = defuse.DefUse(b)
    cyc = sqlfx.cyclic_blocks(b)

    def dominated_by_test(bb, pred, arm):
        """a switch whose condition satisfies pred and whose `arm` (1 = true) target dominates bb"""
        for sb, blk in enumerate(b.blocks):
            t = blk.term
            if t.kind != "switch" or not pred(defuse.show(du.origin(t.discr))):
                continue
            arms = dict(t.arms)
            tgt = arms.get(arm, t.otherwise if arm not in arms else None)
            if tgt is not None and (tgt == bb or b.dominates(tgt, bb)) and \
                    not any(b.dominates(o, bb) or o == bb for v, o in list(arms.items()) +
                            [("o", t.otherwise)] if o is not None and o != tgt):
                return True
        return False
    pushes = [(bb, t) for bb, t in b.calls() if t.callee.indirect is None and
              t.callee.target_p().endswith("Vec::<T, A>::push") and not b.blocks[bb].cleanup]
    lits = []
    for bb, blk in enumerate(b.blocks):
        t = blk.term
        if t.kind == "call" and t.callee.indirect is None and t.dest is not None and \
                t.callee.target_p().endswith("box_assume_init_into_vec_unsafe"):
            for st in blk.stmts:
                if st.kind == "=" and st.rv.kind == "agg" and st.rv.agg[0] == "array":
                    lits.append((bb, st))
    if not pushes and not lits:
        chk.fail("BOUND", "no-element", "no value enters unconstrained_split's result", split.span.loc())
    n = 0
    for bb, st in lits:
        for op in st.rv.ops:
            n += 1
            v = defuse.show(du.origin(op))
            rng = "&new(%s, %s)" % (MINF, MAXF)
            cont = [(cb, t) for cb, t in b.calls() if t.callee.indirect is None and
                    t.callee.target_p().endswith("RangeInclusive::<Idx>::contains") and
                    [defuse.show(du.origin(a)) for a in t.args] == [rng, "&" + v]]
            okk = any(dominated_by_test(bb, lambda s_, c=cb: s_.startswith("contains(%s, &%s)" % (rng, v)), 1)
                      for cb, _t in cont)
            if okk:
                chk.ok("BOUND", "the lone-note crossing %s enters the split only inside "
                       "(min..=max).contains(..)" % v, sample=True)
            else:
                chk.fail("BOUND", "literal#%d" % n, "the value %s is published as a crossing without "
                         "the (min_denomination..=max_denomination) range test: a crossing outside "
                         "[0.01, 10,000] ZEC is possible" % v, st.span.loc())
    for bb, t in pushes:
        n += 1
        x = du.origin(t.args[1])
        xs = defuse.show(x)
        good_src = x[0] == "call" and x[1].endswith("zip318::largest_one_two_five") and \
            defuse.show(x[2][1]) == MINF
        upper = False
        if good_src and x[2][0][0] == "local":
            defs = du.defs.get(x[2][0][1], [])
            forms = []
            for kind, _bi, d in defs:
                if kind == "call" and d.callee.indirect is None and d.callee.target_p() == "core::cmp::Ord::min" \
                        and MAXF in [defuse.show(du.origin(a)) for a in d.args]:
                    forms.append("min")
                elif kind == "stmt" and d.rv.kind in ("bin", "use"):
                    o = du.origin(d.rv.ops[0]) if d.rv.kind == "use" else ("bin", d.rv.op, du.origin(d.rv.ops[0]),
                                                                          du.origin(d.rv.ops[1]))
                    so = defuse.show(o)
                    forms.append("dec" if re.match(r"\(largest_one_two_five\(_\d+, %s\) Sub 1\)$"
                                                   % re.escape(MINF), so) else "other:" + so[:40])
                else:
                    forms.append("other")
            upper = bool(forms) and "min" in forms and all(f_ in ("min", "dec") for f_ in forms)
        elif good_src:
            upper = MAXF in defuse.show(x[2][0]) and "min(" in defuse.show(x[2][0])
        lower = dominated_by_test(bb, lambda s_: re.match(r"\(largest_one_two_five\(.*\) Lt %s\)$"
                                                           % re.escape(MINF), s_) is not None, 0)
        if not lower and good_src:
            # or: the value handed to largest_one_two_five is itself tested `>= min` (the helper
            # returns at least `floor` whenever its argument is at least `floor`)
            a_txt = re.escape(defuse.show(x[2][0]))
            lower = dominated_by_test(bb, lambda s_: re.match(r"\(%s Ge %s\)$" % (a_txt, re.escape(MINF)), s_)
                                      is not None, 1) or \
                dominated_by_test(bb, lambda s_: re.match(r"\(%s Lt %s\)$" % (a_txt, re.escape(MINF)), s_)
                                  is not None, 0)
        capped = dominated_by_test(bb, lambda s_: re.match(r"\(len\(.*\) Lt %s\)$" % re.escape(CAPF), s_)
                                   is not None, 1)
        if good_src and upper and lower:
            chk.ok("BOUND", "pushed crossing = largest_one_two_five(a, min) with a <= max_denomination "
                   "(every definition of a is min(_, max) or a previous crossing - 1) and the push "
                   "follows `crossing >= min`", sample=True)
        else:
            chk.fail("BOUND", "push#%d" % n, "a crossing %s is pushed without both bounds (from "
                     "largest_one_two_five: %s, capped by max_denomination: %s, tested against "
                     "min_denomination: %s)" % (xs[:70], good_src, upper, lower), t.span.loc())
        if capped:
            chk.ok("CAP", "every push happens under `crossings.len() < max_notes`", sample=True)
        else:
            chk.fail("CAP", "push#%d" % n, "a crossing is pushed without the `len() < max_notes` test: "
                     "the plan can exceed the note cap", t.span.loc())
    # the only mutation of the result vector is push
    res = {(_mut_ref_target(b, du, t.args[0]), t.callee.target_p().rsplit("::", 1)[-1])
           for bb, t in b.calls() if t.callee.indirect is None and t.args and not b.blocks[bb].cleanup
           and _mut_ref_target(b, du, t.args[0]) is not None}
    others = sorted(m for _l, m in res if m not in ("push",))
    if not others:
        chk.ok("BOUND", "the split is only ever extended by push")
    else:
        chk.fail("BOUND", "mutators", "the split vector is also modified by %s" % others, split.span.loc())
    # ---- PREFIX: reconciliation only truncates the canonical split
    if len(plan) != 1:
        chk.fail("PREFIX", "plan/missing", "CanonicalOneTwoFive::plan not found")
        return
    b = plan[0].body
    du = defuse.DefUse(b)
    sp = [t for bb, t in b.calls() if t.callee.indirect is None and
          t.callee.target_p() == ST + "unconstrained_split" and not b.blocks[bb].cleanup]
    fn_ = [t for bb, t in b.calls() if t.callee.indirect is None and
           t.callee.target_p().endswith("DenominationPlan::from_notes") and not b.blocks[bb].cleanup]
    if len(sp) != 1 or len(fn_) != 1 or sp[0].dest is None:
        chk.fail("PREFIX", "plan/shape", "plan does not compute one canonical split and build one plan "
                 "from it", plan[0].span.loc())
        return
    cv = sp[0].dest.local
    muts = {}
    for bb, t in b.calls():
        if b.blocks[bb].cleanup or t.callee.indirect is not None or not t.args:
            continue
        tgt = _mut_ref_target(b, du, t.args[0])
        if tgt is not None:
            muts.setdefault(tgt, []).append((bb, t.callee.target_p().rsplit("::", 1)[-1]))
    stores = [st for blk in b.blocks if not blk.cleanup for st in blk.stmts
              if st.kind == "=" and st.place.local == cv]
    cvm = sorted({m for _bb, m in muts.get(cv, [])})
    given = defuse.show(du.origin(fn_[0].args[2]))
    if cvm == ["pop"] and not stores and given.startswith("unconstrained_split("):
        chk.ok("PREFIX", "plan: the canonical split is only ever shortened from the back (pop) before "
               "it is published", sample=True)
    else:
        chk.fail("PREFIX", "plan/mutation", "the crossing values computed by unconstrained_split are "
                 "modified by %s (stores: %d) before publication; only pop keeps them a prefix of the "
                 "canonical split" % (cvm, len(stores)), plan[0].span.loc())
    # each pop of the crossings is paired with a pop of the prepared notes
    other = [l for l, ms in muts.items() if l != cv and {m for _b, m in ms} == {"pop"}]
    pops_cv = [bb for bb, m in muts.get(cv, []) if m == "pop"]
    paired = bool(other) and all(any(b.dominates(bb, ob) or b.dominates(ob, bb)
                                     for ob, _m in muts[other[0]]) for bb in pops_cv) and \
        len(pops_cv) == len(muts[other[0]])
    if paired:
        chk.ok("PREFIX", "every pop of the crossing values is paired with a pop of the prepared notes")
    else:
        chk.fail("PREFIX", "plan/unpaired-pop", "crossing values and prepared notes are not truncated "
                 "together", plan[0].span.loc())


def main(tier):
    chk = Check("C16", "other", tier)
    chk.explanation = (
        "Non-interference (taint) analysis on MIR for one clause of C16: the rng parameter of "
        "plan_denominations and of every DenominationStrategy::plan implementation cannot "
        "influence any value: it is either unused or only passed on to parameters that are "
        "themselves non-interfering. This clause quantifies over all RNG streams and is decided "
        "exactly. All arithmetic clauses (canonical denominations, conservation, change bound) are "
        "not decided.")
    chk.trusted = ["rustc MIR and trait resolution (class-hierarchy expansion for trait calls)"]
    chk.rule("RNG", "the rng parameter of the planning functions is non-interfering", floor=2)
    chk.rule("CFG", "normative bounds and the caller's cap reach the strategy unmodified", floor=4)
    chk.rule("BOUND", "every value entering the canonical split is range-tested", floor=3)
    chk.rule("CAP", "every push is under the note-cap test", floor=1)
    chk.rule("PREFIX", "reconciliation only truncates the canonical split", floor=2)
    chk.rule("control", "positive control", floor=1)
    w = zf.World(extract.facts_dir("all"), ["zcash_pool_migration", "zcash_pool_migration_memory", "zcash_protocol",
                                            "zcash_client_sqlite"])
    T = Taint(w)
    targets = []
    for f in w.fns.values():
        if "::tests::" in f.p or "::testing" in f.p or f.is_closure():
            continue
        if f.p == "zcash_pool_migration::denomination::plan_denominations":
            targets.append(f)
        elif f.trait == "zcash_pool_migration::denomination::DenominationStrategy" and \
                f.p.endswith("::plan"):
            targets.append(f)
    if not any(f.p.endswith("plan_denominations") for f in targets):
        chk.fail("RNG", "plan_denominations/missing", "plan_denominations not found")
    if not any(f.trait for f in targets):
        chk.fail("RNG", "strategy-impl/missing", "no DenominationStrategy::plan implementation found")
    for f in sorted(targets, key=lambda f: f.p):
        ps = rng_params(f)
        if not ps:
            chk.fail("RNG", f.p + "/no-rng-param", "planning function has no generator parameter any "
                     "more: the clause's anchor changed", f.span.loc())
            continue
        for i in ps:
            if T.clean(f, i):
                chk.ok("RNG", "%s: parameter %d (%s) cannot influence the plan"
                       % (f.p, i, f.body.local_name(i + 1) or f.argnames[i]), sample=True)
            else:
                chk.fail("RNG", "%s/param%d" % (f.p, i),
                         "the plan can depend on the random generator: %s" % T.why.get((f.id, i), "?"),
                         f.span.loc())
    chk.analysed["planning_functions"] = [f.p for f in targets]
    structure(chk, w)
    # control: a function that really draws from its generator must be flagged
    draw = None
    for f in w.fns.values():
        if f.crate.name == "zcash_pool_migration" and "::tests::" not in f.p and not f.is_closure():
            ps = rng_params(f)
            if ps and f.p.startswith("zcash_pool_migration::scheduling::"):
                if not T.clean(f, ps[0]):
                    draw = f
                    break
    if draw is not None:
        chk.ok("control", "%s, which draws from its generator, is classified as interfering" % draw.p)
    else:
        chk.fail("control", "drawing-fn", "no generator-using function was classified as interfering")
    chk.finish()
