"""C11 — unified keys: the clauses whose truth is in the shape of the code (component-slot coherence).

A unified spending / full-viewing / incoming-viewing key is a record with one component per pool
(transparent, Sapling, Orchard). Most of C11 is algebra over ZIP 32 and note encryption and is not
decided. What IS visible in the code, and is a necessary condition of "deriving a viewing key
commutes with deriving addresses", "encodings decode to a key that re-encodes to the same bytes"
and "contains exactly the receivers the keys support":
  SLOT   every value that reaches a pool's slot — a field of a Unified* key record, a pool-named
         parameter of a constructor, the argument of a pool-specific function or enum-variant
         constructor, a pool-named local or captured variable — is derived from that same pool's
         data only (pool tags on MIR def-use origins: field names, variant names, callee paths,
         parameter and variable names; closures are bound to the call site they are handed to)
  ARM    inside the arm of a `match` on a typecode / item kind, only that kind's pool is touched
  USK    UnifiedSpendingKey::to_bytes writes, after each typecode, the bytes of that typecode's
         key; from_bytes demands for each typecode the length the writer's key bytes have
         (where the writer's type fixes it) and reads exactly that many bytes
  REQ    UnifiedIncomingViewingKey::address: with a pool's requirement Omit the receiver handed to
         UnifiedAddress::from_receivers stays None; Require with the key absent is KeyNotAvailable
  INDEX  every pool address inside UnifiedIncomingViewingKey::address comes from a derivation AT an
         index (address_at / derive_address) whose index derives from the `_j` parameter alone
  EXTSCOPE to_unified_incoming_viewing_key derives every component for the external scope
  COVER  to_ufvk / render read every field of their key record (incl. the preserved unknown items)
Not decided: everything cryptographic (ZIP 32 derivation, diversifier search, decryptability),
the string encodings (C10), equality of re-encoded bytes.
"""
import re

import defuse
import extract
import sqlfx
import zf
from common import Check

SCOPE = re.compile(r"^zcash_keys::keys::(Unified|<impl|Era)|^zcash_keys::address::")
TAGS = [("O", re.compile(r"orchard|Orchard")),
        ("S", re.compile(r"sapling|Sapling")),
        ("T", re.compile(r"transparent|Transparent|[Pp]2pkh|[Pp]2sh|AccountPubKey|AccountPrivKey|tfvk|tkey|taddr|"
                         r"ExternalIvk|tivk"))]
POOL = {"O": "Orchard", "S": "Sapling", "T": "transparent"}
GENERIC = re.compile(r"^(core|alloc|std|corez|zcash_encoding|byteorder|subtle|zip32)::")


def ptag(text):
    return {t for t, rx in TAGS if text and rx.search(text)}


def name_tags(path):
    """pool tags of a callee / type path: from its last three segments, ignoring generic arguments
    and the crate-level `zcash_keys::keys` prefix"""
    if not path or GENERIC.match(path):
        return set()
    p = re.sub(r"<[^<>]*>", "", path)
    p = re.sub(r"<[^<>]*>", "", p)
    segs = [s for s in p.split("::") if s]
    root = {"orchard": {"O"}, "sapling_crypto": {"S"}, "zcash_transparent": {"T"}}.get(segs[0].lstrip("<&"), set()) if segs else set()
    return ptag("::".join(segs[-3:])) | root


class Ctx:
    """one function body with the bindings of its captures and closure parameters"""

    def __init__(self, w, f, upvars=None, argtags=None):
        self.w, self.f, self.b = w, f, f.body
        self.du = defuse.DefUse(f.body)
        self.upvars = upvars          # (parent Ctx, [origins of captured operands])
        self.argtags = argtags or {}

    def tags(self, o, depth=0):
        if not isinstance(o, tuple) or depth > 40:
            return set()
        k = o[0]
        if k in ("ref", "deref"):
            return self.tags(o[1], depth + 1)
        if k == "cast":
            return self.tags(o[2], depth + 1)
        if k == "variant":
            return ptag(o[2]) | self.tags(o[1], depth + 1)
        if k == "field":
            base = defuse.strip_refs(o[1])
            if self.upvars is not None and base == ("arg", 0) and o[2][1:].isdigit():
                par, caps = self.upvars
                i = int(o[2][1:])
                return par.tags(caps[i], depth + 1) if i < len(caps) else set()
            t = ptag(o[2])
            return t if t else self.tags(o[1], depth + 1)
        if k == "proj":
            return self.tags(o[1], depth + 1)
        if k == "arg":
            if o[1] + 1 in self.argtags:
                return set(self.argtags[o[1] + 1])
            nm = (self.f.argnames or [None] * 20)[o[1]] if o[1] < len(self.f.argnames or []) else None
            return ptag(nm or self.b.local_name(o[1] + 1) or "")
        if k == "local":
            return ptag(self.b.local_name(o[1]) or "")
        if k == "call":
            t = name_tags(o[1])
            if t:
                return t
            out = set()
            for a in o[2]:
                out |= self.tags(a, depth + 1)
            return out
        if k == "agg":
            t = name_tags(o[1]) if not o[1].startswith("closure:") and o[1] not in ("tuple", "array") else set()
            if t:
                return t
            out = set()
            for a in o[2]:
                out |= self.tags(a, depth + 1)
            return out
        if k == "fn":
            return name_tags(o[1] or "")
        if k in ("bin",):
            return self.tags(o[2], depth + 1) | self.tags(o[3], depth + 1)
        if k in ("un", "disc"):
            return self.tags(o[-1], depth + 1)
        if k == "constdef":
            return name_tags(o[1])
        return set()


def contexts(w, root):
    """the root function and its closures, each closure bound to the site that creates it and, when
    it is handed to a combinator (`x.map(closure)`), to the tags of the receiver"""
    out = [Ctx(w, root)]
    todo = [out[0]]
    seen = {root.id}
    while todo:
        par = todo.pop()
        b, du = par.b, par.du
        for blk in b.blocks:
            if blk.cleanup:
                continue
            for s in blk.stmts:
                if s.kind == "=" and s.rv.kind == "agg" and s.rv.agg[0] == "closure":
                    g = w.fns.get(s.rv.agg[1])
                    if g is None or g.id in seen:
                        continue
                    seen.add(g.id)
                    caps = [du.origin(o) for o in s.rv.ops]
                    argtags = {}
                    # handed to a call: the receiver's tags bind the closure's first parameter
                    for _bb, t in b.calls():
                        if t.callee.indirect is not None or len(t.args) < 2:
                            continue
                        for a in t.args[1:]:
                            oo = du.origin(a)
                            if oo[0] == "agg" and oo[1] == "closure:" + g.id:
                                rt = par.tags(du.origin(t.args[0]))
                                if len(rt) == 1:
                                    argtags[2] = rt
                    c = Ctx(w, g, (par, caps), argtags)
                    out.append(c)
                    todo.append(c)
    return out


def reach_until(b, start, stop):
    """blocks reachable from start without passing through `stop` (so that a match inside a loop has
    arm regions that end at the loop's back edge)"""
    seen, work = set(), [start]
    while work:
        x = work.pop()
        if x in seen or x == stop:
            continue
        seen.add(x)
        work.extend(b.blocks[x].term.succs())
    return seen


def check_slot(chk, w, cx, counts):
    b, du, f = cx.b, cx.du, cx.f
    where = f.p.replace("zcash_keys::", "")

    def need(tag, o, what, span, key):
        got = cx.tags(o)
        counts["slot"] += 1
        if got <= {tag}:
            chk.ok("SLOT", "%s: %s is derived from %s data only" % (where, what, POOL[tag]),
                   sample=(counts["slot"] % 40 == 1))
        else:
            chk.fail("SLOT", key, "%s receives data of %s: %s" % (
                what, " and ".join(POOL[t] for t in sorted(got)), defuse.show(o)[:160]), span.loc())
    ordn = {}

    def nth(k):
        ordn[k] = ordn.get(k, 0) + 1
        return "%s#%d" % (k, ordn[k])
    for bi, blk in enumerate(b.blocks):
        if blk.cleanup:
            continue
        for s in blk.stmts:
            if s.kind != "=":
                continue
            # (A) record fields
            if s.rv.kind == "agg" and s.rv.agg[0] == "adt" and len(s.rv.agg) > 3:
                for fld, op in zip(s.rv.agg[3], s.rv.ops):
                    t = ptag(fld)
                    if len(t) == 1 and s.rv.agg[1].startswith("zcash_keys::"):
                        need(next(iter(t)), du.origin(op), "field `%s` of %s" % (fld, s.rv.agg[1].rsplit("::", 1)[-1]),
                             s.span, nth("%s/field/%s.%s" % (where, s.rv.agg[1].rsplit("::", 1)[-1], fld)))
            # (D) stores into pool-named variables / captured variables
            dst = None
            if not s.place.proj and b.local_name(s.place.local) and s.place.local > b.argc:
                dst = ptag(b.local_name(s.place.local))
                nm = b.local_name(s.place.local)
            elif cx.upvars is not None and s.place.local == 1 and s.place.proj and s.place.proj[-1] == "*" and \
                    len([p for p in s.place.proj if p.startswith(".")]) == 1:
                i = int([p for p in s.place.proj if p.startswith(".")][0][1:])
                par, caps = cx.upvars
                if i < len(caps):
                    dst = par.tags(caps[i])
                    nm = "captured " + defuse.show(defuse.strip_refs(caps[i]))
            if dst and len(dst) == 1 and s.rv.kind in ("use", "agg") and s.rv.ops:
                o = du.origin(s.rv.ops[0]) if s.rv.kind == "use" else ("agg", "x", [du.origin(x) for x in s.rv.ops])
                if o[0] != "const":
                    need(next(iter(dst)), o, "variable `%s`" % nm, s.span, nth("%s/store/%s" % (where, nm)))
        t = blk.term
        if t.kind != "call" or t.callee.indirect is not None:
            continue
        g = w.fns.get(t.callee.target_id())
        callee = getattr(t.callee, "full", None) or t.callee.target_p()
        # (B) pool-named parameters of workspace functions
        if g is not None and g.argnames and not g.is_closure():
            for i, (nm, a) in enumerate(zip(g.argnames, t.args)):
                tt = ptag(nm or "")
                if len(tt) == 1:
                    need(next(iter(tt)), du.origin(a), "parameter `%s` of %s" % (nm, g.p.rsplit("::", 1)[-1]), t.span,
                         nth("%s/param/%s.%s" % (where, g.p.rsplit("::", 1)[-1], nm)))
        # (C) pool-specific callee
        ct = name_tags(t.callee.target_p())
        if len(ct) == 1 and t.args:
            for i, a in enumerate(t.args):
                o = du.origin(a)
                if cx.tags(o):
                    need(next(iter(ct)), o, "argument %d of %s" % (i, t.callee.target_p().rsplit("::", 2)[-2:]), t.span,
                         nth("%s/arg/%s" % (where, "::".join(t.callee.target_p().rsplit("::", 2)[-2:]))))
        # a dest that is a pool-named variable
        if t.dest is not None and not t.dest.proj and b.local_name(t.dest.local):
            dt = ptag(b.local_name(t.dest.local))
            if len(dt) == 1:
                o = ("call", t.callee.target_p(), [du.origin(a) for a in t.args])
                need(next(iter(dt)), o, "variable `%s`" % b.local_name(t.dest.local), t.span,
                     nth("%s/store/%s" % (where, b.local_name(t.dest.local))))


def check_arms(chk, w, cx, counts):
    """within the arm of a match on a pool-tagged enum variant only that pool is touched"""
    b, du, f = cx.b, cx.du, cx.f
    where = f.p.replace("zcash_keys::", "")
    for bi, blk in enumerate(b.blocks):
        t = blk.term
        if blk.cleanup or t.kind != "switch":
            continue
        o = du.origin(t.discr)
        if o[0] != "disc":
            continue
        # the enum matched on
        inner = o[1]
        ty = None
        d = t.discr
        if d.kind in ("copy", "move") and not d.place.proj:
            dd = du.single(d.place.local)
            if dd and dd[0] == "stmt" and dd[2].rv.kind == "disc":
                pl = dd[2].rv.place
                ty = b.local_ty(pl.local) if not [p for p in pl.proj if p != "*"] else None
        ty = re.sub(r"^(&('\w+ )?(mut )?)+", "", ty or "")
        adt = w.adts.get(ty)
        if adt is None and ty:
            last = re.sub(r"<.*$", "", ty).rsplit("::", 1)[-1]
            cands = [a for k_, a in w.adts.items() if k_.rsplit("::", 1)[-1] == last and a.get("kind") == "Enum" and
                     k_.split("::")[0] == ty.split("::")[0]]
            adt = cands[0] if len(cands) == 1 else None
        if not adt or adt.get("kind") != "Enum":
            continue
        names = [v["name"] for v in adt["variants"]]
        if len([n for n in names if len(ptag(n)) == 1]) < 2:
            continue
        reach = {v: reach_until(b, tb, bi) for v, tb in t.arms}
        for v, tb in t.arms:
            if not isinstance(v, int) or v >= len(names) or len(ptag(names[v])) != 1:
                continue
            tag = next(iter(ptag(names[v])))
            region = reach[v] - set().union(*[r for u, r in reach.items() if u != v]) - \
                (reach_until(b, t.otherwise, bi) if t.otherwise is not None else set())
            bad = []
            n_t = 0
            for rb in sorted(region):
                rblk = b.blocks[rb]
                if rblk.cleanup:
                    continue
                tt = rblk.term
                if tt.kind == "call" and tt.callee.indirect is None:
                    ct = name_tags(tt.callee.target_p())
                    if ct:
                        n_t += 1
                        if ct != {tag}:
                            bad.append("%s at %s" % (tt.callee.target_p().rsplit("::", 2)[-2:], tt.span.loc()))
                for s in rblk.stmts:
                    if s.kind == "=" and s.rv.kind == "agg" and s.rv.agg[0] == "adt":
                        at = ptag(s.rv.agg[2]) if s.rv.agg[1].startswith("zcash_") else set()
                        if at:
                            n_t += 1
                            if at != {tag}:
                                bad.append("%s::%s at %s" % (s.rv.agg[1].rsplit("::", 1)[-1], s.rv.agg[2], s.span.loc()))
            if n_t == 0:
                continue            # nothing pool-specific happens in this arm
            counts["arm"] += 1
            key = "%s/arm/%s::%s" % (where, ty.rsplit("::", 1)[-1], names[v])
            if bad:
                chk.fail("ARM", key, "the arm for %s::%s touches another pool: %s" % (ty.rsplit("::", 1)[-1], names[v],
                                                                                   "; ".join(bad)), t.span.loc())
            else:
                chk.ok("ARM", "%s: the %s::%s arm touches %s only (%d pool-specific operations)"
                       % (where, ty.rsplit("::", 1)[-1], names[v], POOL[tag], n_t), sample=True)


def rule_usk(chk, w):
    K = "zcash_keys::keys::UnifiedSpendingKey::"
    tb = w.by_p.get(K + "to_bytes", [])
    fb = w.by_p.get(K + "from_bytes", [])
    if len(tb) != 1 or len(fb) != 1:
        chk.fail("USK", "missing", "UnifiedSpendingKey::to_bytes / from_bytes not found")
        return
    # writer: typecode, then the bytes of that typecode's key
    cx = Ctx(w, tb[0])
    b, du = cx.b, cx.du
    calls = sorted([(t.span.line, t.span.col, bb, t) for bb, t in b.calls() if not b.blocks[bb].cleanup and
                    t.callee.indirect is None], key=lambda x: x[:2])
    cur, wrote, lens = None, {}, {}
    for _l, _c, bb, t in calls:
        p = t.callee.target_p()
        if p.endswith("CompactSize::write") and len(t.args) == 2:
            tg = ptag(defuse.show(du.origin(t.args[1]))) if "Typecode" in defuse.show(du.origin(t.args[1])) else set()
            if len(tg) == 1:
                cur = next(iter(tg))
        elif p.endswith("::write_all") and len(t.args) == 2 and cur is not None:
            o = du.origin(t.args[1])
            wrote.setdefault(cur, []).append(cx.tags(o))
            # the key bytes' static length, when the type fixes it
            oo = defuse.strip_refs(o)
            loc = oo[3] if oo[0] == "call" and len(oo) > 3 else None
            r = du.root_local(t.args[1].place) if t.args[1].kind in ("copy", "move") else None
            for l in range(1, len(b.locals)):
                pass
            m = None
            for cand in [x for x in [r[1] if r else None] if x is not None]:
                m = re.search(r"\[u8; (\d+)\]", b.local_ty(cand) or "")
            if m is None:
                # look through `&bytes` / deref to the producing call
                stack, seen = [t.args[1]], 0
                while stack and seen < 12 and m is None:
                    seen += 1
                    op = stack.pop()
                    if op.kind not in ("copy", "move"):
                        continue
                    m = re.search(r"\[u8; (\d+)\]", b.local_ty(op.place.local) or "")
                    d_ = du.single(op.place.local)
                    if m is None and d_ and d_[0] == "stmt":
                        rv = d_[2].rv
                        if rv.kind in ("use", "cast") and rv.ops:
                            stack.append(rv.ops[0])
                        elif rv.kind == "ref":
                            stack.append(zf.Op("copy", zf.Place([rv.place.local])))
                    elif m is None and d_ and d_[0] == "call":
                        for a in d_[2].args:
                            stack.append(a)
            if m:
                lens[cur] = int(m.group(1))
            cur = None
    for tag in sorted(wrote):
        if wrote[tag] == [{tag}]:
            chk.ok("USK", "to_bytes: the %s typecode is followed by the bytes of the %s key%s"
                   % (POOL[tag], POOL[tag], " (%d bytes by type)" % lens[tag] if tag in lens else ""), sample=True)
        else:
            chk.fail("USK", "to_bytes/%s" % tag, "after the %s typecode to_bytes writes data tagged %s"
                     % (POOL[tag], wrote[tag]), tb[0].span.loc())
    if len(wrote) < 3:
        chk.fail("USK", "to_bytes/components", "to_bytes writes %d of the 3 key components" % len(wrote), tb[0].span.loc())
    # reader: per typecode arm the demanded length and the bytes read
    cx = Ctx(w, fb[0])
    b, du = cx.b, cx.du
    tca = [a for k_, a in w.adts.items() if k_.endswith("unified::Typecode")]
    names = [v["name"] for v in tca[0]["variants"]] if tca else []
    n_arm = 0
    for bi, blk in enumerate(b.blocks):
        t = blk.term
        if blk.cleanup or t.kind != "switch" or len(t.arms) < 3:
            continue
        o = du.origin(t.discr)
        if o[0] != "disc":
            continue
        reach = {v: reach_until(b, tb_, bi) for v, tb_ in t.arms}
        for v, tb_ in t.arms:
            if not isinstance(v, int) or v >= len(names) or len(ptag(names[v])) != 1:
                continue
            tag = next(iter(ptag(names[v])))
            region = reach[v] - set().union(*[r for u, r in reach.items() if u != v])
            consts, arrays = set(), set()
            for rb in region:
                rblk = b.blocks[rb]
                if rblk.cleanup:
                    continue
                for s in rblk.stmts:
                    if s.kind == "=" and s.rv.kind == "bin" and s.rv.op in ("Ne", "Eq"):
                        sh = defuse.show(du.origin_local(s.place.local))
                        m = re.match(r"^\(.*read_t.* (Ne|Eq) (\d+)\)$", sh)
                        if m:
                            consts.add(int(m.group(2)))
                tt = rblk.term
                if tt.kind == "call" and tt.callee.indirect is None and tt.callee.target_p().endswith("::read_exact") \
                        and len(tt.args) == 2:
                    # the buffer handed to read_exact must be the whole key array
                    oo = defuse.strip_refs(du.origin(tt.args[1]))
                    m = re.search(r"^\[u8; (\d+)\]$", b.local_ty(oo[1]) or "") if oo[0] == "local" else None
                    arrays.add(int(m.group(1)) if m else -1)
            n_arm += 1
            want = lens.get(tag)
            if len(consts) == 1 and arrays == consts and (want is None or consts == {want}):
                chk.ok("USK", "from_bytes: a %s key must announce %d bytes and exactly %d are read%s"
                       % (POOL[tag], next(iter(consts)), next(iter(consts)),
                          " — the length to_bytes writes" if want else ""), sample=True)
            else:
                chk.fail("USK", "from_bytes/%s" % tag, "for a %s key from_bytes demands length %s and reads %s bytes; "
                         "to_bytes writes %s" % (POOL[tag], sorted(consts), sorted(arrays), want), t.span.loc())
    if n_arm < 3:
        chk.fail("USK", "from_bytes/arms", "from_bytes has %d typecode arms for key components" % n_arm, fb[0].span.loc())


def rule_req(chk, w):
    """UnifiedIncomingViewingKey::address honours the request per pool: a receiver whose requirement is
    Omit stays absent; a Required receiver whose key is absent is an error (KeyNotAvailable)."""
    import assume as S
    import guards as G
    fs = w.by_p.get("zcash_keys::keys::UnifiedIncomingViewingKey::address", [])
    if len(fs) != 1:
        chk.fail("REQ", "missing", "UnifiedIncomingViewingKey::address not found")
        return
    f = fs[0]
    b, du = f.body, defuse.DefUse(f.body)
    fr = [(bb, t) for bb, t in b.calls() if not b.blocks[bb].cleanup and t.callee.indirect is None and
          t.callee.target_p().endswith("UnifiedAddress::from_receivers")]
    if len(fr) != 1:
        chk.fail("REQ", "from_receivers", "address does not end in one UnifiedAddress::from_receivers call", f.span.loc())
        return
    g = w.fns.get(fr[0][1].callee.target_id())
    pnames = list(g.argnames) if g is not None else []
    for fld, pname in (("orchard", "orchard"), ("sapling", "sapling"), ("p2pkh", "transparent")):
        key = "address/" + fld
        if pname not in pnames:
            chk.fail("REQ", key + "/param", "from_receivers has no parameter `%s`" % pname, f.span.loc())
            continue
        op = fr[0][1].args[pnames.index(pname)]
        recv = op.place.local if op.kind in ("copy", "move") and not op.place.proj else None
        for _ in range(8):          # through the temporaries down to the (multiply assigned) variable
            d_ = du.single(recv) if recv is not None else None
            if d_ and d_[0] == "stmt" and d_[2].rv.kind == "use" and d_[2].rv.ops[0].kind in ("copy", "move") and \
                    not d_[2].rv.ops[0].place.proj:
                recv = d_[2].rv.ops[0].place.local
            else:
                break
        defs = du.defs.get(recv, []) if recv is not None else []
        some_blocks = {bi for kind, bi, x in defs
                       if not (kind == "stmt" and x.rv.kind == "agg" and x.rv.agg[2] == "None")}
        tests = []
        for bb, t in b.calls():
            if b.blocks[bb].cleanup or t.callee.indirect is not None or len(t.args) != 2:
                continue
            m = re.search(r"PartialEq>?::(eq|ne)$", t.callee.target_p())
            if not m:
                continue
            a0, a1 = defuse.show(du.origin(t.args[0])), defuse.show(du.origin(t.args[1]))
            if not a0.endswith("." + fld) or "ReceiverRequirement::" not in a1:
                continue
            tests.append((bb, t, m.group(1), a1.rsplit("::", 1)[-1].strip("{}&")))
        omit = [(bb, t, op_) for bb, t, op_, var in tests if var == "Omit"]
        ok1 = False
        if len(omit) == 1 and some_blocks and len(defs) >= 2:
            bb, t, op_ = omit[0]
            res = S.after_call(b, bb, S.B(op_ == "eq"))          # the requirement IS Omit
            ok1 = res is not None and not res.too_big and not (some_blocks & res.blocks) and \
                fr[0][0] in res.blocks
        if ok1:
            chk.ok("REQ", "address: with `%s` Omit the %s receiver handed to from_receivers stays None" % (fld, pname),
                   sample=True)
        else:
            chk.fail("REQ", key + "/omit", "an omitted `%s` receiver can still be produced (tests on Omit: %d, "
                     "producing sites: %d)" % (fld, len(omit), len(some_blocks)), f.span.loc())
        # Require with the key absent
        ok2 = False
        for bb, t, op_, var in tests:
            if var != "Require":
                continue
            absent = False
            for sw, v, _tb in G.edge_conditions(b, bb):
                o = du.origin(b.blocks[sw].term.discr)
                vals = [a for a, _t in b.blocks[sw].term.arms]
                none_edge = v == 0 or (v == "else" and vals == [1])
                if o[0] == "disc" and none_edge and re.search(r"arg0\.%s\b" % pname, defuse.show(o[1])):
                    absent = True
            if not absent:
                continue
            res = S.after_call(b, bb, S.B(op_ == "eq"))
            errs = {x.rv.agg[2] for _b2, x in (res.aggs if res else []) if x.rv.agg[1].endswith("AddressGenerationError")}
            if res is not None and {rv for _b2, rv in res.returns} <= {"variant:Err"} and "KeyNotAvailable" in errs:
                ok2 = True
        if ok2:
            chk.ok("REQ", "address: a Required `%s` receiver without the %s key is Err(KeyNotAvailable)" % (fld, pname))
        else:
            chk.fail("REQ", key + "/require", "a Required `%s` receiver whose key is absent does not lead to "
                     "Err(KeyNotAvailable)" % fld, f.span.loc())


def _leaves(o, acc=None, depth=0):
    """argument / local / constant leaves of an origin tree"""
    acc = set() if acc is None else acc
    if not isinstance(o, tuple) or depth > 40:
        return acc
    k = o[0]
    if k == "arg":
        acc.add("arg%d" % o[1])
    elif k == "local":
        acc.add("_%d" % o[1])
    elif k in ("ref", "deref", "un", "disc"):
        _leaves(o[-1], acc, depth + 1)
    elif k in ("variant", "field", "proj"):
        _leaves(o[1], acc, depth + 1)
    elif k == "cast":
        _leaves(o[2], acc, depth + 1)
    elif k == "bin":
        _leaves(o[2], acc, depth + 1)
        _leaves(o[3], acc, depth + 1)
    elif k in ("call", "agg"):
        for a in o[2]:
            _leaves(a, acc, depth + 1)
    return acc


def rule_index(chk, w):
    """All receivers of one unified address are derived at the requested diversifier index: inside
    UnifiedIncomingViewingKey::address every pool address is produced by a derivation AT an index
    (`address_at`, `derive_address`) and that index comes from the `_j` parameter alone — never from
    a search (`find_address`) or another index."""
    fs = w.by_p.get("zcash_keys::keys::UnifiedIncomingViewingKey::address", [])
    if len(fs) != 1:
        chk.fail("INDEX", "missing", "UnifiedIncomingViewingKey::address not found")
        return
    f = fs[0]
    ji = (f.argnames or []).index("_j") if "_j" in (f.argnames or []) else 1
    n = 0
    for cx in contexts(w, f):
        b, du = cx.b, cx.du
        for bb, t in b.calls():
            if b.blocks[bb].cleanup or t.callee.indirect is not None:
                continue
            p = t.callee.target_p()
            last = p.rsplit("::", 1)[-1]
            if not re.search(r"address", last) or not name_tags(p) or last in ("from_receivers",):
                continue
            n += 1
            key = "address/%s#%d" % (last, n)
            if last not in ("address_at", "derive_address"):
                chk.fail("INDEX", key, "a receiver is produced by %s, not by a derivation at the requested index"
                         % "::".join(p.rsplit("::", 2)[-2:]), t.span.loc())
                continue
            idx = du.origin(t.args[1]) if len(t.args) > 1 else None
            lv = _leaves(idx) if idx is not None else {"?"}
            # inside the transparent closure the index is the closure's own parameter, bound to
            # to_transparent_child_index(_j) at the and_then that is handed the closure
            ok = False
            if cx.upvars is None:
                ok = lv == {"arg%d" % ji}
            else:
                par, _caps = cx.upvars
                ok = lv <= {"arg1"}
                if ok:
                    src = set()
                    for _bb2, t2 in par.b.calls():
                        if t2.callee.indirect is None and len(t2.args) >= 2:
                            for a in t2.args[1:]:
                                oo = par.du.origin(a)
                                if oo[0] == "agg" and oo[1] == "closure:" + cx.f.id:
                                    src |= _leaves(par.du.origin(t2.args[0]))
                    ok = src == {"arg%d" % ji}
            if ok:
                chk.ok("INDEX", "address: %s derives its receiver at the requested index `_j`"
                       % "::".join(p.rsplit("::", 2)[-2:]), sample=(n == 1))
            else:
                chk.fail("INDEX", key, "%s is given an index derived from %s, not from `_j` alone"
                         % ("::".join(p.rsplit("::", 2)[-2:]), sorted(lv)), t.span.loc())
    if n < 3:
        chk.fail("INDEX", "sites", "expected the three pools' derivations in address, found %d" % n, f.span.loc())


def rule_extscope(chk, w):
    """The incoming viewing key derived from a full viewing key is the EXTERNAL-scope one for every
    component (addresses handed out by the UIVK are the account's external addresses)."""
    fs = w.by_p.get("zcash_keys::keys::UnifiedFullViewingKey::to_unified_incoming_viewing_key", [])
    if len(fs) != 1:
        chk.fail("EXTSCOPE", "missing", "to_unified_incoming_viewing_key not found")
        return
    n = 0
    for cx in contexts(w, fs[0]):
        if cx.upvars is None:
            continue
        b, du = cx.b, cx.du
        for bb, t in b.calls():
            if b.blocks[bb].cleanup or t.callee.indirect is not None or not name_tags(t.callee.target_p()):
                continue
            p = t.callee.target_p()
            last = p.rsplit("::", 1)[-1]
            if not re.search(r"ivk", last, re.I):
                continue
            n += 1
            args = [defuse.show(du.origin(a)) for a in t.args]
            scopes = [m for a in args for m in re.findall(r"zip32::Scope::(\w+)\{\}", a)]
            if ("external" in last and not scopes) or scopes == ["External"]:
                chk.ok("EXTSCOPE", "%s component: %s%s" % (POOL[next(iter(name_tags(p)))], last,
                                                        "(Scope::External)" if scopes else ""), sample=(n == 1))
            else:
                chk.fail("EXTSCOPE", "%s" % POOL[next(iter(name_tags(p)))], "the %s component of the UIVK is derived with "
                         "%s(%s): not the external scope" % (POOL[next(iter(name_tags(p)))], last, ", ".join(args[1:])[:80]),
                         t.span.loc())
    if n < 3:
        chk.fail("EXTSCOPE", "sites", "expected three component derivations, found %d" % n, fs[0].span.loc())


def rule_cover(chk, w):
    """An encoder that drops a component cannot round-trip: the item-list builders read every field of
    their key record (the known components and the preserved unknown items)."""
    for n_, adt in (("UnifiedFullViewingKey::to_ufvk", "UnifiedFullViewingKey"),
                    ("UnifiedIncomingViewingKey::render", "UnifiedIncomingViewingKey")):
        fs = w.by_p.get("zcash_keys::keys::" + n_, [])
        a = w.adts.get("zcash_keys::keys::" + adt)
        if len(fs) != 1 or not a:
            chk.fail("COVER", n_ + "/missing", "%s not found" % n_)
            continue
        fields = [x["name"] for x in a["variants"][0]["fields"]]
        b = fs[0].body
        reads = set()
        for blk in b.blocks:
            if blk.cleanup:
                continue
            for s in blk.stmts:
                if s.kind != "=":
                    continue
                pls = [o.place for o in (s.rv.ops or []) if o.kind in ("copy", "move")]
                if s.rv.kind in ("ref", "disc"):
                    pls.append(s.rv.place)
                for pl in pls:
                    if pl.local == 1:
                        reads |= {p[1:] for p in pl.proj if p.startswith(".")}
        missing = [x for x in fields if x not in reads]
        if not missing:
            chk.ok("COVER", "%s reads every field of %s (%s)" % (n_, adt, ", ".join(fields)), sample=True)
        else:
            chk.fail("COVER", n_, "%s never reads %s: the encoding loses it" % (n_, missing), fs[0].span.loc())


def rule_tscope(chk, w2):
    """TSCOPE: BIP 44 transparent derivation has three key scopes below the account, child 0 (external),
    1 (internal / change) and 2 (ephemeral). A function of zcash_transparent::keys that names a scope
    (derive_internal_secret_key, derive_external_ivk, ...) must use that scope and no other: every scope
    value in its body - a zip32::Scope variant, a TransparentKeyScope constant, the literal child number of
    ChildNumber::new(k, false), the *Ivk wrapper type it returns - carries the scope of its name. The
    table behind the names is checked too: EXTERNAL = 0, INTERNAL = 1, EPHEMERAL = 2 and
    From<zip32::Scope> maps External / Internal onto the first two."""
    TAG = {"external": 0, "internal": 1, "ephemeral": 2}
    n = 0
    for f in sorted(w2.fns.values(), key=lambda f: f.p):
        if f.crate.name != "zcash_transparent" or f.is_closure() or f.body is None or "::tests::" in f.p or \
                "::testing" in f.p or not f.p.startswith("zcash_transparent::keys::"):
            continue
        last = f.p.rsplit("::", 1)[-1]
        m = re.search(r"(external|internal|ephemeral)", last)
        if not m:
            continue
        want = TAG[m.group(1)]
        seen = []
        b = f.body
        for bb, blk in enumerate(b.blocks):
            if blk.cleanup:
                continue
            ops = []
            for st in blk.stmts:
                if st.kind != "=":
                    continue
                if st.rv.kind == "agg" and st.rv.agg[0] == "adt" and st.rv.agg[1] == "zip32::Scope":
                    seen.append(("zip32::Scope::" + st.rv.agg[2], {"External": 0, "Internal": 1}.get(st.rv.agg[2])))
                ops += list(st.rv.ops or [])
            t = blk.term
            if t.kind == "call":
                ops += list(t.args)
                if t.callee.indirect is None and t.callee.target_p().endswith("bip32::ChildNumber::new") and len(t.args) == 2 \
                        and all(a.kind == "const" for a in t.args) and t.args[1].info.get("v") == 0 and \
                        isinstance(t.args[0].info.get("v"), int) and t.args[0].info["v"] <= 2:
                    seen.append(("ChildNumber::new(%d, false)" % t.args[0].info["v"], t.args[0].info["v"]))
            for o in ops:
                if o.kind != "const":
                    continue
                ty = o.info.get("ty") or ""
                dfn = o.info.get("def") or ""
                if (ty.endswith("TransparentKeyScope") or re.search(r"TransparentKeyScope::(EXTERNAL|INTERNAL|EPHEMERAL)$", dfn)) \
                        and isinstance(o.info.get("v"), int):
                    seen.append(("TransparentKeyScope(%d)" % o.info["v"], o.info["v"]))
                fnp = o.info.get("p") or ""
                mm = re.search(r"keys::(External|Internal|Ephemeral)Ivk$", fnp) if "fn" in o.info else None
                if mm:
                    seen.append((mm.group(1) + "Ivk", TAG[mm.group(1).lower()]))
        if not seen:
            continue
        n += 1
        bad = [nm for nm, v in seen if v != want]
        if not bad:
            chk.ok("TSCOPE", "%s uses the %s scope only (%s)" % (last, m.group(1), ", ".join(sorted({nm for nm, _v in seen}))),
                   sample=(n == 1))
        else:
            chk.fail("TSCOPE", last, "%s names the %s scope but derives with %s" % (last, m.group(1), bad), f.span.loc())
    # the table
    tks = "zcash_transparent::keys::TransparentKeyScope::"
    vals = {k: (w2.consts.get(tks + k) or {}).get("v") for k in ("EXTERNAL", "INTERNAL", "EPHEMERAL")}
    frm = [f for f in w2.fns.values() if re.search(r"TransparentKeyScope as core::convert::From<zip32::Scope>>::from$", f.p)]
    if frm:
        n += 1
        b = frm[0].body
        pairs = set()
        for bi, blk in enumerate(b.blocks):
            t = blk.term
            if t.kind == "switch" and not blk.cleanup:
                for v, tb in list(t.arms) + [("else", t.otherwise)]:
                    if tb is None:
                        continue
                    for st in b.blocks[tb].stmts:
                        if st.kind == "=" and st.place.local == 0 and st.rv.kind == "use" and st.rv.ops[0].kind == "const":
                            pairs.add((v, st.rv.ops[0].info.get("v")))
        good = pairs in ({(0, 0), (1, 1)}, {(0, 0), ("else", 1)}, {("else", 0), (1, 1)})
        if good:
            chk.ok("TSCOPE", "From<zip32::Scope>: External -> child 0, Internal -> child 1")
        else:
            chk.fail("TSCOPE", "from-scope", "From<zip32::Scope> for TransparentKeyScope maps (variant, child) as %s"
                     % sorted(pairs, key=str), frm[0].span.loc())
    if n < 6:
        chk.fail("TSCOPE", "sites", "expected at least the five scope-named derivation functions and the scope conversion, "
                 "found %d" % n)


def rule_narrow(chk, w):
    """NARROW: a unified address takes its transparent receiver at the child index given by the diversifier
    index, which has 88 bits while a BIP 32 non-hardened child index has 31. The conversion must refuse
    an index whose discarded high bytes are not all zero - otherwise indices j and j + k * 2^32 share a
    transparent receiver and the key no longer recovers the index of its address. Accepted forms: a test
    over the high part of the split byte string whose `true` outcome yields None, or the checked
    `u32::try_from(DiversifierIndex)` conversion."""
    import assume as S
    fs = [f for f in w.fns.values() if f.p == "zcash_keys::keys::to_transparent_child_index"]
    if len(fs) != 1:
        chk.fail("NARROW", "missing", "to_transparent_child_index not found")
        return
    f = fs[0]
    b = f.body
    du = defuse.DefUse(b)
    good = None
    for bb, t in b.calls():
        if b.blocks[bb].cleanup or t.callee.indirect is not None or t.dest is None:
            continue
        name = t.callee.target_p()
        if re.search(r"TryFrom<zip32::DiversifierIndex>>::try_from$|TryInto<u32>>::try_into$", name):
            good = "the checked u32::try_from(DiversifierIndex)"
        if re.search(r"Iterator>?::(any|all)(::<.*>)?$", name):
            src = defuse.show(du.origin(t.args[0]))
            if re.search(r"split_at\(.*\)\)?\.1", src) or re.search(r"\[4\.\.|RangeFrom\{4\}", src):
                want = name.split("::<")[0].endswith("any")
                res = S.after_call(b, bb, S.B(want))
                rets = {rv for _b, rv in res.returns} if res is not None else {"?"}
                if rets and rets <= {"variant:None"}:
                    good = "a test over the bytes above the low four whose failure yields None"
    if good:
        chk.ok("NARROW", "to_transparent_child_index narrows the diversifier index through %s" % good, sample=True)
    else:
        chk.fail("NARROW", "to_transparent_child_index", "the diversifier index is narrowed to a 32-bit child index without "
                 "refusing non-zero high bytes: indices that differ by a multiple of 2^32 map to the same transparent "
                 "receiver", f.span.loc())


def rule_wif(chk, w):
    """WIF: the legacy transparent secret-key string is prefix || 32 key bytes || 0x01-iff-compressed
    (zcashd's key_io). The decoder derives the compressed flag from "one byte longer and the last byte is
    1", so the encoder must append that same constant exactly when `self.compressed` holds - an
    unconditional flag byte, or another constant, makes uncompressed (or compressed) keys undecodable.
    Writer forms accepted: `.chain(self.compressed.then_some(&K))`, or a push / extend of K under the true
    edge of `self.compressed`. Reader: the comparison of `last()` with `Some(&K')`. Required: K == K'."""
    import closures
    import guards
    enc = [f for f in w.fns.values() if f.p.endswith("keys::transparent::Key::encode_base58")]
    dec = [f for f in w.fns.values() if f.p.endswith("keys::transparent::Key::decode_base58")]
    if len(enc) != 1 or len(dec) != 1:
        chk.fail("WIF", "missing", "Key::encode_base58 / decode_base58 not found")
        return
    eb, db = enc[0].body, dec[0].body
    edu, ddu = closures.deep()(eb), closures.deep()(db)
    comp = ("field", ("arg", 0), ".compressed")
    wk = []          # constants the writer appends under `compressed`
    uncond = []

    def scan(o):
        if not isinstance(o, tuple):
            return
        if o[0] == "call" and o[1].endswith("::then_some") and len(o[2]) == 2:
            if closures.norm(o[2][0]) == comp and closures.norm(o[2][1])[0] == "const":
                wk.append(closures.norm(o[2][1])[1])
        for x in o[1:]:
            if isinstance(x, tuple):
                scan(x)
            elif isinstance(x, list):
                for y in x:
                    scan(y)
    for bb, t in eb.calls():
        if eb.blocks[bb].cleanup or t.callee.indirect is not None:
            continue
        nm = t.callee.target_p()
        if re.search(r"::collect(::<.*>)?$", nm):
            scan(closures.norm(edu.origin(t.args[0])))
        if re.search(r"Vec::<T, A>::(push|extend_from_slice|extend)$", nm) and len(t.args) == 2:
            v = closures.norm(edu.origin(t.args[1]))
            cval = v[1] if v[0] == "const" else (v[2][0][1] if v[0] == "agg" and v[2] and v[2][0][0] == "const" else None)
            if cval is None:
                continue
            under = any(closures.norm(o_) == comp and tr_ is True for o_, tr_ in guards.facts(eb, edu, bb))
            (wk if under else uncond).append(cval)
    rk = []
    for bb, t in db.calls():
        if db.blocks[bb].cleanup or t.callee.indirect is not None or not re.search(r"PartialEq>?::(eq|ne)$", t.callee.target_p()):
            continue
        a = [closures.norm(ddu.origin(x)) for x in t.args]
        for x, y in ((a[0], a[1]), (a[1], a[0])) if len(a) == 2 else ():
            if x[0] == "call" and x[1].endswith("::last") and y[0] == "agg" and y[1].endswith("Some") and y[2] and \
                    closures.norm(y[2][0])[0] == "const":
                rk.append(closures.norm(y[2][0])[1])
    if len(wk) == 1 and len(rk) == 1 and wk == rk and not [c for c in uncond if isinstance(c, int) and c in (0, 1)]:
        chk.ok("WIF", "encode_base58 appends %r exactly when `compressed`; decode_base58 recognises a compressed key by a "
               "last byte of %r" % (wk[0], rk[0]), sample=True)
    else:
        chk.fail("WIF", "compressed-flag", "the encoder appends %s under `compressed`%s, the decoder expects a last byte in %s: "
                 "the two do not describe the same string format" %
                 (wk or "nothing", (" and %s unconditionally" % uncond) if uncond else "", rk or "nothing"), enc[0].span.loc())


def main(tier):
    chk = Check("C11", "other", tier)
    chk.explanation = (
        "Decides the component-slot coherence of the unified key types on MIR def-use origins with pool "
        "tags (field, variant, callee-path, parameter and variable names): whatever reaches a pool's "
        "slot — a field of a Unified* key, a pool-named constructor parameter, the argument of a "
        "pool-specific function or item constructor, a pool-named variable — derives from that pool's "
        "data only; inside a match arm on a typecode / item kind only that pool is touched; the "
        "spending-key byte codec writes each typecode before that key's bytes and the reader demands "
        "the writer's lengths. Necessary for 'derivation commutes with address derivation', 'decodes "
        "to a key that re-encodes to the same bytes' and 'exactly the receivers the keys support'. "
        "Not decided: anything cryptographic.")
    chk.trusted = ["rustc MIR and debug names", "pool tags by naming convention (orchard / sapling / transparent, "
                   "P2pkh, AccountPubKey...)", "external key crates"]
    chk.rule("SLOT", "a pool's slot receives that pool's data only", floor=80)
    chk.rule("ARM", "a typecode / item-kind arm touches its own pool only", floor=8)
    chk.rule("USK", "spending-key byte codec: typecode/key adjacency and lengths", floor=6)
    chk.rule("REQ", "address derivation honours Omit and Require per pool", floor=6)
    chk.rule("INDEX", "every receiver of a unified address is derived at the requested index", floor=3)
    chk.rule("EXTSCOPE", "the UIVK derived from a UFVK is the external-scope key, per component", floor=3)
    chk.rule("COVER", "the item-list encoders read every field of their key", floor=2)
    chk.rule("NARROW", "the diversifier index is narrowed to a child index with its high bytes checked", floor=1)
    chk.rule("WIF", "legacy secret-key string: the compressed marker agrees between encoder and decoder", floor=1)
    chk.rule("TSCOPE", "scope-named transparent derivation functions use the scope they name", floor=6)
    w = zf.World(extract.facts_dir("all"), ["zcash_keys", "zcash_address"])
    counts = {"slot": 0, "arm": 0}
    roots = [f for f in w.fns.values() if f.crate.name == "zcash_keys" and not f.is_closure() and
             SCOPE.search(f.p) and "::tests::" not in f.p and "::testing" not in f.p and f.kind in ("Fn", "AssocFn")]
    chk.analysed["functions"] = len(roots)
    for f in sorted(roots, key=lambda f: f.p):
        for cx in contexts(w, f):
            check_slot(chk, w, cx, counts)
            check_arms(chk, w, cx, counts)
    rule_usk(chk, w)
    rule_req(chk, w)
    rule_index(chk, w)
    rule_extscope(chk, w)
    rule_cover(chk, w)
    rule_narrow(chk, w)
    rule_wif(chk, w)
    rule_tscope(chk, zf.World(extract.facts_dir("all"), ["zcash_transparent"]))
    chk.finish()
