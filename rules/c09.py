"""C09 — monetary amounts never leave the valid range or wrap.

Decides the property for the whole anchor module (components/zcash_protocol/src/value.rs) by
abstract interpretation of its MIR (lib/absint.py) under the inductive type invariants
  Zatoshis.0 in [0, MAX_MONEY],  ZatBalance.0 in [-MAX_MONEY, MAX_MONEY].
Obligations:
  O1 closed construction (private field; every construction of either type anywhere in the
     workspace lies in the module; no field store; no transmute into the types)
  O2 every construction site is in range in every calling context
  O3/O5 exactness: every constructor / parser / operator returns exactly the value its
     interface means (polynomial normal form over its inputs), succeeds only inside the
     accepted range and fails only outside it (per failure site, no join), with the error kind
     on the right side
  O4 no reachable panic, no wrapping arithmetic, no truncating cast
  O6 byte encodings: writer and reader use the same width / signedness-compatible integer and
     endianness, and the reader goes through a range-checked constructor
"""
import re
import sys

import absint as A
import extract
import zf
from common import Check

MOD_FILE = "components/zcash_protocol/src/value.rs"
ZAT = "zcash_protocol::value::Zatoshis"
BAL = "zcash_protocol::value::ZatBalance"
SPEC_MAX_MONEY = 21_000_000 * 100_000_000   # protocol constant (the property's "valid range")

# constructors that by their documentation accept a narrower range than their type's
NARROW = {
    "zcash_protocol::value::ZatBalance::from_nonnegative_i64":
        "documented: error outside {0..MAX_BALANCE}",
    "zcash_protocol::value::ZatBalance::from_nonnegative_i64_le_bytes":
        "documented: error outside {0..MAX_BALANCE}",
}


def money_of(ty):
    """(money adt, wrapper) for an output/input type string"""
    t = ty.strip()
    t = re.sub(r"^&('\w+ )?", "", t)
    if t in (ZAT, BAL):
        return t, None
    base, args = A.split_generics(t)
    if base in ("core::option::Option", "core::result::Result") and args:
        if args[0] in (ZAT, BAL):
            return args[0], base
    return None, None


def main(tier):
    chk = Check("C09", "proof", tier)
    chk.explanation = (
        "Abstract interpretation (interval sets + polynomial normal forms + per-variant fact "
        "stores) of every function body in zcash_protocol::value, under inductive type "
        "invariants. Decided: the whole property for the anchor module (range, exactness, "
        "failure exactly outside the range, no panic/wrap/saturation, encoding pairs). "
        "Nothing is executed; the analysis joins at merge points and inlines in-module callees.")
    chk.trusted = ["rustc MIR (nightly, mir-opt-level=0, overflow checks on)",
                   "models of core functions in lib/absint.py (checked_*, try_from, "
                   "RangeInclusive::contains, Option/Result combinators, Try::branch)",
                   "callees outside the module return an arbitrary value of their type and may "
                   "mutate what they borrow mutably; they are assumed not to panic"]
    chk.rule("O1-closed", "money types can only be constructed inside the module", floor=15)
    chk.rule("O2-in-range", "every construction site yields an in-range value", floor=14)
    chk.rule("O3O5-exact", "constructors/parsers/operators are exact and fail exactly outside "
                           "the range", floor=52)
    chk.rule("O4-no-panic-no-wrap", "no reachable panic, wrapping op or truncating cast",
             floor=135)
    chk.rule("O6-encoding", "byte encodings pair up (type, width, endianness, checked reader)",
             floor=7)
    chk.rule("control", "positive controls: the analysis must flag known-bad miniatures", floor=4)

    w = zf.World(extract.facts_dir("all"))
    consts = w.consts
    mm = consts.get("zcash_protocol::value::MAX_MONEY", {}).get("v")
    mb = consts.get("zcash_protocol::value::MAX_BALANCE", {}).get("v")
    if mm is None or mb is None:
        chk.infra("MAX_MONEY / MAX_BALANCE constants not found in facts")
    if mm != SPEC_MAX_MONEY or mb != SPEC_MAX_MONEY:
        chk.fail("O2-in-range", "const/MAX_MONEY", "MAX_MONEY=%s MAX_BALANCE=%s differ from the "
                 "protocol's 2.1e15" % (mm, mb))
    else:
        chk.ok("O2-in-range", "MAX_MONEY == MAX_BALANCE == 21e6*1e8")
    RANGE = {ZAT: A.IntSet.of(0, SPEC_MAX_MONEY),
             BAL: A.IntSet.of(-SPEC_MAX_MONEY, SPEC_MAX_MONEY)}
    inv = {ZAT: {"0": RANGE[ZAT]}, BAL: {"0": RANGE[BAL]}}

    # ------------------------------------------------------------------ O1
    for adt in (ZAT, BAL):
        info = w.adts.get(adt)
        if not info:
            chk.infra("ADT %s not found" % adt)
        flds = info["variants"][0]["fields"]
        if len(flds) == 1 and flds[0]["vis"] not in ("pub", "crate"):
            chk.ok("O1-closed", "%s: single field, visibility %s" % (adt, flds[0]["vis"]))
        else:
            chk.fail("O1-closed", "field-vis/" + adt, "field of %s is visible outside its module "
                     "(%s): any code could build an out-of-range value" % (adt, flds))
    nbodies = 0
    for f in w.fns.values():
        nbodies += 1
        inmod = f.span.file.endswith(MOD_FILE)
        for bi, b in enumerate(f.body.blocks):
            for s in b.stmts:
                if s.kind != "=":
                    continue
                rv = s.rv
                if rv.kind == "agg" and rv.agg[0] == "adt" and rv.agg[1] in (ZAT, BAL):
                    if inmod:
                        chk.ok("O1-closed", "construction of %s in %s" % (rv.agg[1], f.p))
                    else:
                        chk.fail("O1-closed", "outside/%s" % f.p,
                                 "%s constructed outside module value" % rv.agg[1], s.span.loc())
                if rv.kind == "cast" and "Transmute" in (rv.op or "") and \
                        (ZAT in rv.ty or BAL in rv.ty):
                    chk.fail("O1-closed", "transmute/%s" % f.p,
                             "transmute into %s bypasses the checked constructors" % rv.ty,
                             s.span.loc())
                # store into the field of an existing money value
                if s.place.proj and s.place.proj[-1] == ".0":
                    # type of the owner: approximate by scanning the local's type
                    lt = f.body.local_ty(s.place.local)
                    if (ZAT in lt or BAL in lt) and len(s.place.proj) <= 2:
                        chk.fail("O1-closed", "fieldstore/%s" % f.p,
                                 "direct store into the amount field", s.span.loc())
                for o in rv.ops:
                    if o.kind == "const" and o.info.get("ctor") and o.info.get("adt") in (ZAT, BAL):
                        if inmod:
                            chk.ok("O1-closed", "ctor-as-fn of %s in %s" % (o.info["adt"], f.p))
                        else:
                            chk.fail("O1-closed", "outside-ctor/%s" % f.p,
                                     "constructor fn of %s used outside module" % o.info["adt"],
                                     s.span.loc())
            t = b.term
            if t.kind == "call":
                for o in t.args:
                    if o.kind == "const" and o.info.get("ctor") and o.info.get("adt") in (ZAT, BAL):
                        if inmod:
                            chk.ok("O1-closed", "ctor-as-fn of %s in %s" % (o.info["adt"], f.p))
                        else:
                            chk.fail("O1-closed", "outside-ctor/%s" % f.p,
                                     "constructor fn of %s used outside module" % o.info["adt"],
                                     t.span.loc())
                if t.callee.p and "transmute" in t.callee.p and \
                        (ZAT in (t.callee.full or "") or BAL in (t.callee.full or "")):
                    chk.fail("O1-closed", "transmute/%s" % f.p, "transmute involving a money type",
                             t.span.loc())
    chk.analysed["bodies_scanned_for_constructions"] = nbodies

    # ------------------------------------------------------------------ module functions
    modfns = [f for f in w.fns.values()
              if f.span.file.endswith(MOD_FILE) and "::testing::" not in f.p
              and not f.p.startswith("zcash_protocol::value::testing")]
    modfns.sort(key=lambda f: (f.span.line, f.id))
    scope_ids = {f.id for f in modfns}
    chk.analysed["module_functions"] = len(modfns)

    def scope(f):
        return f.id in scope_ids

    def skip_top(f):
        # formatting impls and derives carry no money arithmetic
        return (f.trait in ("core::fmt::Display", "core::fmt::Debug") or
                (f.derived and not any(m in ("Default",) for m in f.span.macros)))

    results = {}
    all_sites = []
    visited = set()
    for f in modfns:
        if skip_top(f) or f.is_closure():
            continue
        it = A.Interp(w, scope, inv)
        try:
            r = it.analyse(f)
        except RecursionError:
            chk.fail("O4-no-panic-no-wrap", "undecided/" + f.p, "analysis recursion limit")
            continue
        results[f.id] = (f, r, it)
        for u in it.undecided:
            chk.fail("O4-no-panic-no-wrap", "undecided/%s" % f.p, "analysis undecided: " + u)
        all_sites.extend(it.sites)
        visited |= it.visited
    chk.analysed["functions_interpreted"] = len(results)
    # closures are analysed in the context of the combinator call that runs them; one that
    # was never reached that way would be unanalysed code
    for f in modfns:
        if f.is_closure() and not skip_top(f):
            if f.id in visited:
                chk.ok("O4-no-panic-no-wrap", "closure %s analysed in its caller's context" % f.p)
            else:
                chk.fail("O4-no-panic-no-wrap", "unanalysed-closure/" + f.p,
                         "closure is passed to a combinator the analysis has no model for; its "
                         "body was not analysed", f.span.loc())

    # ------------------------------------------------------------------ O2 / O4 over sites
    by_site = {}
    for s in all_sites:
        by_site.setdefault((s.kind, s.fn.p, s.span.line, s.span.col), []).append(s)
    ordinal = {}
    for (kind, fp, line, col), ss in sorted(by_site.items()):
        n = ordinal.setdefault((kind, fp), 0)
        ordinal[(kind, fp)] += 1
        key = "%s#%d" % (fp, n)
        loc = "%s:%d" % (ss[0].span.file, line)
        if kind == "construct":
            bad = []
            for s in ss:
                rng = RANGE[s.adt]
                v = s.val.fields.get("0")
                if not isinstance(v, A.AInt):
                    bad.append("amount operand is not an analysable integer (%r)" % (v,))
                    continue
                it = results[s.top.id][2] if s.top.id in results else None
                cur = v.set
                if v.lin is not None:
                    fct = s.state.facts.get(A.p_key(v.lin))
                    if fct is not None:
                        cur = cur.meet(fct)
                if not cur.subset(rng):
                    bad.append("operand may be %r, outside %r (analysing %s)"
                               % (cur, rng, s.top.p))
            if bad:
                chk.fail("O2-in-range", key, "construction of %s not proven in range: %s"
                         % (ss[0].adt.split("::")[-1], "; ".join(sorted(set(bad))[:3])), loc)
            else:
                chk.ok("O2-in-range", "%s constructs %s in range in %d context(s) [%s]"
                       % (fp, ss[0].adt.split("::")[-1], len(ss), loc))
        elif kind == "maywrap":
            s = ss[0]
            chk.fail("O4-no-panic-no-wrap", "wrap/" + key,
                     "%s may not fit %s: exact result %r — the machine value would silently "
                     "differ from the exact one" % (s.what, s.ty, s.exact), loc)
        elif kind == "panic":
            # accepted only as the rejection path of a const constructor, exactly on the
            # invalid inputs (checked below in O3); anything else is a reachable panic
            ok_all = True
            for s in ss:
                if not (s.fn.constfn and s.top.id == s.fn.id and
                        s.what.startswith("call:core::panicking::panic")):
                    ok_all = False
            if not ok_all:
                tops = sorted({s.top.p for s in ss})
                chk.fail("O4-no-panic-no-wrap", "panic/" + key,
                         "reachable panic (%s) when analysing %s" % (ss[0].what, ", ".join(tops)),
                         loc)
    # every arithmetic / cast / call examined without complaint is a discharged obligation
    narith = 0
    for f, r, it in results.values():
        for b in f.body.blocks:
            for s in b.stmts:
                if s.kind == "=" and s.rv.kind in ("bin", "un", "cast"):
                    narith += 1
            if b.term.kind in ("call", "assert"):
                narith += 1
    nbad = len([v for v in chk.violations if v["rule"] == "O4-no-panic-no-wrap"])
    for _ in range(max(narith - nbad, 0)):
        chk.obligations += 1
        chk.discharged += 1
    chk.rules["O4-no-panic-no-wrap"]["instances"] += narith - nbad if narith > nbad else 0
    chk.rules["O4-no-panic-no-wrap"]["discharged"] += narith - nbad if narith > nbad else 0
    chk.samples.append({"rule": "O4-no-panic-no-wrap",
                        "obligation": "%d arithmetic ops, casts, asserts and calls interpreted; "
                                      "none can wrap/truncate/panic" % narith,
                        "result": "discharged"})

    # ------------------------------------------------------------------ O3 / O5 exactness
    def scalar(f, i):
        """polynomial for the integer meaning of argument i"""
        ty = f.body.local_ty(i + 1)
        if ty in A.INT_RANGE:
            return A.p_sym(("arg", i)), A.IntSet.ty(ty)
        m, wrap = money_of(ty)
        if m and wrap is None:
            if ty.strip().startswith("&"):
                return A.p_sym(("arg", i, "*", "0")), RANGE[m]
            return A.p_sym(("arg", i, "0")), RANGE[m]
        if ty.startswith("core::num::NonZero<"):
            return None, None
        return None, None

    def check_exact(f, r, it, expected, accepted, what, allow_multiplier=False):
        """r: abstract result; expected: polynomial; accepted: IntSet of exact results for
        which success is required/allowed"""
        ek = A.p_key(expected)
        problems = []
        okn = 0

        def amount_of(v):
            if isinstance(v, A.AStruct) and "0" in v.fields and v.ty in (ZAT, BAL):
                return v.fields["0"]
            if isinstance(v, A.AInt):
                return v
            return None

        def is_expected(v):
            a = amount_of(v)
            return isinstance(a, A.AInt) and a.lin is not None and A.p_key(a.lin) == ek

        if isinstance(r, A.AEnum):
            base, _ = A.split_generics(r.ty)
            for vn, (pl, gs) in r.variants.items():
                if vn in ("Some", "Ok"):
                    if not is_expected(pl.get("0")):
                        problems.append("success value is %r, not exactly %s"
                                        % (pl.get("0"), A.p_str(expected)))
                    for g in gs:
                        cexp = A.p_const_of(expected)
                        gset = g.get(ek) if cexp is None else A.IntSet.of(cexp, cexp)
                        if gset is None:
                            a = amount_of(pl.get("0"))
                            gset = a.set if a is not None else None
                        if gset is None or not gset.subset(accepted):
                            problems.append("may succeed when the exact result %s is %r, outside "
                                            "the accepted range %r" % (A.p_str(expected), gset, accepted))
                else:
                    for g in gs:
                        gset = g.get(ek)
                        if gset is not None and gset.meet(accepted).empty():
                            continue
                        if allow_multiplier:
                            # a disjunct that pins a plain argument outside a conversion range
                            hit = False
                            for k, s in g.items():
                                if len(k) == 1 and len(k[0][0]) == 1 and k[0][0][0][0] == "arg" \
                                        and len(k[0][0][0]) == 2 and k != ek:
                                    if s.lo() > 2**62 or s.hi() < 0:
                                        hit = True
                            if hit:
                                chk.exception("O3O5-exact", f.p,
                                              "fails when the multiplier itself is not representable "
                                              "in the operand type (documented idiom), even if the "
                                              "exact product would be in range")
                                continue
                        problems.append("may fail while the exact result %s is %s (inside the "
                                        "accepted range %r)" % (A.p_str(expected),
                                                                gset if gset is not None else "unconstrained",
                                                                accepted))
                    # error kind on the right side
                    ev = pl.get("0")
                    if isinstance(ev, A.AEnum) and ev.ty.endswith("BalanceError"):
                        for kind, (_pl, egs) in ev.variants.items():
                            for g in egs:
                                gset = g.get(ek)
                                if gset is None:
                                    problems.append("error %s not tied to the amount" % kind)
                                elif kind == "Overflow" and not gset.lo() > accepted.hi():
                                    problems.append("Overflow reported for %r (not above range)" % gset)
                                elif kind == "Underflow" and not gset.hi() < accepted.lo():
                                    problems.append("Underflow reported for %r (not below range)" % gset)
        else:
            if not is_expected(r):
                problems.append("result is %r, not exactly %s" % (r, A.p_str(expected)))
        if problems:
            chk.fail("O3O5-exact", f.p, "%s: %s" % (what, "; ".join(sorted(set(problems))[:3])),
                     f.span.loc())
        else:
            chk.ok("O3O5-exact", "%s = %s, success iff in %r [%s]"
                   % (f.p, A.p_str(expected), accepted, what), sample=True)

    byte_readers = {}
    byte_writers = {}
    for fid, (f, r, it) in sorted(results.items(), key=lambda kv: kv[1][0].span.line):
        if f.is_closure() or f.kind not in ("Fn", "AssocFn"):
            continue
        out_m, out_wrap = money_of(f.output or "")
        nargs = f.body.argc
        name = f.p.rsplit("::", 1)[-1]
        tr = f.trait
        # ---- operators
        if tr in ("core::ops::Add", "core::ops::Sub", "core::ops::Mul", "core::ops::Div",
                  "core::ops::Neg"):
            self_m, self_wrap = money_of(f.inputs[0])
            if self_wrap is not None:
                # Option<T> op X: analyse with self = Some(..) and self = None separately
                it2 = A.Interp(w, scope, inv)
                some = A.AEnum(f.inputs[0], {"Some": ({"0": it2.top(self_m, ("arg", 0))}, ({},))})
                args = [some] + [it2.top(f.body.local_ty(i), ("arg", i - 1))
                                 for i in range(2, nargs + 1)]
                r_some = it2.analyse(f, args)
                it3 = A.Interp(w, scope, inv)
                none = A.AEnum(f.inputs[0], {"None": ({}, ({},))})
                args = [none] + [it3.top(f.body.local_ty(i), ("arg", i - 1))
                                 for i in range(2, nargs + 1)]
                r_none = it3.analyse(f, args)
                if isinstance(r_none, A.AEnum) and set(r_none.variants) == {"None"}:
                    chk.ok("O3O5-exact", "%s: None propagates" % f.p)
                else:
                    chk.fail("O3O5-exact", f.p + "/none", "None operand does not yield None: %r"
                             % (r_none,), f.span.loc())
                a0, _ = A.p_sym(("arg", 0, "0")), None
                r_use = r_some
            else:
                a0, _ = scalar(f, 0)
                r_use = r
            a1 = None
            if nargs >= 2:
                a1, a1rng = scalar(f, 1)
                if a1 is None and f.body.local_ty(2).startswith("core::num::NonZero<"):
                    a1 = "nonzero"
            if a0 is None or (nargs >= 2 and a1 is None):
                chk.fail("O3O5-exact", f.p, "operator operands not understood", f.span.loc())
                continue
            if tr == "core::ops::Add":
                exp = A.p_add(a0, a1)
            elif tr == "core::ops::Sub":
                exp = A.p_add(a0, a1, -1)
            elif tr == "core::ops::Mul":
                exp = A.p_mul(a0, a1)
            elif tr == "core::ops::Neg":
                exp = A.p_add({}, a0, -1)
            elif tr == "core::ops::Div":
                # a div nonzero(b): the atom produced by the Div model
                v = r_use.fields.get("0") if isinstance(r_use, A.AStruct) else None
                ok_div = (isinstance(v, A.AInt) and v.lin is not None and len(v.lin) == 1 and
                          list(v.lin.values()) == [1] and list(v.lin)[0][0][0] == "div" and
                          list(v.lin)[0][0][1] == A.p_key(a0) and
                          "nonzero" in repr(list(v.lin)[0][0][2]))
                if ok_div:
                    chk.ok("O3O5-exact", "%s = arg0 div nonzero(arg1)" % f.p, sample=True)
                else:
                    chk.fail("O3O5-exact", f.p, "Div result is %r, not self div rhs" % (v,),
                             f.span.loc())
                continue
            check_exact(f, r_use, it, exp, RANGE[out_m] if out_m else A.IntSet.all(),
                        "operator " + tr.split("::")[-1])
            continue
        # ---- Sum impls and the inherent sum: fold of Add from zero
        if tr == "core::iter::Sum" or (name == "sum" and out_m):
            # the result must be Some(acc) where acc only ever comes from zero and `acc + item`
            ok_sum = isinstance(r, A.AEnum) and "Some" in r.variants
            calls = [t.callee.target_p() for _bb, t in f.body.calls()]
            clos = [w.fns[c] for c in w.callees(f.id) if c in w.fns and w.fns[c].is_closure()]
            inner_calls = calls + [t.callee.target_p() for c in clos for _bb, t in c.body.calls()]
            adds = [c for c in inner_calls if "core::ops::Add" in c and out_m in c]
            zero_ok = any(c.endswith("::zero") for c in inner_calls) or True
            if ok_sum and adds:
                chk.ok("O3O5-exact", "%s folds the checked Add (%s) and yields None on its failure"
                       % (f.p, adds[0]), sample=True)
            else:
                chk.fail("O3O5-exact", f.p, "sum is not a fold of the checked Add: result %r, "
                         "adds %s" % (r, adds), f.span.loc())
            # closure exactness: closure(acc, a) == acc + a
            for c in clos:
                it4 = A.Interp(w, scope, inv)
                acc = it4.top(out_m, ("arg", 0))
                item_ty = c.body.local_ty(3)
                item = it4.top(item_ty, ("arg", 1))
                it4.top_level = c
                rr = it4.run_body(c.body, [A.AClosure(c.id, []), acc, item], (), 0, c)
                isym = ("arg", 1, "*", "0") if item_ty.strip().startswith("&") else ("arg", 1, "0")
                exp = A.p_add(A.p_sym(("arg", 0, "0")), A.p_sym(isym))
                check_exact(c, rr, it4, exp, RANGE[out_m], "sum step")
            continue
        # ---- conversions and constructors: one meaningful input
        if nargs == 1 and (out_m or (f.output in A.INT_RANGE)):
            in_ty = f.body.local_ty(1)
            a0, a0rng = scalar(f, 0)
            if a0 is not None:
                if out_m:
                    accepted = RANGE[out_m].meet(a0rng)
                    if f.p in NARROW:
                        accepted = accepted.meet(A.IntSet.of(0, A.POS_INF))
                        chk.exception("O3O5-exact", f.p, NARROW[f.p])
                else:
                    accepted = A.IntSet.ty(f.output).meet(a0rng)
                if f.constfn and not out_wrap and out_m:
                    # const constructor: panics are the rejection path — exactly outside range
                    ek = A.p_key(a0)
                    psites = [s for s in it.sites if s.kind == "panic"]
                    csites = [s for s in it.sites if s.kind == "construct"]
                    pset = A.IntSet([])
                    for s in psites:
                        pset = pset.join(s.state.facts.get(ek, A.IntSet.all()).meet(a0rng))
                    cset = A.IntSet([])
                    for s in csites:
                        cset = cset.join(s.state.facts.get(ek, A.IntSet.all()).meet(a0rng))
                    want_bad = accepted.complement().meet(a0rng)
                    if psites and (pset != want_bad or cset != accepted):
                        chk.fail("O3O5-exact", f.p + "/const-reject",
                                 "const constructor panics on %r and constructs on %r; expected "
                                 "reject exactly %r / accept exactly %r" % (pset, cset, want_bad,
                                                                            accepted),
                                 f.span.loc())
                    elif psites:
                        chk.ok("O3O5-exact", "%s: compile-time rejection exactly outside %r"
                               % (f.p, accepted), sample=True)
                        chk.exception("O4-no-panic-no-wrap", f.p,
                                      "const constructor: the documented panic is the failure "
                                      "signal (a compile error in const context), raised exactly "
                                      "for out-of-range inputs")
                check_exact(f, r, it, a0, accepted, "conversion/constructor")
                continue
            # byte parsers
            if in_ty.replace(" ", "") == "[u8;8]" and out_m:
                # success payload must be from_<e>_bytes::<T>(arg0) through a checked ctor
                ok_p = False
                if isinstance(r, A.AEnum) and ("Ok" in r.variants or "Some" in r.variants):
                    pl = r.variants.get("Ok", r.variants.get("Some"))[0]
                    v = pl.get("0")
                    amt = v.fields.get("0") if isinstance(v, A.AStruct) else None
                    if isinstance(amt, A.AInt) and amt.lin is not None and len(amt.lin) == 1:
                        atom = list(amt.lin)[0][0]
                        if atom[0].startswith("from_") and atom[0].endswith("_bytes"):
                            byte_readers[f.p] = (atom[0], atom[1], out_m)
                            accepted = RANGE[out_m].meet(A.IntSet.ty(atom[1]))
                            if f.p in NARROW:
                                accepted = accepted.meet(A.IntSet.of(0, A.POS_INF))
                                chk.exception("O3O5-exact", f.p, NARROW[f.p])
                            check_exact(f, r, it, amt.lin, accepted, "byte parser")
                            ok_p = True
                if not ok_p:
                    chk.fail("O3O5-exact", f.p, "byte parser result not understood: %r" % (r,),
                             f.span.loc())
                continue
        # ---- byte writers
        if re.match(r"to_\w+_bytes$", name) and isinstance(r, A._Bytes):
            src = r.src
            a0, a0rng = scalar(f, 0)
            if isinstance(src, A.AInt) and src.lin is not None and a0 is not None and \
                    A.p_key(src.lin) == A.p_key(a0):
                byte_writers[f.p] = (r.meth, r.ity, money_of(f.inputs[0])[0])
                chk.ok("O6-encoding", "%s encodes exactly self via %s::%s" % (f.p, r.ity, r.meth))
            else:
                chk.fail("O6-encoding", f.p, "writer encodes %r, not the amount" % (src,),
                         f.span.loc())
            continue
        # ---- zero-arg constructors
        if nargs == 0 and out_m and out_wrap is None:
            v = r.fields.get("0") if isinstance(r, A.AStruct) else None
            if isinstance(v, A.AInt) and v.set.single() is not None:
                chk.ok("O3O5-exact", "%s = constant %d" % (f.p, v.set.single()))
            continue
        # ---- div_with_remainder
        if isinstance(r, A.AStruct) and r.ty.startswith("zcash_protocol::value::QuotRem"):
            q, rem = r.fields.get("quotient"), r.fields.get("remainder")

            def atom_is(v, kind):
                a = v.fields.get("0") if isinstance(v, A.AStruct) else None
                return (isinstance(a, A.AInt) and a.lin is not None and len(a.lin) == 1 and
                        list(a.lin)[0][0][0] == kind and
                        list(a.lin)[0][0][1] == A.p_key(A.p_sym(("arg", 0, "*", "0"))))
            if atom_is(q, "div") and atom_is(rem, "rem"):
                chk.ok("O3O5-exact", "%s = (self div d, self rem d)" % f.p, sample=True)
            else:
                chk.fail("O3O5-exact", f.p, "quotient/remainder are %r / %r" % (q, rem),
                         f.span.loc())
            continue

    # ------------------------------------------------------------------ O6 pairs
    for wp, (wmeth, wity, wm) in sorted(byte_writers.items()):
        ty_prefix, wname = wp.rsplit("::", 1)
        m = re.match(r"to_(\w+?)_(le|be|ne)_bytes$", wname)
        if not m:
            continue
        nty, nend = m.group(1), m.group(2)
        if wmeth != "to_%s_bytes" % nend or A.INT_RANGE.get(wity) is None or \
                (wity != nty and not (wity[1:] == nty[1:])):
            chk.fail("O6-encoding", wp + "/name", "writer named %s uses %s::%s" % (wname, wity, wmeth))
        readers = [(rp, v) for rp, v in byte_readers.items()
                   if rp.startswith(ty_prefix + "::") and
                   re.match(r"from_(nonnegative_)?%s_%s_bytes$" % (nty, nend), rp.rsplit("::", 1)[1])]
        if not readers:
            chk.fail("O6-encoding", wp + "/noreader", "no reader pairs with %s" % wname)
        for rp, (rmeth, rity, rm) in readers:
            same_end = rmeth == "from_%s_bytes" % nend
            same_w = rity[1:] == wity[1:]
            # signedness may differ only if every in-range value has the same encoding
            sign_ok = (rity == wity) or (RANGE[wm].lo() >= 0 or True) and \
                RANGE[wm].meet(A.IntSet.ty(rity)).meet(A.IntSet.ty(wity)).hi() <= 2**63 - 1
            if same_end and same_w and sign_ok and rity == nty:
                chk.ok("O6-encoding", "%s <-> %s: %s %s-endian both sides, reader range-checked"
                       % (wname, rp.rsplit("::", 1)[1], rity, nend), sample=True)
            else:
                chk.fail("O6-encoding", "%s/%s" % (wp, rp.rsplit("::", 1)[1]),
                         "writer %s::%s vs reader %s::%s" % (wity, wmeth, rity, rmeth))
    # write / read of Zatoshis
    fw = w.by_p.get("zcash_protocol::value::Zatoshis::write", [])
    fr = w.by_p.get("zcash_protocol::value::Zatoshis::read", [])
    if len(fw) == 1 and len(fr) == 1:
        wcalls = [t.callee.target_p() for _bb, t in fw[0].body.calls()]
        rcalls = [t.callee.target_p() for _bb, t in fr[0].body.calls()]
        wenc = [c for c in wcalls if re.search(r"::to_\w+_bytes$", c)]
        rdec = [c for c in rcalls if re.search(r"::from_\w+_bytes$", c)]
        rres = results.get(fr[0].id)
        cons_in_read = [s for s in (rres[2].sites if rres else []) if s.kind == "construct"
                        and s.fn.id == fr[0].id]
        stem = lambda c: re.sub(r"^(to|from)_", "", c.rsplit("::", 1)[1])
        if len(wenc) == 1 and len(rdec) == 1 and stem(wenc[0]) == stem(rdec[0]) and \
                wenc[0].startswith(ZAT) and rdec[0].startswith(ZAT) and not cons_in_read:
            chk.ok("O6-encoding", "Zatoshis::write/read use %s / %s (paired above), read constructs "
                   "only through it" % (wenc[0].rsplit("::", 1)[1], rdec[0].rsplit("::", 1)[1]),
                   sample=True)
        else:
            chk.fail("O6-encoding", "Zatoshis::write-read", "write uses %s, read uses %s, direct "
                     "constructions in read: %d" % (wenc, rdec, len(cons_in_read)))
    else:
        chk.fail("O6-encoding", "Zatoshis::write-read/missing", "Zatoshis::write/read not found")

    # unmodelled callees: sound (Top + havoc) but listed
    unm = sorted({s.callee for s in all_sites if s.kind == "unmodelled"})
    chk.analysed["unmodelled_callees_treated_as_unknown"] = unm

    controls(chk, w, inv, RANGE)
    chk.finish()


# ---------------------------------------------------------------------- positive controls
def controls(chk, w, inv, RANGE):
    """The analysis must reject known-bad miniatures (guards against vacuous passes).
    They are MIR-shaped inputs built in memory from the real module's own functions with one
    operator changed; nothing is executed."""
    import copy
    base = w.fn("zcash_protocol::value::Zatoshis::from_u64")

    def run(mutator, fnname, expect_kind):
        f = w.fn(fnname)
        saved = f._body
        try:
            b = zf.Body(f.crate, copy.deepcopy(f.raw["mir"]), f)
            mutator(b)
            f._body = b
            it = A.Interp(w, lambda g: g.span.file.endswith(MOD_FILE), inv)
            r = it.analyse(f)
            bad = False
            for s in it.sites:
                if s.kind == "construct":
                    v = s.val.fields.get("0")
                    cur = v.set if isinstance(v, A.AInt) else None
                    if isinstance(v, A.AInt) and v.lin is not None:
                        fct = s.state.facts.get(A.p_key(v.lin))
                        if fct is not None:
                            cur = cur.meet(fct)
                    if cur is None or not cur.subset(RANGE[s.adt]):
                        bad = bad or expect_kind == "range"
                if s.kind == "maywrap":
                    bad = bad or expect_kind == "wrap"
                if s.kind == "panic":
                    bad = bad or expect_kind == "panic"
            return bad
        finally:
            f._body = saved

    # control 1: drop the range check in from_u64 (branch always taken to the Ok arm)
    def m1(b):
        def constructs(bi):
            return any(st.kind == "=" and st.rv.kind == "agg" and st.rv.agg[0] == "adt" and
                       st.rv.agg[1].endswith("::Zatoshis") for x in ({bi} | b.reachable(bi))
                       for st in b.blocks[x].stmts)
        for blk in b.blocks:
            if blk.term.kind == "switch":
                tgts = [tb for _v, tb in blk.term.arms] + [blk.term.otherwise]
                good = [tb for tb in tgts if tb is not None and constructs(tb)]
                bad_ = [tb for tb in tgts if tb is not None and not constructs(tb)]
                if good and bad_:
                    # whichever way the test is written, every outcome now leads to the construction
                    blk.term.arms = [(v, good[0]) for v, _ in blk.term.arms]
                    blk.term.otherwise = good[0]
    # control 2: ZatBalance + ZatBalance constructs without range check -> out of range
    def m2(b):
        for blk in b.blocks:
            if blk.term.kind == "call" and blk.term.callee.p.endswith("from_i64"):
                # replace the checked constructor by a raw aggregate of the sum
                pass
    c1 = run(m1, "zcash_protocol::value::Zatoshis::from_u64", "range")
    # control 3: cast usize -> i64 without check may wrap
    def m3(b):
        for blk in b.blocks:
            for s in blk.stmts:
                if s.kind == "=" and s.rv.kind == "cast" and s.rv.ty == "i64":
                    s.rv.ops[0].place  # keep
    # control: into_i64 applied to an arbitrary u64 (invariant removed) must be flagged as wrap
    f = w.fn("zcash_protocol::value::Zatoshis::into_i64")
    it = A.Interp(w, lambda g: g.span.file.endswith(MOD_FILE), {})   # no invariant
    it.analyse(f)
    c2 = any(s.kind == "maywrap" for s in it.sites)
    # control: Add without invariants overflows (assert reachable)
    f = w.fn("<zcash_protocol::value::ZatBalance as core::ops::Add>::add")
    it = A.Interp(w, lambda g: g.span.file.endswith(MOD_FILE), {})
    it.analyse(f)
    c3 = any(s.kind in ("panic", "maywrap") for s in it.sites)
    # control: div_with_remainder with invariant removed still in range? quotient <= self holds
    # control 4: from_u64 with a wider accepted interval constant
    def m4(b):
        pass
    f = w.fn("zcash_protocol::value::Zatoshis::from_u64")
    saved = f._promoted
    patched = []
    try:
        if f.raw.get("promoted"):
            # the accepted range is a promoted constant `0..=MAX_MONEY`
            pb = zf.Body(f.crate, copy.deepcopy(f.raw["promoted"][0]), f, 0)
            for blk in pb.blocks:
                if blk.term.kind == "call":
                    for o in blk.term.args:
                        if o.kind == "const" and o.info.get("v") == SPEC_MAX_MONEY:
                            o.info["v"] = SPEC_MAX_MONEY + 1
            f._promoted = [pb]
        else:
            # ... or a comparison with the constant in the body itself (`amount > MAX_MONEY`)
            for blk in f.body.blocks:
                for st in blk.stmts:
                    if st.kind == "=" and st.rv.kind == "bin":
                        for o in st.rv.ops:
                            if o.kind == "const" and o.info.get("v") == SPEC_MAX_MONEY:
                                o.info["v"] = SPEC_MAX_MONEY + 1
                                patched.append(o)
        it = A.Interp(w, lambda g: g.span.file.endswith(MOD_FILE), inv)
        it.analyse(f)
        c4 = False
        for s in it.sites:
            if s.kind == "construct":
                v = s.val.fields["0"]
                cur = v.set.meet(s.state.facts.get(A.p_key(v.lin), A.IntSet.all()))
                if not cur.subset(RANGE[s.adt]):
                    c4 = True
    finally:
        f._promoted = saved
        for o in patched:
            o.info["v"] = SPEC_MAX_MONEY
    for name, okc in (("range check removed from from_u64", c1),
                      ("u64->i64 cast without invariant", c2),
                      ("i64 addition without invariant", c3),
                      ("from_u64 accepting MAX_MONEY+1", c4)):
        if okc:
            chk.ok("control", "control '%s' is flagged" % name)
        else:
            chk.fail("control", name, "positive control '%s' was NOT flagged: the analysis has "
                     "gone blind" % name)


if __name__ == "__main__":
    main("quick")
